"""Dict displays and symbolic dicts."""
from __future__ import annotations

import ast

import z3

from .ctx import Unsupported
from .interp import PyRaise, _has_sym, mk_exc
from .values import SDict, Sym


def display(I, node, env):
    out = {}
    for k, v in zip(node.keys, node.values):
        if k is None:
            d = I.eval(v, env)
            if isinstance(d, SDict):
                raise Unsupported("** of symbolic dict in display")
            if not isinstance(d, dict):
                raise PyRaise(mk_exc(TypeError, "not a mapping"))
            for kk, vv in d.items():
                out[kk] = vv
        else:
            key = I.eval(k, env)
            if isinstance(key, Sym):
                raise Unsupported("dict display with symbolic key")
            out[key] = I.eval(v, env)
    return out


def get(I, d, key, raise_keyerror=True, default=None):
    raise Unsupported("symbolic dict read")


def set(I, d, key, value):
    raise Unsupported("symbolic dict write")


def length(I, d):
    raise Unsupported("symbolic dict len")


def method(I, d, name, args, kwargs):
    raise Unsupported(f"symbolic dict method {name}")
