"""with / async with, @contextmanager generators (cut at yield), async generators."""
from __future__ import annotations

import ast
import asyncio
import contextlib

from .ctx import Unsupported
from .interp import BreakSig, ContinueSig, Env, PyRaise, ReturnSig, exc_class, mk_exc
from .values import ExtClass, SObj


class CM:
    """Engine-level context manager."""

    is_async_only = False

    def enter(self, I, is_async):
        return None

    def exit(self, I, exc, is_async):
        """exc is the in-flight exception value or None.  Return True to suppress."""
        return False


class TimeoutCM(CM):
    """asyncio.timeout(t) (assumed contract, DESIGN 2.5): the body is cancelled at an await once
    exactly t has elapsed, and the CancelledError becomes TimeoutError at exit."""

    def __init__(self, t):
        self.t = t
        self.expired = False

    def enter(self, I, is_async):
        I.timeout_stack.append(self)
        I.ctx.assumptions_used.add("external:asyncio.timeout")
        I.ctx.emit("timeout.armed", None, (self.t,), {})
        return self

    def exit(self, I, exc, is_async):
        assert I.timeout_stack and I.timeout_stack[-1] is self
        I.timeout_stack.pop()
        if exc is not None and isinstance(exc, SObj) and exc.fields.get("__timeout_scope__") is self:
            raise PyRaise(mk_exc(asyncio.TimeoutError))
        return False


class GeneratorCM(CM):
    """@contextlib.contextmanager function of the repo: body cut at its single yield."""

    def __init__(self, pyfunc, node, modname, args, kwargs, bound_self):
        self.pyfunc, self.node, self.modname = pyfunc, node, modname
        self.args, self.kwargs, self.bound_self = args, kwargs, bound_self


def exec_with(I, node, env, is_async):
    items = node.items

    def run(i):
        if i == len(items):
            I.exec_block(node.body, env)
            return
        item = items[i]
        cm = I.eval(item.context_expr, env)
        run_cm(I, cm, item.optional_vars, env, lambda: run(i + 1), is_async)

    run(0)


def run_cm(I, cm, target, env, body, is_async):
    if isinstance(cm, GeneratorCM):
        return run_generator_cm(I, cm, target, env, body)
    if isinstance(cm, contextlib.nullcontext):
        if target is not None:
            I.assign_target(target, cm.enter_result, env)
        body()
        return
    if isinstance(cm, contextlib.suppress):
        try:
            body()
        except PyRaise as pr:
            if any(issubclass(exc_class(pr.exc), c) for c in cm._exceptions):
                return
            raise
        return
    if isinstance(cm, SObj) and isinstance(cm.cls, ExtClass):
        enter = cm.cls.methods.get("__aenter__" if is_async else "__enter__")
        exit_ = cm.cls.methods.get("__aexit__" if is_async else "__exit__")
        if enter is None or exit_ is None:
            raise Unsupported(f"external {cm.cls.__name__} used as context manager without an assumed contract")
        v = enter.apply(I, cm, [], {})
        if is_async and enter.is_async:
            if I.await_handler is None:
                raise Unsupported("async with outside a coroutine rule")
            v = I.await_handler(I, v, None)
        if target is not None:
            I.assign_target(target, v, env)

        def on_exit(exc):
            # release / __aexit__ of the supported primitives does not suspend
            return exit_.apply_now(I, cm, [exc], {})

        return _guarded(I, body, on_exit)
    if isinstance(cm, CM):
        v = cm.enter(I, is_async)
        if target is not None:
            I.assign_target(target, v, env)
        return _guarded(I, body, lambda exc: cm.exit(I, exc, is_async))
    raise Unsupported(f"with on {type(cm).__name__} without a contract")


def _guarded(I, body, on_exit):
    try:
        body()
    except PyRaise as pr:
        if on_exit(pr.exc):
            return
        raise
    except (ReturnSig, BreakSig, ContinueSig):
        on_exit(None)
        raise
    else:
        on_exit(None)


def run_generator_cm(I, cm, target, env, body):
    state = {"yielded": 0, "signal": None}

    def on_yield(value):
        state["yielded"] += 1
        if state["yielded"] > 1:
            raise PyRaise(mk_exc(RuntimeError, "generator didn't stop"))
        if target is not None:
            I.assign_target(target, value, env)
        try:
            body()
        except (ReturnSig, BreakSig, ContinueSig) as sig:
            state["signal"] = sig
        # PyRaise from the body propagates into the generator at the yield point
        return None

    I.yield_stack.append(on_yield)
    try:
        try:
            I.call_ast_function(cm.node, cm.modname, None, list(cm.args), dict(cm.kwargs), bound_self=cm.bound_self)
        finally:
            I.yield_stack.pop()
    except PyRaise:
        raise
    if state["yielded"] == 0:
        raise PyRaise(mk_exc(RuntimeError, "generator didn't yield"))
    if state["signal"] is not None:
        raise state["signal"]


class AsyncGenCall:
    """Call of an `async def ... yield` function of the repo; consumed by `async for`."""

    def __init__(self, node, modname, args, kwargs, bound_self, qualname):
        self.node, self.modname, self.args, self.kwargs = node, modname, args, kwargs
        self.bound_self, self.qualname = bound_self, qualname
