"""Contract language: type descriptors, class specs, function contracts, registry.

Contracts live in /verif/contracts/*.py as sidecar files keyed by qualified name; clauses are
ordinary python lambdas whose *source* is evaluated by the PyVC interpreter (formula mode for
proof obligations, execution mode on concrete values for native replays).
"""
from __future__ import annotations

import enum
import importlib
import inspect

import z3

from . import source
from .ctx import Unsupported
from .values import (
    ByteSeq,
    ExtClass,
    Opaque,
    OpaqueSort,
    SBool,
    SBytes,
    SDict,
    SEnum,
    SFuture,
    SInt,
    SObj,
    SOpt,
    SReal,
    enum_accepts_undefined,
    enum_is_int,
    enum_members,
    enum_range,
    enum_to_int,
)


# ---------------------------------------------------------------------------
# type descriptors
# ---------------------------------------------------------------------------
class Ty:
    def fresh(self, I, name):
        raise NotImplementedError

    def describe(self):
        return type(self).__name__


class IntT(Ty):
    def __init__(self, lo=None, hi=None, cls=None):
        self.lo, self.hi, self.cls = lo, hi, cls

    def fresh(self, I, name):
        t = I.ctx.fresh_int(name)
        if self.lo is not None:
            I.ctx.assume(t >= self.lo)
        if self.hi is not None:
            I.ctx.assume(t <= self.hi)
        if self.cls is not None:
            from .calls import STypedInt

            return STypedInt(t, self.cls)
        return SInt(t)

    def describe(self):
        return f"int[{self.lo},{self.hi}]"


class BoolT(Ty):
    def fresh(self, I, name):
        return SBool(I.ctx.fresh_bool(name))


class RealT(Ty):
    def fresh(self, I, name):
        return SReal(I.ctx.fresh_real(name))


class BytesT(Ty):
    def __init__(self, mutable=False, maxlen=None, minlen=None):
        self.mutable, self.maxlen, self.minlen = mutable, maxlen, minlen

    def fresh(self, I, name):
        t = I.ctx.fresh_const(name, ByteSeq)
        if self.maxlen is not None:
            I.ctx.assume(z3.Length(t) <= self.maxlen)
        if self.minlen is not None:
            I.ctx.assume(z3.Length(t) >= self.minlen)
        return SBytes(t, self.mutable)


class EnumT(Ty):
    def __init__(self, cls, defined_only=False):
        self.cls, self.defined_only = cls, defined_only

    def fresh(self, I, name):
        v = I.ctx.fresh_int(name)
        cls = self.cls
        if enum_is_int(cls) and enum_accepts_undefined(cls) and not self.defined_only:
            rng = enum_range(cls)
            if rng:
                I.ctx.assume(z3.And(v >= rng[0], v <= rng[1]))
        else:
            I.ctx.assume(z3.Or([v == enum_to_int(m) for m in enum_members(cls)]))
        return SEnum(cls, v)


class OptT(Ty):
    def __init__(self, inner):
        self.inner = inner

    def fresh(self, I, name):
        p = I.ctx.fresh_bool(name + "?")
        return SOpt(p, self.inner.fresh(I, name))


class ConstT(Ty):
    def __init__(self, value):
        self.value = value

    def fresh(self, I, name):
        if isinstance(self.value, (dict, list, set, bytearray)):
            import copy

            return copy.deepcopy(self.value)  # mutable constants are per path
        return self.value


class OpaqueT(Ty):
    def __init__(self, kind="opaque"):
        self.kind = kind

    def fresh(self, I, name):
        return Opaque(I.ctx.fresh_const(name, OpaqueSort), self.kind)


class TupleT(Ty):
    def __init__(self, *items):
        self.items = items

    def fresh(self, I, name):
        return tuple(t.fresh(I, f"{name}.{i}") for i, t in enumerate(self.items))


class ListT(Ty):
    """list with a fixed number of symbolic elements (concrete spine)."""

    def __init__(self, *items):
        self.items = items

    def fresh(self, I, name):
        return [t.fresh(I, f"{name}.{i}") for i, t in enumerate(self.items)]


class OneOfT(Ty):
    """Fork: each alternative is explored as its own path."""

    def __init__(self, *alts):
        self.alts = alts

    def fresh(self, I, name):
        k = I.ctx.choose(len(self.alts))
        return self.alts[k].fresh(I, name)


class FutureT(Ty):
    def __init__(self, pending=None, result=None, promise=None):
        self.pending = pending
        self.result = result
        self.promise = promise

    def fresh(self, I, name):
        st = I.ctx.fresh_int(name + ".state")
        I.ctx.assume(z3.And(st >= 0, st <= 3))
        if self.pending is True:
            I.ctx.assume(st == 0)
        f = SFuture(st)
        f.ghost["name"] = name
        if self.promise is not None:
            f.ghost["promise"] = self.promise
        if self.result is not None:
            f.result = self.result.fresh(I, name + ".result")
        f.exc = SObj(Exception, {"args": ()}, tag="unknown-exception")
        return f


class ObjT(Ty):
    """Instance of a ClassSpec (fields symbolic, invariant assumed)."""

    def __init__(self, spec, assume_inv=True, overrides=None):
        self.spec, self.assume_inv, self.overrides = spec, assume_inv, overrides or {}

    def fresh(self, I, name):
        return self.spec.fresh(I, name, assume_inv=self.assume_inv, overrides=self.overrides)


class RecordT(Ty):
    """Value-semantics record of a live class with the given field types."""

    def __init__(self, cls, frozen=True, **fields):
        self.cls, self.fields, self.frozen = cls, fields, frozen

    def fresh(self, I, name):
        return SObj(self.cls, {k: t.fresh(I, f"{name}.{k}") for k, t in self.fields.items()}, frozen=self.frozen)


class MapT(Ty):
    """dict keyed by ints (or int enums) with lazily materialised values of `vtype`."""

    def __init__(self, vtype, default_factory=None, card=False, keys=None, entry_inv=None):
        self.vtype, self.default_factory, self.card, self.keys = vtype, default_factory, card, keys
        self.entry_inv = entry_inv  # callable(I, key term, value) -> z3 fact assumed of every entry present at entry

    def fresh(self, I, name):
        from . import smap

        has = z3.Array(I.ctx.fresh_name(name + ".has"), z3.IntSort(), z3.BoolSort())
        card = None
        if self.card:
            card = I.ctx.fresh_int(name + ".len")
            I.ctx.assume(card >= 0)
        m = smap.SMap(name, has, self.vtype, None, self.default_factory, card)
        m.keydom = self.keys  # instantiated per materialised key (type invariant of the map)
        m.entry_inv = self.entry_inv
        return m


class SetT(Ty):
    """set of ints (membership array + cardinality ghost); `empty_means_none`: card == 0 <=> no member"""

    def __init__(self, lo=None, hi=None):
        self.lo, self.hi = lo, hi

    def fresh(self, I, name):
        from . import smap

        has = z3.Array(I.ctx.fresh_name(name + ".has"), z3.IntSort(), z3.BoolSort())
        card = I.ctx.fresh_int(name + ".len")
        I.ctx.assume(card >= 0)
        x = z3.Int(I.ctx.fresh_name("m"))
        # cardinality and membership agree at the boundary: empty <=> nothing is a member
        I.ctx.assume(z3.Implies(card == 0, z3.ForAll([x], z3.Not(z3.Select(has, x)))))
        if self.lo is not None:
            I.ctx.assume(z3.ForAll([x], z3.Implies(z3.Select(has, x), z3.And(x >= self.lo, x <= self.hi))))
        return smap.SSet(name, has, card)


class CollT(Ty):
    """list / set of objects with identity (futures, callables)."""

    def __init__(self, etype, maybe_more=True):
        self.etype, self.maybe_more = etype, maybe_more

    def fresh(self, I, name):
        from . import smap

        rn = I.ctx.fresh_bool(name + ".more") if self.maybe_more else z3.BoolVal(False)
        return smap.SColl(name, self.etype, [], rn)


class AnyListT(Ty):
    """a list about which nothing is known (any length, any elements) -- see smap.SList"""

    def fresh(self, I, name):
        from . import smap

        return smap.SList(name, I.ctx.fresh_const(name + ".prefix", OpaqueSort))


class ExtT(Ty):
    def __init__(self, ext: ExtClass):
        self.ext = ext

    def fresh(self, I, name):
        return SObj(self.ext, {k: t.fresh(I, f"{name}.{k}") for k, t in self.ext.field_types.items()}, tag=name)


class T:
    int = IntT()
    nat = IntT(lo=0)
    byte = IntT(0, 255)
    u3 = IntT(0, 7)
    bool = BoolT()
    real = RealT()
    bytes = BytesT()
    bytearray = BytesT(mutable=True)
    opaque = OpaqueT()
    str = OpaqueT("str")
    none = ConstT(None)

    @staticmethod
    def range(lo, hi):
        return IntT(lo, hi)

    @staticmethod
    def enum(cls, defined_only=False):
        return EnumT(cls, defined_only)

    @staticmethod
    def opt(inner):
        return OptT(inner)

    @staticmethod
    def const(v):
        return ConstT(v)

    @staticmethod
    def tuple(*items):
        return TupleT(*items)

    @staticmethod
    def list(*items):
        return ListT(*items)

    @staticmethod
    def oneof(*alts):
        return OneOfT(*alts)

    @staticmethod
    def future(**kw):
        return FutureT(**kw)

    @staticmethod
    def obj(spec, **kw):
        return ObjT(spec, **kw)

    @staticmethod
    def record(cls, **fields):
        return RecordT(cls, **fields)

    @staticmethod
    def ext(ext):
        return ExtT(ext)

    @staticmethod
    def bytes_(maxlen=None, minlen=None, mutable=False):
        return BytesT(mutable, maxlen, minlen)

    @staticmethod
    def map(vtype, **kw):
        return MapT(vtype, **kw)

    @staticmethod
    def set_(**kw):
        return SetT(**kw)

    @staticmethod
    def coll(etype, **kw):
        return CollT(etype, **kw)

    @staticmethod
    def any_list():
        return AnyListT()

    @staticmethod
    def typed_int(cls):
        bits = cls._bits
        signed = getattr(cls, "_signed", False)
        lo, hi = (-(1 << (bits - 1)), (1 << (bits - 1)) - 1) if signed else (0, (1 << bits) - 1)
        return IntT(lo, hi, cls)


# ---------------------------------------------------------------------------
# class specs
# ---------------------------------------------------------------------------
class ClassSpec:
    def __init__(self, qualname, fields, invariants=None, interference=None, stable=None, rely=None,
                 identity_fields=None):
        self.qualname = qualname
        self.fields = fields
        self.invariants = invariants or []  # list of (id, lambda self: ...)
        self.interference = interference  # list of field names other actions may change at awaits
        self.stable = stable or []
        self.rely = rely or []
        self.identity_fields = identity_fields or []
        self._cls = None

    @property
    def cls(self):
        if self._cls is None:
            modname, path = source.split_qualname(self.qualname)
            obj = importlib.import_module(modname)
            for p in path:
                obj = getattr(obj, p)
            self._cls = obj
        return self._cls

    def aux_fields(self):
        """Instance attributes the live class assigns (`self.x = ...` in any of its methods) that the contract's
        state does not declare -- bookkeeping a maintainer added, a counter, a flag.  They are not part of the
        abstraction the clauses speak about, but the code may read them, so an arbitrary object of the class has
        them: {name: (type, bounded)}.  The type comes from what the class assigns to the attribute: only boolean
        literals -> any bool (bounded: every value is one the class itself stores); only integer literals and
        `+= / -=` -> any int; `set()` -> a set; anything else -> an opaque value.  A refutation on a path that read
        an unbounded auxiliary attribute is never reported as a violation (no invariant is known for it): undecided."""
        if getattr(self, "_aux", None) is None:
            import ast as _ast

            aux = {}
            try:
                node, _m, _h = source.find_function(self.qualname)
            except KeyError:
                node = None
            assigns = {}
            if node is not None:
                for item in node.body:
                    if not isinstance(item, (_ast.FunctionDef, _ast.AsyncFunctionDef)) or not item.args.args:
                        continue
                    me = item.args.args[0].arg
                    for n in _ast.walk(item):
                        tgts, val, aug = [], None, False
                        if isinstance(n, _ast.Assign):
                            tgts, val = n.targets, n.value
                        elif isinstance(n, _ast.AnnAssign) and n.value is not None:
                            tgts, val = [n.target], n.value
                        elif isinstance(n, _ast.AugAssign):
                            tgts, val, aug = [n.target], n.value, True
                        for tg in tgts:
                            if isinstance(tg, (_ast.Tuple, _ast.List)):
                                for el in tg.elts:
                                    if isinstance(el, _ast.Attribute) and isinstance(el.value, _ast.Name) and el.value.id == me:
                                        assigns.setdefault(el.attr, []).append(("expr", None))
                            elif isinstance(tg, _ast.Attribute) and isinstance(tg.value, _ast.Name) and tg.value.id == me:
                                if isinstance(val, _ast.Constant):
                                    assigns.setdefault(tg.attr, []).append(("aug" if aug else "const", val.value))
                                elif isinstance(val, _ast.Call) and isinstance(val.func, _ast.Name) and val.func.id == "set" and not val.args:
                                    assigns.setdefault(tg.attr, []).append(("set", None))
                                else:
                                    assigns.setdefault(tg.attr, []).append(("expr", None))
            for name, how in assigns.items():
                if name in self.fields:
                    continue
                kinds = {k for k, _v in how}
                vals = [v for k, v in how if k in ("const", "aug")]
                if kinds <= {"const"} and all(isinstance(v, bool) for v in vals):
                    aux[name] = (T.bool, True)
                elif kinds <= {"const", "aug"} and all(isinstance(v, int) and not isinstance(v, bool) for v in vals):
                    aux[name] = (T.int, False)
                elif kinds <= {"const"} and all(v is None or isinstance(v, bool) for v in vals):
                    aux[name] = (T.opt(T.bool), True)
                elif kinds == {"set"}:
                    aux[name] = (T.set_(), False)
                else:
                    aux[name] = (OpaqueT("unknown"), False)
            self._aux = aux
            # the value the real constructor gives the attribute, where it is a literal (or an empty set): the start
            # of the short native histories that decide whether a counter-model's auxiliary state can be reached
            init = {}
            if node is not None:
                for item in node.body:
                    if isinstance(item, (_ast.FunctionDef, _ast.AsyncFunctionDef)) and item.name == "__init__" and item.args.args:
                        me = item.args.args[0].arg
                        for n in _ast.walk(item):
                            tg, val = None, None
                            if isinstance(n, _ast.Assign) and len(n.targets) == 1:
                                tg, val = n.targets[0], n.value
                            elif isinstance(n, _ast.AnnAssign) and n.value is not None:
                                tg, val = n.target, n.value
                            if (isinstance(tg, _ast.Attribute) and isinstance(tg.value, _ast.Name) and tg.value.id == me
                                    and tg.attr in aux and tg.attr not in init):
                                if isinstance(val, _ast.Constant):
                                    init[tg.attr] = ("const", val.value)
                                elif isinstance(val, _ast.Call) and isinstance(val.func, _ast.Name) and val.func.id in ("set", "dict", "list") and not val.args:
                                    init[tg.attr] = ("empty", val.func.id)
            self._aux_init = init
        return self._aux

    def aux_init(self):
        self.aux_fields()
        return self._aux_init

    def fresh(self, I, name, assume_inv=True, overrides=None):
        fields = {}
        for k, t in self.fields.items():
            if overrides and k in overrides:
                t = overrides[k]
            fields[k] = t.fresh(I, f"{name}.{k}")
        for k, (t, bounded) in self.aux_fields().items():
            if overrides and k in overrides:
                fields[k] = overrides[k].fresh(I, f"{name}.{k}")
                continue
            try:
                fields[k] = t.fresh(I, f"{name}.{k}")
            except Exception:
                fields[k] = T.opaque.fresh(I, f"{name}.{k}")
        obj = SObj(self.cls, fields, tag=name)
        if self.aux_fields():
            I.ctx.aux_fields_of[obj.oid] = {k: b for k, (_t, b) in self.aux_fields().items()}
        if assume_inv:
            self.assume_invariants(I, obj)
        return obj

    def assume_invariants(self, I, obj):
        for iid, lam in self.invariants:
            f = eval_clause(I, lam, {"self": obj})
            I.ctx.assume(f if isinstance(f, bool) else f)

    def invariant_formulas(self, I, obj):
        return [(iid, eval_clause(I, lam, {"self": obj})) for iid, lam in self.invariants]


def eval_clause(I, lam, bindings, old_view=None, native_old=None, pre_state=False):
    """Evaluate a contract lambda (by its source AST) in formula mode; returns z3 Bool / bool."""
    from .interp import Env

    node = source.lambda_ast(lam)
    names = [a.arg for a in node.args.posonlyargs + node.args.args + node.args.kwonlyargs]
    env = Env({}, None, _clause_globals(lam))
    for n in names:
        if n == "old":
            continue
        if n not in bindings:
            raise Unsupported(f"contract clause parameter '{n}' is not available here")
        env.vars[n] = bindings[n]
    # closure variables of the lambda
    if lam.__closure__:
        for cname, cell in zip(lam.__code__.co_freevars, lam.__closure__):
            env.vars.setdefault(cname, cell.cell_contents)
    prev = (I.fmode, I.old_view, I.native_old)
    prev_in_old = I.in_old
    if pre_state and old_view is not None:
        I.in_old = True  # the whole clause speaks about the state at entry (`raises ... when`)
    I.fmode = True
    if old_view is not None:
        I.old_view = old_view
    if native_old is not None:
        I.native_old = native_old
    try:
        import ast as _ast

        body = node.body
        if isinstance(node, _ast.Lambda):
            v = I.eval(body, env)
        else:
            v = I.call_ast_function(node, None, env, [], {})
        return I.formula(v)
    finally:
        I.fmode, I.old_view, I.native_old = prev
        I.in_old = prev_in_old


def _clause_globals(lam):
    return lam.__globals__


# ---------------------------------------------------------------------------
# function contracts
# ---------------------------------------------------------------------------
class Raises:
    def __init__(self, cid, exc_cls, when=None, fields=None, keeps=None):
        self.cid, self.exc_cls, self.when, self.fields = cid, exc_cls, when, fields
        self.keeps = keeps


class Contract:
    def __init__(self, qualname, props=()):
        self.qualname = qualname
        self.props = list(props)
        self.self_spec = None
        self.self_overrides = None
        self.args = {}  # name -> Ty
        self.arg_order = []
        self.requires_ = []  # (id, lambda)
        self.ensures_ = []  # (id, lambda, on)
        self.raises_ = []  # Raises
        self.no_other_raises = False
        self.modifies_ = None  # None = unconstrained; list of "self.field"
        self.returns_ = None
        self.inline = False
        self.check_inv = True
        self.cases_ = None  # list of (label, {argname: Ty})
        self.loops = {}  # ordinal -> LoopSpec
        self.is_async = None
        self.lets = []  # (name, lambda) evaluated at entry
        self.known_regions = []
        self.ghost_init = {}
        self.exits_expected = set()
        self.trusted = False
        self.effect_name = None
        self.stable_during = []
        self.await_overrides = {}
        self.notes = []
        self.assume_at_call = True
        self.setup = None
        self.cancellable = True
        self.await_asserts = []  # (id, lambda) checked at every suspension point

    def restrict(self, prop, cases=None, obligations=None):
        """For property `prop` only these cases / obligations of the contract are part of its check (the
        contract serves several properties; each claims what its statement is about)."""
        if "restrictions" not in self.__dict__:
            self.restrictions = {}
        self.restrictions[prop] = (cases, obligations)
        return self

    restrictions = {}

    def witness(self, loop_ordinal, cid, lam):
        """Native counterpart of a loop at_entry clause: a predicate over the effects of a whole native run
        (fx, arguments) that is False exactly when the clause is violated on that run."""
        if "native_witness" not in self.__dict__:
            self.native_witness = {}
        self.native_witness[(loop_ordinal, cid)] = lam
        return self

    native_witness = {}

    def observe(self, lam):
        """lam(self, ...) -> dict of values recorded in fx as ("observe", where, dict) at every
        resume from a suspension and just before every call of a contracted callee."""
        self.observe_ = lam
        return self

    observe_ = None
    native_context = None  # callable(bindings, recorder) -> context manager active while the real function is replayed
    returns_fn = None  # callable(I, bindings) -> result value at call sites (shape from live tables)
    pre_call = None  # callable(I, bindings): may raise what the callee raises before doing anything
    native_default = None  # callable(self, args, kwargs) -> what the stubbed callee answers in a replay beyond the script
    post_call = None  # callable(I, bindings): builds the part of the proved post-state that is an object graph

    def at_effect(self, effect_name, cid, lam):
        """lam(self, args..., fx, eargs, ekwargs) must hold at the moment the named external effect is emitted."""
        if not hasattr(self, "effect_asserts") or self.effect_asserts is Contract.effect_asserts:
            self.effect_asserts = []
        self.effect_asserts.append((effect_name, cid, lam))
        return self

    effect_asserts = ()

    def closure_role(self, name, rhs_contains):
        """the captured variable `name` is the local of the enclosing function that is assigned from an expression whose
        source contains `rhs_contains` (exactly equals it when it starts with '=') -- used when the code no longer
        spells the variable `name`"""
        if "closure_roles" not in self.__dict__:
            self.closure_roles = {}
        self.closure_roles[name] = rhs_contains
        return self

    closure_roles = {}

    def closure(self, name, ty):
        """a free variable of a nested function under contract (a closure): verified for an arbitrary value of that
        type, which is also a binding the clauses may mention"""
        if "closure_vars" not in self.__dict__:
            self.closure_vars = {}
        self.closure_vars[name] = ty
        return self

    closure_vars = {}

    def on_write(self, field, cid, lam):
        """lam(self, old_value, new_value, ...) must hold at every assignment `self.<field> = ...` made by this
        function (checked at the moment of the write, i.e. against the state the write actually replaces --
        after an await that is whatever the rest of the class left there)."""
        if "write_asserts" not in self.__dict__:
            self.write_asserts = []
        self.write_asserts.append((field, cid, lam))
        return self

    write_asserts = ()

    def await_assert(self, cid, lam):
        self.await_asserts.append((cid, lam))
        return self

    def stable(self, lam):
        self.stable_during.append(("stable", lam))
        return self

    # declaration API ------------------------------------------------------
    def self(self, spec, **overrides):
        self.self_spec = spec
        self.self_overrides = overrides or None
        return self

    def arg(self, name, ty):
        self.args[name] = ty
        self.arg_order.append(name)
        return self

    def cases(self, *cases):
        self.cases_ = list(cases)
        return self

    def let(self, name, lam):
        self.lets.append((name, lam))
        return self

    def requires(self, cid, lam):
        self.requires_.append((cid, lam))
        return self

    def ensures(self, cid, lam, on="return", at_calls=True):
        """at_calls=False: proved for the function, but not assumed at call sites (e.g. it speaks about the
        identity of an argument object that the caller's value model represents differently)"""
        self.ensures_.append((cid, lam, on))
        if not at_calls:
            if "proof_only" not in self.__dict__:
                self.proof_only = set()
            self.proof_only.add(cid)
        return self

    proof_only = frozenset()

    def raises(self, cid, exc_cls, when=None, fields=None):
        """The function raises exc_cls exactly when `when(old state)` holds (when=None: may raise
        it at any time -- only the class is constrained)."""
        self.raises_.append(Raises(cid, exc_cls, when, fields))
        return self

    def raises_nothing_else(self):
        self.no_other_raises = True
        return self

    def modifies(self, *paths):
        self.modifies_ = list(paths)
        return self

    def returns(self, ty):
        self.returns_ = ty
        return self

    def loop(self, ordinal, where=None, **kw):
        self.loops[ordinal] = LoopSpec(**kw)
        self.loops[ordinal].where = where
        return self

    def expect_exits(self, *kinds):
        self.exits_expected.update(kinds)
        return self


class LoopSpec:
    def __init__(self, invariant=None, modifies=None, variant=None, fold=None, ghost=None, invariants=None,
                 each=None, at_entry=None, iteration_raises=(), generic=None, each_old="entry", roles=None):
        # roles: {name used in the clauses: predicate over the value a local has when the loop is reached}.  A clause
        # parameter that is not a local of the code (the local was renamed) is bound to the one local whose entry
        # value satisfies the predicate -- the clause speaks about "the accumulator that starts empty", "the state
        # that starts at the seed", not about a spelling.  No unique match: the function is outside reach.
        self.roles = roles or {}
        # each_old: what old(...) means inside `each` clauses of a symbolic-range loop: the state at function
        # "entry" (default) or at the "head" of the iteration being verified
        self.each_old = each_old
        # generic: a Ty -- the body is verified once for an arbitrary element of that type (a superset of
        # the container's elements) instead of once per element
        self.generic = generic
        # per-iteration mode (loops over a concrete-spine container whose iterations branch on symbolic
        # data): `each` = [(id, lambda <loop vars>, fx: ...)] must hold for the effects of every single
        # iteration, verified from an arbitrary state satisfying the invariants; `at_entry` = assertions
        # about the state when the loop is reached
        self.each = each or []
        self.at_entry = at_entry or []
        self.iteration_raises = tuple(iteration_raises)
        self.invariants = invariants or ([("inv", invariant)] if invariant is not None else [])
        self.modifies = modifies
        self.variant = variant
        self.fold = fold
        self.ghost = ghost or {}


class Registry:
    def __init__(self):
        self.contracts = {}
        self.externals = {}
        self.constructors = {}
        self.inline_only = set()
        self.current_target = None
        self.modules_loaded = []

    def add(self, con):
        self.contracts[con.qualname] = con

    def contract_for_call(self, qualname, I):
        con = self.contracts.get(qualname)
        if con is None or con.inline:
            return None
        if I.native:
            return None
        if qualname == I.current_target:
            return None
        cur = self.contracts.get(I.current_target)
        if cur is not None and getattr(cur, "inline_callees", False):
            return None  # a lemma over the bodies (the callees are proved separately as well)
        return con

    def external_for(self, qualname):
        return self.externals.get(qualname)

    def constructor_for(self, cls):
        return self.constructors.get(cls)

    def apply_contract(self, I, con, f, args, kwargs, bound_self):
        from . import modular

        return modular.apply_contract(I, con, f, args, kwargs, bound_self)


REGISTRY = Registry()


def contract(qualname, props=()):
    def deco(fn):
        con = Contract(qualname, props)
        fn(con)
        REGISTRY.add(con)
        return con

    return deco


def external(qualname):
    def deco(fn):
        REGISTRY.externals[qualname] = fn
        return fn

    return deco


def constructor(cls):
    def deco(fn):
        REGISTRY.constructors[cls] = fn
        return fn

    return deco
