"""Verification driver: explores every path of a function under contract and discharges the
obligations its contract generates (DESIGN 2.4, 2.8, 2.10)."""
from __future__ import annotations

import ast
import time
import os
import traceback

import z3

from . import source
from .concretize import concretize_bindings
from .contracts import REGISTRY, Contract, eval_clause
from .ctx import STATS, Ctx, EngineError, Infeasible, PathEnd, Unsupported
from .interp import Interp, PyRaise, _z, exc_class
from .snapshot import clone_graph, snapshot
from .values import SObj

MAX_PATHS = 20000


class FunctionReport:
    def __init__(self, qualname, case=None):
        self.qualname = qualname
        self.case = case
        self.source_hash = None
        self.paths = 0
        self.infeasible = 0
        self.obligations = {}  # name -> dict(verdict, n, backends, t)
        self.refutations = []  # dicts
        self.outside_reach = None
        self.exits = {}
        self.assumptions = set()
        self.dropped = set()
        self.error = None
        self.pre_satisfiable = None
        self.wall_s = 0.0
        self.solver_s = 0.0
        self.queries = 0
        self.samples = []

    def record(self, name, verdict, info):
        o = self.obligations.setdefault(name, {"verdict": "proved", "n": 0, "backends": set(), "t": 0.0})
        o["n"] += 1
        o["backends"].add(info.get("backend", "?"))
        if info.get("backend2"):
            o["backends"].add(info["backend2"])
        o["t"] += info.get("t", 0.0)
        order = {"proved": 0, "undecided": 1, "refuted": 2}
        if order[verdict] > order[o["verdict"]]:
            o["verdict"] = verdict

    def to_dict(self):
        return {
            "qualname": self.qualname,
            "case": self.case,
            "source_hash": self.source_hash,
            "paths": self.paths,
            "obligations": {
                k: {"verdict": v["verdict"], "checked_on_paths": v["n"], "backends": sorted(v["backends"]),
                    "solver_s": round(v["t"], 4)}
                for k, v in sorted(self.obligations.items())
            },
            "refutations": self.refutations,
            "outside_reach": self.outside_reach,
            "exits": self.exits,
            "assumptions": sorted(self.assumptions),
            "dropped": sorted(self.dropped),
            "error": self.error,
            "pre_satisfiable": self.pre_satisfiable,
            "wall_s": round(self.wall_s, 3),
            "solver_s": round(self.solver_s, 3),
            "queries": self.queries,
            "samples": self.samples,
        }


def fn_params(node):
    a = node.args
    return [p.arg for p in a.posonlyargs + a.args] + [p.arg for p in a.kwonlyargs]


def build_entry(I, con: Contract, node, case_types):
    """Symbolic entry state: returns (bindings, positional args, kwargs, self_obj)."""
    bindings = {}
    params = fn_params(node)
    self_obj = None
    rest = params
    is_method = con.self_spec is not None
    if is_method:
        spec_ = (case_types or {}).get("__selfspec__") or con.self_spec  # a case may run the method on a subclass
        self_obj = spec_.fresh(I, "self", overrides=(case_types or {}).get("__self__") or con.self_overrides)
        bindings[params[0]] = self_obj
        rest = params[1:]
    elif params and params[0] == "cls" and "cls" in (case_types or con.args):
        pass
    kwargs = {}
    for p in rest:
        ty = None
        if case_types and p in case_types:
            ty = case_types[p]
        elif p in con.args:
            ty = con.args[p]
        if ty is None:
            continue  # default value is used
        v = ty.fresh(I, p)
        bindings[p] = v
        kwargs[p] = v
    va = node.args.vararg.arg if node.args.vararg is not None else None
    if va is not None:
        ty = (case_types or {}).get(va) or con.args.get(va)
        if ty is not None:
            v = ty.fresh(I, va)
            if not isinstance(v, tuple):
                raise Unsupported("*args must be given a tuple type")
            bindings[va] = v
            kwargs["__varargs__"] = v
    kwn = node.args.kwarg.arg if node.args.kwarg is not None else None
    if kwn is not None:
        ty = (case_types or {}).get(kwn) or con.args.get(kwn)
        if ty is not None:
            v = ty.fresh(I, kwn)
            if not isinstance(v, dict):
                raise Unsupported("**kwargs must be given a dict type")
            bindings[kwn] = v
            kwargs["__kwargs__"] = v
    return bindings, kwargs, self_obj


def run_path(con: Contract, case, prefix, worklist, report: FunctionReport, plant_canary=False, setup_hook=None):
    label, case_types = case if case is not None else (None, None)
    try:
        try:
            node, modname, h = source.find_function(con.qualname)
        except KeyError:
            role = getattr(con, "located_by", None)
            if role is None:
                raise
            # the helper is not where it used to be (renamed, or a closure turned into a method): found by its role
            node, modname, h, _m = source.find_function_by_role(*role)
    except KeyError as e:
        why = getattr(con, "must_exist", None)
        if why:
            # the property's mechanism lives in this very function (by this name): its absence is a failed
            # structural obligation, not an engine limit
            report.record(f"{con.qualname}::exists", "refuted", {"backend": "source"})
            report.refutations.append({"obligation": f"{con.qualname}::exists", "case": label, "inputs": {},
                                       "decisions": [], "goal": f"function not found in the source: {why}",
                                       "model": "", "awaits": []})
            report.paths += 1
            return
        raise Unsupported(f"function under contract not found in the source: {e}")
    if getattr(con, "must_exist", None):
        report.record(f"{con.qualname}::exists", "proved", {"backend": "source"})
    report.source_hash = h
    _check_decorators(con, node)
    ctx = Ctx(prefix, worklist)
    from . import values as _values

    del _values.LIVE_FUTURES[:]
    del _values.LIVE_EXT[:]
    I = Interp(ctx, REGISTRY)
    I.current_target = con.qualname
    qn = con.qualname
    try:
        ctx.ghost["__case__"] = label or ""
        bindings, kwargs, self_obj = build_entry(I, con, node, case_types)
        closure_env = None
        if con.closure_vars:
            import importlib

            from .interp import Env

            cv = {}
            for n_, ty_ in con.closure_vars.items():
                ty2 = (case_types or {}).get(n_, ty_)
                cv[n_] = ty2.fresh(I, n_)
            # the names the code gives the captured variables: the contract's own, or -- when the code no longer uses
            # that spelling -- the enclosing function's local with the declared role (Contract.closure_role)
            real = dict(cv)
            used = {x.id for x in ast.walk(node) if isinstance(x, ast.Name)}
            roles = getattr(con, "closure_roles", {}) or {}
            missing_ = [n_ for n_ in cv if n_ not in used and n_ in roles]
            if missing_:
                try:
                    within = (getattr(con, "located_by", None) or (con.qualname.rsplit(".", 1)[0],))[0]
                    outer, _m2, _h2 = source.find_function(within)
                    for n_ in missing_:
                        want = roles[n_]
                        hits = set()
                        for st in ast.walk(outer):
                            tg = st.targets[0] if isinstance(st, ast.Assign) and len(st.targets) == 1 else (
                                st.target if isinstance(st, ast.AnnAssign) and st.value is not None else None)
                            if isinstance(tg, ast.Name):
                                rhs = ast.unparse(st.value)
                                if (rhs == want[1:]) if want.startswith("=") else (want in rhs):
                                    hits.add(tg.id)
                        hits &= used
                        if len(hits) == 1:
                            real[hits.pop()] = real.pop(n_)
                except KeyError:
                    pass
            params_ = {a_.arg for a_ in node.args.posonlyargs + node.args.args + node.args.kwonlyargs}
            lost = [n_ for n_ in cv if n_ in real and n_ not in used and n_ not in params_]
            if lost:
                # the code no longer has a captured variable of that name and none with its role: nothing can be said
                # about this function on this tree (never a NameError of the engine's own making)
                raise Unsupported(f"captured variable(s) {lost} of {con.qualname} not found in the code (renamed?)")
            closure_env = Env(real, None, importlib.import_module(modname).__dict__)
            bindings.update(cv)
            # a "closure variable" that the function now takes as a parameter (the closure became a method: `self`)
            for a_ in node.args.posonlyargs + node.args.args + node.args.kwonlyargs:
                if a_.arg in cv and a_.arg not in kwargs:
                    kwargs[a_.arg] = cv[a_.arg]
        if con.setup is not None:
            con.setup(I, bindings)
        for name, lam in con.lets:
            from .modular import _eval_value

            bindings[name] = _eval_value(I, lam, bindings)
        for cid, lam in con.requires_:
            ctx.assume(_z(eval_clause(I, lam, bindings)))
        if report.pre_satisfiable is None:
            report.pre_satisfiable = ctx.is_feasible()
        ctx.entry_syms = clone_graph(bindings)
        old_view = snapshot(list(bindings.values()))
        I.entry_old_view = old_view
        from . import asyncrule, looprule

        I.self_spec, I.self_obj = con.self_spec, self_obj
        if con.write_asserts and self_obj is not None:
            def _write_hook(obj, name, value, _b=bindings):
                for fld, cid, lam in con.write_asserts:
                    if fld != name or name not in obj.fields:
                        continue
                    b = dict(_b)
                    b.update({"old_value": obj.fields[name], "new_value": value})
                    names = lam.__code__.co_varnames[: lam.__code__.co_argcount]
                    f = eval_clause(I, lam, {n: b[n] for n in names if n in b}, old_view=old_view)
                    ctx.check_obligation(f"{qn}::write.{fld}.{cid}", f)

            I.write_hook = _write_hook
        I.super_async = getattr(con, "super_async", ())
        I.super_raises = getattr(con, "super_raises", ())
        asyncrule.install(I, con, self_obj, bindings)
        looprule.install(I, con, node, bindings)
        if con.modifies_ is not None and self_obj is not None:
            pass  # frame is checked at exit against the snapshot
        result, raised, exit_kind = None, None, "return"
        from .calls import _contains_yield

        if _contains_yield(node):
            # a generator under contract: every yield is an effect ("yield", None, (value,), {}); a consumer may
            # stop iterating at any yield (GeneratorExit is not modelled: the contracts speak about what is yielded)
            I.yield_stack.append(lambda v: ctx.emit("yield", None, (v,), {}))
        try:
            kw = dict(kwargs)
            # positional parameters are passed by keyword; *args (if typed) follows them positionally
            extra = list(kw.pop("__varargs__", ()))
            extra_kw = kw.pop("__kwargs__", None)
            pos = []
            if extra:
                a_ = node.args
                names_ = [p.arg for p in a_.posonlyargs + a_.args][(1 if self_obj is not None else 0):]
                pos = [kw.pop(n_) for n_ in names_ if n_ in kw] + extra
            if extra_kw:
                kw.update(extra_kw)
            if self_obj is not None:
                result = I.call_ast_function(node, modname, closure_env, pos, kw, bound_self=self_obj)
            else:
                result = I.call_ast_function(node, modname, closure_env, pos, kw)
        except PyRaise as pr:
            raised = pr.exc
            exit_kind = "raise"
        if isinstance(node, ast.AsyncFunctionDef):
            asyncrule.drain_callbacks(I)
        ek = exit_kind if raised is None else f"raise:{exc_class(raised).__name__}"
        report.exits[ek] = report.exits.get(ek, 0) + 1
        check_exit(I, con, bindings, old_view, result, raised, exit_kind, self_obj, plant_canary)
    except Infeasible:
        report.infeasible += 1
        return
    except PathEnd:
        pass
    finally:
        report.assumptions |= ctx.assumptions_used
        report.dropped |= ctx.dropped
        for name, verdict, info in ctx.obligations:
            if verdict == "refuted" and info.get("aux_reads") and not name.endswith("::__canary__"):
                # the path read an attribute the class keeps but the contract's state does not declare, of a kind
                # for which nothing bounds its value: the counter-model may sit in an unreachable state -> undecided,
                # never a violation
                report.record(name, "undecided", info)
                report.assumptions.add(
                    f"aux:counter-model of {name.split('::')[-1]} on a path that read undeclared attribute(s) "
                    f"{info['aux_reads']} (no invariant known for them): a violation only if a short native history "
                    "from the constructor's values reaches it")
                m = info.get("model")
                try:
                    inputs = concretize_bindings(ctx.entry_syms, m)
                    report.refutations.append(
                        {"obligation": name, "case": label, "inputs": inputs, "decisions": list(ctx.decisions),
                         "goal": str(info.get("goal"))[:2000], "model": str(m)[:4000],
                         "awaits": _conc_awaits(ctx.await_log, m), "aux_reads": list(info["aux_reads"])})
                except Exception:  # pragma: no cover
                    pass
                continue
            report.record(name, verdict, info)
            if verdict == "refuted" and not name.endswith("::__canary__"):
                m = info.get("model")
                try:
                    inputs = concretize_bindings(ctx.entry_syms, m)
                except Exception as e:  # pragma: no cover
                    inputs = {"__concretize_error__": repr(e)}
                if any("exc_sym" in r for r in ctx.sync_outcomes) and isinstance(inputs, dict):
                    from .concretize import conc as _conc

                    try:
                        inputs["__sync_outcomes__"] = [
                            {"name": r["name"], "nth": r["nth"], "exc": _conc(r["exc_sym"], m, 0, {})}
                            for r in ctx.sync_outcomes if "exc_sym" in r]
                    except Exception:  # pragma: no cover
                        pass
                report.refutations.append(
                    {"obligation": name, "case": label, "inputs": inputs, "decisions": list(ctx.decisions),
                     "goal": str(info.get("goal"))[:2000], "model": str(m)[:4000],
                     "awaits": _conc_awaits(ctx.await_log, m)}
                )
        for name, verdict, info in ctx.obligations:
            if "goal_text" in info and len(report.samples) < 3:
                report.samples.append({"obligation": name, "verdict": verdict, "backend": info.get("backend"),
                                       "path_decisions": list(ctx.decisions)[:12], "hypotheses_on_path": info.get("hypotheses"),
                                       "goal": info["goal_text"], "solver_s": round(info.get("t", 0.0), 4)})
    report.paths += 1


# decorators whose effect on the function's meaning the engine models (binding kind only)
KNOWN_DECORATORS = {"classmethod", "staticmethod", "property", "abc.abstractmethod", "abstractmethod",
                    "contextlib.contextmanager", "contextmanager", "contextlib.asynccontextmanager"}


def _check_decorators(con, node):
    for d in getattr(node, "decorator_list", []):
        s = ast.unparse(d)
        if s in KNOWN_DECORATORS or s in getattr(con, "accepted_decorators", ()):
            continue
        raise Unsupported(f"decorator @{s} on {con.qualname} is not modelled: the verified text would not be the code that runs")


def _conc_awaits(log, m):
    from .concretize import conc

    out = []
    for rec in log:
        r = {k: v for k, v in rec.items() if k not in ("state", "value_sym", "exc_sym")}
        if m is not None:
            try:
                seen = {}
                if "state" in rec:
                    r["state"] = {k: conc(v, m, 0, seen) for k, v in rec["state"].items()}
                if "value_sym" in rec:
                    r["value"] = conc(rec["value_sym"], m, 0, seen)
                if "exc_sym" in rec:
                    r["exc"] = conc(rec["exc_sym"], m, 0, seen)
            except Exception as e:  # pragma: no cover
                r["state_error"] = repr(e)
        out.append(r)
    return out


def _is_async(con):
    try:
        node, _m, _h = source.find_function(con.qualname)
    except KeyError:
        return False
    return isinstance(node, ast.AsyncFunctionDef)


def known_hyps(I, con, name, bindings, old_view):
    hyps = []
    for kr in con.known_regions:
        if kr["obligation"] == name:
            f = eval_clause(I, kr["region"], bindings, old_view=old_view)
            hyps.append(z3.Not(_z(f)))
    return hyps


def check_exit(I, con, bindings, old_view, result, raised, exit_kind, self_obj, plant_canary=False):
    ctx = I.ctx
    qn = con.qualname
    b = dict(bindings)
    b["result"] = result
    b["raised"] = raised
    b["fx"] = list(ctx.fx)
    for g, v in ctx.ghost.items():
        b.setdefault(g, v)

    def check(name, f):
        full = f"{qn}::{name}"
        ctx.check_obligation(full, f, extra_hyp=known_hyps(I, con, full, b, old_view))

    # exception discipline
    if exit_kind == "raise":
        ec = exc_class(raised)
        matched = [r for r in con.raises_ if issubclass(ec, r.exc_cls)]
        if not matched:
            check(f"exc.undeclared:{ec.__name__}", False)
        else:
            check("exc.only_declared", True)
        for r in matched:
            if r.when is not None:
                check(f"raises.{r.cid}.sound", eval_clause(I, r.when, b, old_view=old_view, pre_state=True))
    else:
        check("exc.only_declared", True)
        for r in con.raises_:
            if r.when is not None:
                f = eval_clause(I, r.when, b, old_view=old_view, pre_state=True)
                check(f"raises.{r.cid}.complete", z3.Not(_z(f)))
    for cid, lam, on in con.ensures_:
        if on == "any" or on == exit_kind:
            try:
                f = eval_clause(I, lam, b, old_view=old_view)
            except PyRaise as pr:
                # the clause indexes something that is not there on this path (e.g. "the second command" of a run
                # that issued none): a postcondition that cannot be evaluated does not hold
                if issubclass(exc_class(pr.exc), (IndexError, KeyError)):
                    f = False
                else:
                    raise
            check(cid, f)
    # class invariant
    if con.self_spec is not None and con.check_inv and self_obj is not None:
        for iid, f in con.self_spec.invariant_formulas(I, self_obj):
            check(f"inv.{iid}", f)
    # frame
    if con.modifies_ is not None and self_obj is not None:
        allowed = {p.split(".", 1)[1] for p in con.modifies_ if p.startswith("self.")}
        if _is_async(con):
            # a coroutine is suspended at its awaits: the interference frame of the class is implicit
            allowed |= set(con.self_spec.interference if con.self_spec.interference is not None else con.self_spec.fields)
        oldf = old_view.get(self_obj.oid, {})
        declared = getattr(con.self_spec, "fields", None)
        for fld in sorted(set(oldf) | set(self_obj.fields)):
            if fld in allowed:
                continue
            if declared is not None and fld not in declared:
                # an attribute the class keeps beside the state the contract declares (ClassSpec.aux_fields): not part
                # of the abstraction the frame is about; reads of it are symbolic, writes to it concern nobody's clause
                continue
            if fld + ".*" in allowed:
                # contents may change, the binding may not
                a, b_ = oldf.get(fld), self_obj.fields.get(fld)
                same = getattr(a, "oid", None) is not None and getattr(a, "oid", None) == getattr(b_, "oid", None)
                check(f"frame.{fld}.binding", bool(same))
                if same and type(a).__name__ in ("SMap", "SColl") and getattr(b_, "default_factory", None) is None:
                    # (a defaultdict creates missing keys on read: an absent key and an empty default are
                    # the same to every reader, so key presence is not part of its frame)
                    check(f"frame.{fld}.keys", I.eq(a, b_))
                continue
            if fld not in oldf or fld not in self_obj.fields:
                check(f"frame.{fld}", False)
                continue
            check(f"frame.{fld}", I.eq(oldf[fld], self_obj.fields[fld]))
    if plant_canary:
        check("__canary__", False)


def verify(con: Contract, case=None, time_budget_s=600):
    """Explore all paths of the function for one case.  Returns FunctionReport."""
    label = case[0] if case else None
    report = FunctionReport(con.qualname, label)
    t0 = time.time()
    q0, s0 = STATS.queries, STATS.solver_s
    worklist = [[]]
    first = True
    try:
        while worklist:
            if report.paths + report.infeasible > MAX_PATHS:
                report.outside_reach = f"more than {MAX_PATHS} paths"
                break
            if time.time() - t0 > time_budget_s:
                report.outside_reach = f"time budget {time_budget_s}s exhausted after {report.paths} paths"
                break
            prefix = worklist.pop()
            run_path(con, case, prefix, worklist, report, plant_canary=first)
            first = False
    except Unsupported as u:
        report.outside_reach = f"{u}"
        if os.environ.get("PYVC_DEBUG"):
            traceback.print_exception(type(u), u, u.__traceback__)
    except Exception as e:  # engine error: never a verdict
        report.error = "".join(traceback.format_exception(type(e), e, e.__traceback__))[-3000:]
    report.wall_s = time.time() - t0
    report.queries = STATS.queries - q0
    report.solver_s = STATS.solver_s - s0
    return report


def cases_of(con: Contract):
    if con.cases_:
        return list(con.cases_)
    return [None]


def explore_one(con: Contract, case, prefix, first):
    """Run exactly one path (identified by its decision prefix).  Returns (report dict, new prefixes)."""
    label = case[0] if case else None
    report = FunctionReport(con.qualname, label)
    t0 = time.time()
    q0, s0 = STATS.queries, STATS.solver_s
    worklist = []
    from . import modstate

    modstate.begin_path()
    try:
        # the planted must-fail assertion goes on every path: it shows the pipeline can fail and that the
        # path condition of every explored path is satisfiable (no vacuous paths)
        try:
            run_path(con, case, prefix, worklist, report, plant_canary=True)
        finally:
            modstate.end_path()
    except Unsupported as u:
        report.outside_reach = f"{u}"
        if os.environ.get("PYVC_DEBUG"):
            traceback.print_exception(type(u), u, u.__traceback__)
    except Exception as e:  # engine error: never a verdict
        report.error = "".join(traceback.format_exception(type(e), e, e.__traceback__))[-3000:]
    report.wall_s = time.time() - t0
    report.queries = STATS.queries - q0
    report.solver_s = STATS.solver_s - s0
    d = report.to_dict()
    d["infeasible"] = report.infeasible
    return d, worklist


def merge_reports(acc, d):
    """Merge the report dict of one path into the accumulated report dict of the function."""
    if acc is None:
        return d
    order = {"proved": 0, "undecided": 1, "refuted": 2}
    for k, o in d["obligations"].items():
        a = acc["obligations"].get(k)
        if a is None:
            acc["obligations"][k] = o
            continue
        a["checked_on_paths"] += o["checked_on_paths"]
        a["backends"] = sorted(set(a["backends"]) | set(o["backends"]))
        a["solver_s"] = round(a["solver_s"] + o["solver_s"], 4)
        if order[o["verdict"]] > order[a["verdict"]]:
            a["verdict"] = o["verdict"]
    have = {r["obligation"] for r in acc["refutations"]}
    for r in d["refutations"]:
        if r["obligation"] not in have or len(acc["refutations"]) < 12:
            acc["refutations"].append(r)
            have.add(r["obligation"])
    for k, v in d["exits"].items():
        acc["exits"][k] = acc["exits"].get(k, 0) + v
    acc["paths"] += d["paths"]
    acc["infeasible"] = acc.get("infeasible", 0) + d.get("infeasible", 0)
    acc["assumptions"] = sorted(set(acc["assumptions"]) | set(d["assumptions"]))
    acc["dropped"] = sorted(set(acc["dropped"]) | set(d["dropped"]))
    acc["outside_reach"] = acc["outside_reach"] or d["outside_reach"]
    acc["error"] = acc["error"] or d["error"]
    if acc["pre_satisfiable"] is None:
        acc["pre_satisfiable"] = d["pre_satisfiable"]
    acc["wall_s"] = round(acc["wall_s"] + d["wall_s"], 3)
    acc["solver_s"] = round(acc["solver_s"] + d["solver_s"], 3)
    acc["queries"] += d["queries"]
    if len(acc["samples"]) < 3:
        acc["samples"].extend(d["samples"][: 3 - len(acc["samples"])])
    acc["source_hash"] = acc["source_hash"] or d["source_hash"]
    return acc
