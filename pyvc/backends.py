"""Second-opinion back end: cvc5 on the SMT-LIB text z3 produced (z3 `unknown` only)."""
from __future__ import annotations

import os
import re
import subprocess
import tempfile
import time

CVC5 = "/usr/bin/cvc5"
CVC5_TLIMIT_MS = 20000


def _translate(smt: str) -> str:
    # z3 dialect -> SMT-LIB 2.6 as cvc5 1.0 accepts it
    smt = smt.replace("bv2int", "bv2nat").replace("ubv_to_int", "bv2nat").replace("int_to_bv", "int2bv")
    # z3 splits seq.nth into an in-bounds part and an unspecified part; cvc5's seq.nth is total with an
    # unspecified (but functional) value out of bounds, which is the same thing
    smt = smt.replace("seq.nth_u", "seq.nth").replace("seq.nth_i", "seq.nth")
    smt = _rewrite_pb(smt)
    smt = smt.replace("'", "_prime")  # z3 accepts ' inside simple symbols, SMT-LIB does not
    smt = re.sub(r"\(declare-fun (\S+) \(\) ", r"(declare-const \1 ", smt)
    if "(set-logic" not in smt:
        smt = "(set-logic ALL)\n" + smt
    return smt


def _split_args(text, i):
    """text[i] is just after the operator's closing paren: returns (list of balanced argument strings, index of the
    closing paren of the application)"""
    args, depth, cur = [], 0, ""
    while i < len(text):
        ch = text[i]
        if ch == "(":
            depth += 1
            cur += ch
        elif ch == ")":
            if depth == 0:
                if cur.strip():
                    args.append(cur.strip())
                return args, i
            depth -= 1
            cur += ch
            if depth == 0:
                args.append(cur.strip())
                cur = ""
        elif ch.isspace() and depth == 0:
            if cur.strip():
                args.append(cur.strip())
            cur = ""
        else:
            cur += ch
        i += 1
    raise ValueError("unbalanced")


def _rewrite_pb(smt: str) -> str:
    """z3's pseudo-boolean operators ((_ pbeq k c1..cn) x1..xn), pble, pbge, at-most, at-least as linear integer
    arithmetic over (ite xi ci 0), which every SMT-LIB solver reads"""
    rx = re.compile(r"\(\(_ (pbeq|pble|pbge|at-most|at-least)((?: -?\d+)+)\)")
    while True:
        m = rx.search(smt)
        if not m:
            return smt
        op = m.group(1)
        nums = [int(x) for x in m.group(2).split()]
        args, end = _split_args(smt, m.end())
        if op in ("at-most", "at-least"):
            k, coeffs = nums[0], [1] * len(args)
        else:
            k, coeffs = nums[0], nums[1:]
        total = "(+ 0 " + " ".join(f"(ite {a} {c} 0)" for a, c in zip(args, coeffs)) + ")"
        rel = {"pbeq": "=", "pble": "<=", "at-most": "<=", "pbge": ">=", "at-least": ">="}[op]
        smt = smt[: m.start()] + f"({rel} {total} {k})" + smt[end + 1:]


def cvc5_check(smt: str):
    """Returns (verdict in {'unsat','sat','unknown','error'}, raw output, seconds)."""
    if not os.path.exists(CVC5):
        return "error", "cvc5 not installed", 0.0
    t0 = time.time()
    with tempfile.NamedTemporaryFile("w", suffix=".smt2", delete=False) as f:
        f.write(_translate(smt))
        path = f.name
    try:
        p = subprocess.run(
            [CVC5, "--strings-exp", f"--tlimit={CVC5_TLIMIT_MS}", path],
            capture_output=True,
            text=True,
            timeout=CVC5_TLIMIT_MS / 1000 + 10,
        )
        out = (p.stdout + p.stderr).strip()
        first = out.splitlines()[0].strip() if out else ""
        if first in ("unsat", "sat", "unknown"):
            return first, out, time.time() - t0
        return "error", out, time.time() - t0
    except subprocess.TimeoutExpired:
        return "unknown", "cvc5 timeout", time.time() - t0
    finally:
        os.unlink(path)
