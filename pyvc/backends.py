"""Second-opinion back end: cvc5 on the SMT-LIB text z3 produced (z3 `unknown` only)."""
from __future__ import annotations

import os
import re
import subprocess
import tempfile
import time

CVC5 = "/usr/bin/cvc5"
CVC5_TLIMIT_MS = 20000


def _translate(smt: str) -> str:
    # z3 dialect -> SMT-LIB 2.6 as cvc5 1.0 accepts it
    smt = smt.replace("bv2int", "bv2nat").replace("ubv_to_int", "bv2nat").replace("int_to_bv", "int2bv")
    # z3 splits seq.nth into an in-bounds part and an unspecified part; cvc5's seq.nth is total with an
    # unspecified (but functional) value out of bounds, which is the same thing
    smt = smt.replace("seq.nth_u", "seq.nth").replace("seq.nth_i", "seq.nth")
    smt = smt.replace("'", "_prime")  # z3 accepts ' inside simple symbols, SMT-LIB does not
    smt = re.sub(r"\(declare-fun (\S+) \(\) ", r"(declare-const \1 ", smt)
    if "(set-logic" not in smt:
        smt = "(set-logic ALL)\n" + smt
    return smt


def cvc5_check(smt: str):
    """Returns (verdict in {'unsat','sat','unknown','error'}, raw output, seconds)."""
    if not os.path.exists(CVC5):
        return "error", "cvc5 not installed", 0.0
    t0 = time.time()
    with tempfile.NamedTemporaryFile("w", suffix=".smt2", delete=False) as f:
        f.write(_translate(smt))
        path = f.name
    try:
        p = subprocess.run(
            [CVC5, "--strings-exp", f"--tlimit={CVC5_TLIMIT_MS}", path],
            capture_output=True,
            text=True,
            timeout=CVC5_TLIMIT_MS / 1000 + 10,
        )
        out = (p.stdout + p.stderr).strip()
        first = out.splitlines()[0].strip() if out else ""
        if first in ("unsat", "sat", "unknown"):
            return first, out, time.time() - t0
        return "error", out, time.time() - t0
    except subprocess.TimeoutExpired:
        return "unknown", "cvc5 timeout", time.time() - t0
    finally:
        os.unlink(path)
