"""Symbolic maps and collections with lazily materialised entries.

A dict / list of unbounded size is represented by
  * `has`: z3 Array(Int -> Bool), current key presence (maps only),
  * a list of *materialised* slots (key term, value object), pairwise distinct under the path
    condition, created on first access of a key,
  * an opaque rest that is never touched (so "everything else is unchanged" holds by
    construction and is stated through `has` alone).

Loops over all values are handled by the for-each rule (looprule.foreach): the body runs on every
materialised slot and once on an arbitrary element of the rest.
"""
from __future__ import annotations

import itertools

import z3

from .ctx import Unsupported
from .interp import PyRaise, _and, _or, _z, int_term, is_intlike, mk_exc
from .values import SBool, SFuture, SInt, SObj, SOpt, Sym

_ids = itertools.count(1)


class Slot:
    __slots__ = ("key", "value", "origin")

    def __init__(self, key, value, origin="entry"):
        self.key = key  # z3 Int term
        self.value = value
        self.origin = origin  # "entry": existed at function entry; "stored": written by the program


class SMap:
    def __init__(self, name, has, vtype, key_to_term=None, default_factory=None, card=None):
        self.name = name
        self.has = has
        self.vtype = vtype
        self.slots = []
        self.oid = next(_ids)
        self.default_factory = default_factory
        self.card = card
        self.base_has = has
        self.rest_touched = False
        self.entry_slots = []  # (key term, clone of the value at materialisation) for concretisation
        self.base_card = card

    def copy(self):
        c = SMap(self.name, self.has, self.vtype, None, self.default_factory, self.card)
        c.oid = self.oid
        c.base_has = self.base_has
        c.slots = [Slot(s.key, s.value, s.origin) for s in self.slots]
        c.entry_slots = self.entry_slots
        c.base_card = self.base_card
        c.keydom = getattr(self, "keydom", None)
        c.entry_inv = getattr(self, "entry_inv", None)
        return c


def key_term(I, key):
    if isinstance(key, SOpt):
        key = I.unwrap_opt(key, "dict key")
    if is_intlike(key):
        return int_term(key)
    from .values import Opaque, OpaqueSort

    if isinstance(key, (Opaque, str)):
        # string keys through an uninterpreted numbering of strings (not assumed injective: two names may
        # share a slot in some models, which only adds behaviours)
        from .interp import str_const

        t_ = key.t if isinstance(key, Opaque) else str_const(I.ctx, key)
        return z3.Function("strid", OpaqueSort, z3.IntSort())(t_)
    raise Unsupported(f"symbolic-map key of kind {type(key).__name__}")


def find_slot(I, m: SMap, kt, create=True):
    """Slot for key term kt: decides equality with each materialised key (forking)."""
    for s in m.slots:
        eq = z3.simplify(s.key == kt)
        if z3.is_true(eq):
            return s
        if z3.is_false(eq):
            continue
        if I.fmode:
            if I.ctx.prove(eq):
                return s
            if I.ctx.prove(z3.Not(eq)):
                continue
            # undetermined on this path: case split (both cases are explored as paths of their own, the
            # clause is checked in each)
            if I.ctx.branch(eq):
                return s
            continue
        if I.ctx.branch(eq):
            return s
    if I.fmode and I.in_old:
        # pre-state view: entries materialised later in the run existed at entry; their entry-time
        # values were recorded when they were first touched
        for kt0, v0 in m.entry_slots:
            eq = z3.simplify(kt0 == kt)
            if z3.is_true(eq) or (not z3.is_false(eq) and I.ctx.prove(eq)):
                return Slot(kt0, v0, "entry")
    if not create:
        return None
    if I.fmode:
        return None
    v = m.vtype.fresh(I, f"{m.name}[{len(m.slots)}]")
    s = Slot(kt, v, "entry")
    m.slots.append(s)
    from .snapshot import clone_graph

    m.entry_slots.append((kt, clone_graph({"v": v})["v"]))
    if m.card is not None:
        I.ctx.assume(z3.Implies(z3.Select(m.has, kt), m.card >= 1))
    if getattr(m, "keydom", None) is not None:
        lo, hi = m.keydom
        I.ctx.assume(z3.Implies(z3.Select(m.base_has, kt), z3.And(kt >= lo, kt <= hi)))
    if getattr(m, "entry_inv", None) is not None:
        I.ctx.assume(z3.Implies(z3.Select(m.base_has, kt), _z(m.entry_inv(I, kt, v))))
    return s


def contains(I, m, key):
    if key is None:
        return z3.BoolVal(False)
    return z3.Select(m.has, key_term(I, key))


def getitem(I, m: SMap, key):
    kt = key_term(I, key)
    present = z3.Select(m.has, kt)
    if I.fmode:
        return _fmode_value(I, m, kt)
    s = find_slot(I, m, kt)
    if not I.ctx.branch(present):
        if m.default_factory is not None:
            s.value = m.default_factory(I)
            s.origin = "stored"
            _set_has(m, kt, True)
            return s.value
        raise PyRaise(mk_exc(KeyError, key))
    return s.value


def _absent_is_empty(m, kt, val):
    """In a map with a default factory (collections.defaultdict(list)) a key that is absent reads as a new empty
    collection: the stored collection counts only while the key is present (a popped entry is not `map[k]` any more)."""
    if m.default_factory is None or not isinstance(val, SColl):
        return val
    has = z3.Select(m.has, kt)
    c = SColl(val.name, val.etype, [[_and([p, has]), v] for p, v in val.members],
              None if val.rest_nonempty is None else _and([val.rest_nonempty, has]))
    c.oid = val.oid
    c.entry_members = val.entry_members
    return c


def _fmode_value(I, m, kt):
    """Value stored under key term kt, as a term, without branching: the materialised slot whose key
    provably equals kt; otherwise an if-then-else over the slots kt may alias, ending in the (arbitrary)
    value of a key nobody touched."""
    s = find_slot(I, m, kt, create=False)
    if s is not None:
        return _absent_is_empty(m, kt, s.value)
    cands = []
    for s_ in m.slots:
        eq = z3.simplify(s_.key == kt)
        if z3.is_false(eq) or I.ctx.prove(z3.Not(eq)):
            continue
        cands.append((eq, s_.value))
    fresh = m.vtype.fresh(I, f"{m.name}[?{len(m.slots)}]")
    if I.in_old is False and not cands:
        ns = Slot(kt, fresh, "entry")
        m.slots.append(ns)
        from .snapshot import clone_graph

        m.entry_slots.append((kt, clone_graph({"v": fresh})["v"]))
        return fresh
    acc = fresh
    for eq, v in reversed(cands):
        acc = I.ite(eq, v, acc)
    return acc


def get(I, m: SMap, key, default=None):
    if key is None:
        return default  # None is never a key of an int-keyed map
    kt = key_term(I, key)
    present = z3.Select(m.has, kt)
    if I.fmode:
        v_ = _fmode_value(I, m, kt)
        return SOpt(present, v_) if default is None else I.ite(present, v_, default)
    s = find_slot(I, m, kt)
    if default is None:
        p = z3.simplify(present)
        if z3.is_true(p):
            return s.value
        if z3.is_false(p):
            return None
        return SOpt(present, s.value)
    if I.ctx.branch(present):
        return s.value
    return default


def _set_has(m, kt, val):
    if m.card is not None:
        was = z3.Select(m.has, kt)
        if val:
            m.card = z3.simplify(m.card + z3.If(was, 0, 1))
        else:
            m.card = z3.simplify(m.card - z3.If(was, 1, 0))
    m.has = z3.Store(m.has, kt, z3.BoolVal(val))


def setitem(I, m: SMap, key, value):
    kt = key_term(I, key)
    s = find_slot(I, m, kt)
    s.value = value
    s.origin = "stored"
    pr = getattr(m.vtype, "promise", None)
    if pr is not None and hasattr(value, "ghost") and "promise" not in value.ghost:
        value.ghost["promise"] = pr
    _set_has(m, kt, True)
    if I.frame_check_map is not None:
        I.frame_check_map(m)


def pop(I, m: SMap, key, default=None, has_default=False):
    if key is None:  # None is never a key of an int-keyed map
        if has_default:
            return default
        raise PyRaise(mk_exc(KeyError, key))
    kt = key_term(I, key)
    s = find_slot(I, m, kt)
    if not I.ctx.branch(z3.Select(m.has, kt)):
        if has_default:
            return default
        raise PyRaise(mk_exc(KeyError, key))
    v = s.value
    _set_has(m, kt, False)
    return v


def length(I, m: SMap):
    if m.card is None:
        raise Unsupported("len() of a symbolic map without a cardinality ghost")
    return SInt(m.card)


class View:
    def __init__(self, m, kind):
        self.m, self.kind = m, kind


def method(I, m: SMap, name, args, kwargs):
    if name == "get":
        return get(I, m, args[0], args[1] if len(args) > 1 else None)
    if name == "pop":
        return pop(I, m, args[0], args[1] if len(args) > 1 else None, len(args) > 1)
    if name in ("values", "items", "keys"):
        return View(m, name)
    if name == "setdefault":
        kt = key_term(I, args[0])
        s = find_slot(I, m, kt)
        if I.ctx.branch(z3.Select(m.has, kt)):
            return s.value
        setitem(I, m, args[0], args[1] if len(args) > 1 else None)
        return s.value
    raise Unsupported(f"symbolic map method {name}")


def unchanged_except(I, new: SMap, old: SMap, keys):
    """Formula: key presence is the same outside `keys`; every slot materialised in both whose key
    is outside `keys` holds the same value object."""
    x = z3.Int(I.ctx.fresh_name("mk"))
    kts = [key_term(I, k) for k in keys]
    fs = [z3.ForAll([x], z3.Or([x == k for k in kts] + [z3.Select(new.has, x) == z3.Select(old.has, x)]))]
    oldslots = {id(s.key): s for s in old.slots}
    for s in new.slots:
        o = None
        for os_ in old.slots:
            if z3.eq(os_.key, s.key):
                o = os_
                break
        if o is None:
            continue
        same = I.eq(s.value, o.value)
        fs.append(z3.Or([s.key == k for k in kts] + [z3.Not(z3.Select(old.has, s.key)), _z(same)]))
    return _and(fs)


# ---------------------------------------------------------------------------
# collections (lists / sets of objects with identity)
# ---------------------------------------------------------------------------
class SColl:
    """list/set whose members have identity (futures, callables): materialised members with a
    presence flag + an opaque rest of `rest_count` further members (never touched individually)."""

    def __init__(self, name, etype, members=None, rest_nonempty=None, ordered=True):
        self.name = name
        self.etype = etype
        self.members = members or []  # list of [present(z3 Bool / bool), value]
        self.rest_nonempty = rest_nonempty  # z3 Bool: the rest may hold further members
        self.oid = next(_ids)
        self.entry_members = []

    def copy(self):
        c = SColl(self.name, self.etype, [[p, v] for p, v in self.members], self.rest_nonempty)
        c.oid = self.oid
        c.entry_members = self.entry_members
        return c


def coll_method(I, c: SColl, name, args, kwargs):
    if name in ("append", "add"):
        (x,) = args
        pr = getattr(c.etype, "promise", None)
        if pr is not None and hasattr(x, "ghost") and "promise" not in x.ghost:
            x.ghost["promise"] = pr
        c.members.append([True, x])
        return None
    if name in ("remove", "discard"):
        (x,) = args
        for mem in c.members:
            same = I.identical(mem[1], x)
            if same is False:
                continue
            both = _and([_z(mem[0]) if not isinstance(mem[0], bool) else mem[0], same])
            hit = both if isinstance(both, bool) else I.ctx.branch(both)
            if hit:
                mem[0] = False
                return None
        # not among the materialised members.  A member of the opaque rest cannot be the argument
        # when the argument was created after function entry; entry-time objects may be.
        if getattr(x, "fresh_in_call", False):
            if name == "remove":
                raise PyRaise(mk_exc(ValueError, "list.remove(x): x not in list"))
            return None
        if c.rest_nonempty is not None and not z3.is_false(z3.simplify(c.rest_nonempty)):
            k = I.ctx.choose(2, "x in rest?")
            if k == 1:
                c_rest_removed = True  # an element of the rest is removed: rest stays opaque
                return None
        if name == "remove":
            raise PyRaise(mk_exc(ValueError, "list.remove(x): x not in list"))
        return None
    if name == "clear":
        for mem in c.members:
            mem[0] = False
        c.rest_nonempty = z3.BoolVal(False)
        return None
    if name == "copy":
        return c.copy()
    raise Unsupported(f"collection method {name}")


def coll_contains(I, c: SColl, x):
    fs = []
    for p, v in c.members:
        same = I.identical(v, x)
        if same is False:
            continue
        fs.append(_and([p if isinstance(p, bool) else p, same]))
    return _or(fs)


# ---------------------------------------------------------------------------
# lists with an unknown prefix: the value a list has at a loop head after any number of earlier iterations
# ---------------------------------------------------------------------------
class SList:
    """list = an unknown prefix (opaque constant `base`; nothing is known about its length or elements) followed by
    the concrete spine `tail` of the elements appended since.  Supports append / extend / + / == ; anything that
    would need the prefix (len, iteration, indexing, membership) is outside reach."""

    def __init__(self, name, base, tail=None):
        self.name, self.base, self.tail = name, base, list(tail or [])
        self.oid = next(_ids)

    def copy(self):
        c = SList(self.name, self.base, list(self.tail))
        c.oid = self.oid
        return c


def slist_method(I, l: SList, name, args, kwargs):
    if name == "append":
        l.tail.append(args[0])
        return None
    if name == "extend":
        l.tail.extend(I.iterate_concrete(args[0]))
        return None
    if name == "copy":
        return SList(l.name, l.base, list(l.tail))
    if name in ("insert", "remove", "sort", "reverse", "clear", "pop"):
        # anything that touches the unknown prefix: afterwards nothing is known about the list at all
        from .values import OpaqueSort

        l.base = I.ctx.fresh_const(l.name + ".prefix'", OpaqueSort)
        l.tail = []
        if name == "pop":
            raise Unsupported("value popped from a list with an unknown prefix")
        return None
    raise Unsupported(f"method {name} of a list with an unknown prefix")


def slist_eq(I, a, b):
    if not (isinstance(a, SList) and isinstance(b, SList)):
        return False  # a list with an unknown prefix is not known to equal any concrete list
    if not z3.eq(a.base, b.base) or len(a.tail) != len(b.tail):
        return False
    return _and([_z(I.eq(x, y)) for x, y in zip(a.tail, b.tail)])


# ---------------------------------------------------------------------------
# sets of integers (e.g. free table indices): membership array + cardinality ghost
# ---------------------------------------------------------------------------
class SSet:
    """set of ints: `has` Array(Int -> Bool), `card` = number of members (ghost, >= 0).  pop() returns an
    arbitrary member (CPython's choice is unspecified for the program), raising KeyError when empty."""

    def __init__(self, name, has, card):
        self.name, self.has, self.card = name, has, card
        self.oid = next(_ids)
        self.touched = []  # key terms the program looked at (for concretisation)
        self.base_has, self.base_card = has, card

    def copy(self):
        c = SSet(self.name, self.has, self.card)
        c.oid = self.oid
        c.touched = self.touched
        c.base_has, c.base_card = self.base_has, self.base_card
        return c


def sset_contains(I, s, item):
    kt = key_term(I, item)
    s.touched.append(kt)
    return z3.Select(s.has, kt)


def sset_method(I, s: SSet, name, args, kwargs):
    c = I.ctx
    if name == "add":
        kt = key_term(I, args[0])
        s.touched.append(kt)
        was = z3.Select(s.has, kt)
        s.card = z3.simplify(s.card + z3.If(was, 0, 1))
        s.has = z3.Store(s.has, kt, z3.BoolVal(True))
        return None
    if name in ("discard", "remove"):
        kt = key_term(I, args[0])
        s.touched.append(kt)
        was = z3.Select(s.has, kt)
        if name == "remove" and not c.branch(was):
            raise PyRaise(mk_exc(KeyError, args[0]))
        s.card = z3.simplify(s.card - z3.If(was, 1, 0))
        s.has = z3.Store(s.has, kt, z3.BoolVal(False))
        return None
    if name == "pop":
        if not c.branch(s.card > 0):
            c.assume(s.card == 0)
            raise PyRaise(mk_exc(KeyError, "pop from an empty set"))
        kt = c.fresh_int(f"{s.name}.popped")
        c.assume(z3.Select(s.has, kt))
        s.touched.append(kt)
        s.card = z3.simplify(s.card - 1)
        s.has = z3.Store(s.has, kt, z3.BoolVal(False))
        return SInt(kt)
    if name == "clear":
        s.has = z3.K(z3.IntSort(), z3.BoolVal(False))
        s.card = z3.IntVal(0)
        return None
    if name == "copy":
        return s.copy()
    raise Unsupported(f"set method {name}")


def sset_eq(I, a: SSet, b: SSet):
    x = z3.Int(I.ctx.fresh_name("sk"))
    return z3.And(z3.ForAll([x], z3.Select(a.has, x) == z3.Select(b.has, x)), a.card == b.card)
