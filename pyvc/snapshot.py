"""Pre-state snapshots for old(...) and frame checks."""
from __future__ import annotations

from .values import SBytes, SDict, SFuture, SObj, SOpt


def _copy_val(v):
    if isinstance(v, SBytes) and v.mutable:
        return SBytes(v.t, True)
    if isinstance(v, list):
        return list(v)
    if isinstance(v, dict):
        return dict(v)
    if isinstance(v, set):
        return set(v)
    if isinstance(v, SDict):
        c = SDict(v.has, v.cols, v.vtype, v.keydom)
        c.oid = v.oid
        return c
    if isinstance(v, SOpt):
        return SOpt(v.present, _copy_val(v.value))
    return v


def snapshot(roots):
    """oid -> copy of the fields of every SObj / SFuture reachable from roots."""
    view = {}
    seen = set()

    def walk(v, depth=0):
        if depth > 12:
            return
        if isinstance(v, SObj):
            if v.oid in seen:
                return
            seen.add(v.oid)
            view[v.oid] = {k: _copy_val(x) for k, x in v.fields.items()}
            for x in v.fields.values():
                walk(x, depth + 1)
        elif isinstance(v, SFuture):
            if v.oid in seen:
                return
            seen.add(v.oid)
            view[v.oid] = {"state": v.state, "result": v.result, "exc": v.exc, "callbacks": list(v.callbacks)}
            walk(v.result, depth + 1)
        elif isinstance(v, SOpt):
            walk(v.value, depth + 1)
        elif isinstance(v, (list, tuple, set, frozenset)):
            for x in v:
                walk(x, depth + 1)
        elif isinstance(v, dict):
            for x in v.values():
                walk(x, depth + 1)

    for r in roots:
        walk(r)
    return view
