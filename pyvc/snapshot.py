"""Pre-state snapshots for old(...) and frame checks."""
from __future__ import annotations

from .values import SBytes, SDict, SFuture, SObj, SOpt


def _copy_val(v):
    if isinstance(v, SBytes) and v.mutable:
        return SBytes(v.t, True)
    if isinstance(v, list):
        return list(v)
    if isinstance(v, dict):
        return dict(v)
    if isinstance(v, set):
        return set(v)
    if isinstance(v, SDict):
        c = SDict(v.has, v.cols, v.vtype, v.keydom)
        c.oid = v.oid
        return c
    if isinstance(v, SOpt):
        return SOpt(v.present, _copy_val(v.value))
    if type(v).__name__ in ("SMap", "SColl", "SSet", "SList"):
        return v.copy()
    return v


def snapshot(roots):
    """oid -> copy of the fields of every SObj / SFuture reachable from roots."""
    view = {}
    seen = set()

    def walk(v, depth=0):
        if depth > 12:
            return
        if isinstance(v, SObj):
            if v.oid in seen:
                return
            seen.add(v.oid)
            view[v.oid] = {k: _copy_val(x) for k, x in v.fields.items()}
            for x in v.fields.values():
                walk(x, depth + 1)
        elif isinstance(v, SFuture):
            if v.oid in seen:
                return
            seen.add(v.oid)
            view[v.oid] = {"state": v.state, "result": v.result, "exc": v.exc, "callbacks": list(v.callbacks)}
            walk(v.result, depth + 1)
        elif isinstance(v, SOpt):
            walk(v.value, depth + 1)
        elif type(v).__name__ == "SMap":
            for s_ in v.slots:
                walk(s_.value, depth + 1)
        elif type(v).__name__ == "SColl":
            for _p, x in v.members:
                walk(x, depth + 1)
        elif isinstance(v, (list, tuple, set, frozenset)):
            for x in v:
                walk(x, depth + 1)
        elif isinstance(v, dict):
            for x in v.values():
                walk(x, depth + 1)

    for r in roots:
        walk(r)
    return view


def clone_graph(bindings):
    """Structural copy of the entry state (sharing preserved) for later concretisation."""
    memo = {}

    def cl(v, depth=0):
        if depth > 14:
            return v
        if isinstance(v, SObj):
            if v.oid in memo:
                return memo[v.oid]
            c = SObj(v.cls, {}, frozen=v.frozen, tag=v.tag)
            c.oid = v.oid
            memo[v.oid] = c
            c.fields = {k: cl(x, depth + 1) for k, x in v.fields.items()}
            return c
        if isinstance(v, SFuture):
            if v.oid in memo:
                return memo[v.oid]
            c = SFuture(v.state, None, v.exc, dict(v.ghost))
            c.oid = v.oid
            memo[v.oid] = c
            c.result = cl(v.result, depth + 1)
            return c
        if isinstance(v, SOpt):
            return SOpt(v.present, cl(v.value, depth + 1))
        if isinstance(v, SBytes) and v.mutable:
            return SBytes(v.t, True)
        if isinstance(v, SDict):
            return _copy_val(v)
        if type(v).__name__ == "SMap":
            c = v.copy()
            for s_ in c.slots:
                s_.value = cl(s_.value, depth + 1)
            c.live = v
            return c
        if type(v).__name__ == "SColl":
            c = v.copy()
            c.members = [[p_, cl(x, depth + 1)] for p_, x in c.members]
            c.live = v
            return c
        if type(v).__name__ in ("SSet", "SList"):
            return v.copy()
        if isinstance(v, list):
            return [cl(x, depth + 1) for x in v]
        if isinstance(v, tuple):
            return tuple(cl(x, depth + 1) for x in v)
        if isinstance(v, dict):
            return {k: cl(x, depth + 1) for k, x in v.items()}
        return v

    return {k: cl(v) for k, v in bindings.items()}
