"""Spec functions and folds of the contract language (DESIGN 2.3).

A SpecFn is an uninterpreted function in proofs and a native python function in replays.
A Fold is the left fold of a step function written in the contract language; in proofs it is a
family of uninterpreted functions with unfolding axioms instantiated only where the loop rule or
a lemma asks for them (EUF + sequences, no recursion in the solver).
"""
from __future__ import annotations

import z3

from .ctx import Unsupported
from .interp import Env, _z, bytes_term, int_term, is_byteslike
from .values import ByteSeq, SBool, SBytes, SInt, Sym


def _sort_of(kind):
    return {"bytes": ByteSeq, "int": z3.IntSort(), "bool": z3.BoolSort()}[kind]


def _wrap(kind, t):
    return {"bytes": SBytes, "int": SInt, "bool": SBool}[kind](t)


def _term(kind, v):
    if kind == "bytes":
        return bytes_term(v)
    if kind == "int":
        return int_term(v)
    if kind == "bool":
        if isinstance(v, bool):
            return z3.BoolVal(v)
        return v.t
    raise Unsupported(kind)


def _has_sym(vs):
    return any(isinstance(v, Sym) for v in vs)


class SpecFn:
    """name(args) : uninterpreted in proofs, `native` in replays / on concrete arguments."""

    is_spec = True

    def __init__(self, name, arg_kinds, ret_kind, native, axioms=None):
        self.name, self.arg_kinds, self.ret_kind, self.native = name, arg_kinds, ret_kind, native
        self.fn = z3.Function(name, *[_sort_of(k) for k in arg_kinds], _sort_of(ret_kind))
        self.axioms = axioms  # callable(I, arg_terms, result_term) -> list of z3 facts, added at each use

    def apply(self, I, args):
        if not _has_sym(args):
            v = self.native(*args)
            if not I.native:
                # ground instance: the solver must know the function's value at concrete arguments
                ts = [_term(k, a) for k, a in zip(self.arg_kinds, args)]
                I.ctx.assume(self.fn(*ts) == _term(self.ret_kind, v))
            return v
        ts = [_term(k, a) for k, a in zip(self.arg_kinds, args)]
        r = self.fn(*ts)
        if self.axioms is not None and not I.fmode:
            for ax in self.axioms(I, ts, r):
                I.ctx.assume(ax)
        I.ctx.assumptions_used.add(f"spec:{self.name}")
        return _wrap(self.ret_kind, r)

    def facts(self, I, ts):
        r = self.fn(*ts)
        return self.axioms(I, ts, r) if self.axioms else []

    def __call__(self, *args):
        return self.native(*args)


class Fold:
    """Left fold over a byte sequence with state components `state` = [(name, kind, init)], and
    `step(state..., x) -> tuple of new components` written in the contract language."""

    is_spec = True

    def __init__(self, name, state, step):
        self.name, self.state, self.step = name, state, step
        self.fns = [z3.Function(f"{name}.{n}", ByteSeq, _sort_of(k)) for n, k, _ in state]

    # symbolic -----------------------------------------------------------
    def components(self, seq_term):
        return [_wrap(k, f(seq_term)) for (n, k, _), f in zip(self.state, self.fns)]

    def apply(self, I, args):
        (s,) = args
        if not isinstance(s, Sym):
            r = self.native(bytes(s))
            return r
        comps = self.components(bytes_term(s))
        return comps[0] if len(comps) == 1 else tuple(comps)

    def unfold_at(self, I, pre, x):
        """Axiom instances: F(empty) = init, and if x is given F(pre ++ [x]) = step(F(pre), x)."""
        from . import source

        out = []
        empty = z3.Empty(ByteSeq)
        for (n, k, init), f in zip(self.state, self.fns):
            out.append(f(empty) == _term(k, init))
        if x is not None:
            cur = self.components(pre)
            import ast as _ast

            node = source.lambda_ast(self.step)
            names = [a.arg for a in node.args.args]
            xv = SInt(z3.BV2Int(x, False)) if z3.is_bv(x) else SInt(x)
            env = Env(dict(zip(names, cur + [xv])), None, self.step.__globals__)
            prev = I.fmode
            I.fmode = True
            try:
                if isinstance(node, _ast.Lambda):
                    res = I.eval(node.body, env)
                else:
                    genv = Env({}, None, self.step.__globals__)
                    res = I.call_ast_function(node, None, genv, cur + [xv], {})
            finally:
                I.fmode = prev
            if not isinstance(res, tuple):
                res = (res,)
            xt = z3.Unit(x) if z3.is_bv(x) else z3.Unit(z3.Int2BV(x, 8))
            nxt = z3.Concat(pre, xt)
            for (n, k, _), f, r in zip(self.state, self.fns, res):
                out.append(f(nxt) == _term(k, r))
        return out

    # native ---------------------------------------------------------------
    def native(self, data):
        st = [init for _, _, init in self.state]
        for b in data:
            r = self.step(*st, b)
            st = list(r) if isinstance(r, tuple) else [r]
        return st[0] if len(st) == 1 else tuple(st)

    def __call__(self, data):
        return self.native(data)
