"""NCP command results generated from the live command tables (DESIGN 2.5).

The *shape* of what an EZSP command returns is not assumed: arity, order and field types come from
`COMMANDS[name]` of the protocol-version class under analysis, so a call site that unpacks the wrong
number of values, unpacks in an order that does not match the table's field types, or passes a
keyword the table does not know fails for exactly the versions where it is wrong.  The *values* are
unconstrained (any value of the field's type): the NCP's behaviour is an assumed contract.
"""
from __future__ import annotations

import enum

import z3

from .ctx import Unsupported
from .interp import PyRaise, UnpackableResult, mk_exc
from .values import ByteSeq, Opaque, OpaqueSort, SBytes, SEnum, SInt, SObj


def fresh_of_type(I, ty, label):
    """Fresh symbolic value of a zigpy/bellows wire type."""
    from .calls import STypedInt, _is_struct_cls
    from .contracts import EnumT

    if isinstance(ty, enum.EnumMeta):
        return EnumT(ty).fresh(I, label)
    if isinstance(ty, type) and issubclass(ty, bool):
        from .values import SBool

        return SBool(I.ctx.fresh_bool(label))
    if isinstance(ty, type) and issubclass(ty, int):
        bits = getattr(ty, "_bits", None)
        t = I.ctx.fresh_int(label)
        if bits is not None:
            signed = getattr(ty, "_signed", False)
            lo, hi = (-(1 << (bits - 1)), (1 << (bits - 1)) - 1) if signed else (0, (1 << bits) - 1)
            I.ctx.assume(z3.And(t >= lo, t <= hi))
        return STypedInt(t, ty)
    if _is_struct_cls(ty):
        fields = {}
        for f in ty.fields:
            fields[f.name] = fresh_of_type(I, f.type, f"{label}.{f.name}") if f.type is not None else None
        return SObj(ty, fields)
    if isinstance(ty, type) and issubclass(ty, (bytes,)):
        b = SBytes(I.ctx.fresh_const(label, ByteSeq))
        ln = getattr(ty, "_length", None)
        if isinstance(ln, int):
            I.ctx.assume(z3.Length(b.t) == ln)
        return b
    # EUI64, KeyData, lists, ...: opaque value of that wire type (equality only)
    return Opaque(I.ctx.fresh_const(label, OpaqueSort), getattr(ty, "__name__", "value"))


class NcpResult(UnpackableResult):
    """List of response values of one command call, shaped by the live rx schema."""

    def __init__(self, I, proto_cls, name, label=None):
        self.proto_cls, self.name = proto_cls, name
        cmd = proto_cls.COMMANDS.get(name)
        if cmd is None:
            raise PyRaise(mk_exc(AttributeError, f"{name} not found in COMMANDS"))
        _id, _tx, rx = cmd
        if not isinstance(rx, dict):
            raise Unsupported("struct-schema response")
        self.field_names = list(rx.keys())
        n = I.ctx.counter.get(("ncp", name), 0)
        I.ctx.counter[("ncp", name)] = n + 1
        lab = label or f"{name}#{n}"
        self.items = [fresh_of_type(I, ty, f"{lab}.{fname}") for fname, ty in rx.items()]

    def unpack(self, I, n):
        if n != len(self.items):
            raise PyRaise(mk_exc(ValueError, f"cannot unpack {len(self.items)} response values of {self.name} "
                                             f"({self.proto_cls.__name__}) into {n}"))
        return list(self.items)

    def item(self, I, idx):
        if isinstance(idx, int):
            try:
                return self.items[idx]
            except IndexError as e:
                raise PyRaise(e)
        raise Unsupported("symbolic index into an NCP response")

    def __len__(self):
        return len(self.items)

    def __iter__(self):
        return iter(self.items)


def response_of(I, proto_cls, name):
    cmd = proto_cls.COMMANDS.get(name)
    if cmd is None:
        raise PyRaise(mk_exc(AttributeError, f"{name} not found in COMMANDS"))
    rx = cmd[2]
    if isinstance(rx, dict):
        return NcpResult(I, proto_cls, name)
    return fresh_of_type(I, rx, f"{name}.rsp")


def check_request(I, proto_cls, name, args, kwargs):
    """TypeError / KeyError the real serializer would raise for a call that does not fit the tx schema
    (unknown keyword, missing parameter)."""
    cmd = proto_cls.COMMANDS.get(name)
    if cmd is None:
        raise PyRaise(mk_exc(AttributeError, f"{name} not found in COMMANDS"))
    tx = cmd[1]
    if not isinstance(tx, dict):
        return
    names = list(tx.keys())
    params = dict(zip(names, args))
    if len(args) > len(names):
        # zip() silently drops the surplus; nothing is raised by the real code
        pass
    for k, v in kwargs.items():
        params[k] = v
    for k in names:
        if k not in params:
            raise PyRaise(mk_exc(KeyError, k))
    return params
