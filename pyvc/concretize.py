"""Turns a z3 model into JSON-able concrete inputs for the native replay harness."""
from __future__ import annotations

import enum

import z3

from .values import ExtClass, Opaque, SBool, SBytes, SDict, SEnum, SFunc, SFuture, SInt, SObj, SOpt, SReal, Sym


def _ev(m, t):
    return m.eval(t, model_completion=True)


def conc(v, m, depth=0, seen=None):
    seen = seen if seen is not None else {}
    if depth > 10:
        return "<deep>"
    if isinstance(v, SBool):
        return bool(z3.is_true(_ev(m, v.t)))
    if isinstance(v, SEnum):
        return {"__enum__": f"{v.cls.__module__}.{v.cls.__qualname__}", "value": _ev(m, v.v).as_long()}
    if isinstance(v, SInt):
        r = {"__int__": _ev(m, v.t).as_long()}
        cls = getattr(v, "cls", None)
        if cls is not None:
            r["cls"] = f"{cls.__module__}.{cls.__qualname__}"
            return r
        return r["__int__"]
    if isinstance(v, SReal):
        x = _ev(m, v.t)
        try:
            fr = x.as_fraction()
            return {"__real__": [fr.numerator, fr.denominator]}
        except Exception:
            return {"__real__": [int(float(x.approx(10).as_decimal(10).rstrip("?")) * 10**6), 10**6]}
    if isinstance(v, SBytes):
        n = _ev(m, z3.Length(v.t)).as_long()
        bs = bytes(_ev(m, v.t[i]).as_long() for i in range(n))
        return {"__bytes__": bs.hex(), "mutable": v.mutable}
    if isinstance(v, SOpt):
        p = v.present if isinstance(v.present, bool) else z3.is_true(_ev(m, v.present))
        return conc(v.value, m, depth + 1, seen) if p else None
    if isinstance(v, SFuture):
        if v.oid in seen:
            return {"__ref__": seen[v.oid]}
        seen[v.oid] = f"fut{v.oid}"
        st = _ev(m, v.state).as_long()
        return {"__future__": st, "id": seen[v.oid], "name": v.ghost.get("name"),
                "result": conc(v.result, m, depth + 1, seen) if st == 1 else None}
    if isinstance(v, SObj):
        if v.oid in seen:
            return {"__ref__": seen[v.oid]}
        seen[v.oid] = f"obj{v.oid}"
        fields = {k: conc(x, m, depth + 1, seen) for k, x in v.fields.items()}
        if isinstance(v.cls, ExtClass):
            return {"__ext__": v.cls.__name__, "id": seen[v.oid], "fields": fields}
        return {"__obj__": f"{v.cls.__module__}.{v.cls.__qualname__}", "id": seen[v.oid], "fields": fields}
    if isinstance(v, Opaque):
        return {"__opaque__": str(_ev(m, v.t)), "kind": v.kind}
    if isinstance(v, SDict):
        from . import sdict

        return sdict.concretize(v, m, lambda x: conc(x, m, depth + 1, seen))
    if type(v).__name__ == "SMap":
        live = getattr(v, "live", v)
        items = []
        for kt, val in live.entry_slots:
            if z3.is_true(_ev(m, z3.Select(live.base_has, kt))):
                items.append([_ev(m, kt).as_long(), conc(val, m, depth + 1, seen)])
        if getattr(live, "order_hint", None) == "rest-first":
            items.reverse()
        return {"__dict__": items, "map": live.name}
    if type(v).__name__ == "SSet":
        live = v
        vals = set()
        for kt in live.touched:
            try:
                if z3.is_true(_ev(m, z3.Select(live.base_has, kt))):
                    vals.add(_ev(m, kt).as_long())
            except Exception:
                pass
        n = _ev(m, live.base_card).as_long()
        k = 0
        while len(vals) < n and k < 4096:  # fill up to the model's cardinality with members of the model's array
            if k not in vals and z3.is_true(_ev(m, z3.Select(live.base_has, z3.IntVal(k)))):
                vals.add(k)
            k += 1
        return {"__set__": sorted(vals)}
    if type(v).__name__ == "SColl":
        live = getattr(v, "live", v)
        out = []
        for p, x in v.members:
            pv = p if isinstance(p, bool) else z3.is_true(_ev(m, p))
            if pv:
                out.append(conc(x, m, depth + 1, seen))
        for x in live.entry_members:
            out.append(conc(x, m, depth + 1, seen))
        if getattr(live, "order_hint", None) == "rest-first":
            out.reverse()
        return out
    if isinstance(v, Sym):
        return f"<{type(v).__name__}>"
    if isinstance(v, enum.Enum):
        return {"__enum__": f"{type(v).__module__}.{type(v).__qualname__}", "value": v.value if isinstance(v.value, int) else v.name}
    if isinstance(v, (bytes, bytearray)):
        return {"__bytes__": bytes(v).hex(), "mutable": isinstance(v, bytearray)}
    if isinstance(v, tuple):
        return {"__tuple__": [conc(x, m, depth + 1, seen) for x in v]}
    if isinstance(v, list):
        return [conc(x, m, depth + 1, seen) for x in v]
    if isinstance(v, dict):
        return {"__dict__": [[conc(k, m, depth + 1, seen), conc(x, m, depth + 1, seen)] for k, x in v.items()]}
    if isinstance(v, (int, float, str, bool)) or v is None:
        return v
    if isinstance(v, type):
        return {"__class__": f"{v.__module__}.{v.__qualname__}"}
    if isinstance(v, SFunc):
        return "<closure>"
    return {"__native__": repr(v)[:200]}


def concretize_bindings(bindings, m):
    if m is None:
        return {}
    seen = {}
    return {k: conc(v, m, 0, seen) for k, v in bindings.items()}
