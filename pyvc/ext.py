"""Helpers to declare external collaborators (assumed contracts)."""
from .calls import ExtMethod
from .replay import register_ext
from .values import ExtClass


def effect(**kw):
    return lambda name: ExtMethod(name, effect=True, **kw)


def field(fname):
    return lambda name: ExtMethod(name, returns_field=fname)


def ext_class(name, fields=None, dynamic=None, stable_fields=(), **methods):
    ms = {}
    for mname, mk in methods.items():
        ms[mname] = mk(mname) if callable(mk) and not isinstance(mk, ExtMethod) else mk
    e = ExtClass(name, ms, fields or {})
    e.dynamic = dynamic
    e.stable_fields = tuple(stable_fields)
    register_ext(e)
    return e
