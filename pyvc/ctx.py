"""Path context: path condition, decision oracle (path replay), fresh symbols, solver access,
effects list, obligations.

Path exploration is by re-execution: a path is identified by the list of decisions taken at
symbolic branch points.  `branch()` consults the prefix it was given, and when the prefix is
exhausted checks feasibility of both sides, takes the first feasible one and schedules the other.
"""
from __future__ import annotations

import os
import time

import z3


class Unsupported(Exception):
    """Construct outside the supported subset: the function is 'outside reach'."""


class Infeasible(Exception):
    """The current path condition became unsatisfiable."""


class PathEnd(Exception):
    """Terminate the current path normally (e.g. after an inductive step)."""


class EngineError(Exception):
    pass


Z3_TIMEOUT_MS = 10000
Z3_FIRST_MS = 2500


class Stats:
    def __init__(self):
        self.queries = 0
        self.solver_s = 0.0
        self.by_backend = {"z3": 0, "cvc5": 0, "syntactic": 0}


STATS = Stats()


FEAS_TIMEOUT_MS = 1000
SECOND_OPINION = os.environ.get("PYVC_SECOND_OPINION") == "1"


class FreshSolver:
    """Every query is a fresh, non-incremental z3 solver over the path condition: z3's incremental
    mode (push/pop, check-with-assumptions) is an order of magnitude slower on sequence queries."""

    def __init__(self):
        self.facts = []
        self.heavy = False
        self.inc = z3.Solver()

    @staticmethod
    def _is_heavy(f):
        t = f.sexpr()
        return "seq." in t or "forall" in t or "exists" in t or "(Seq " in t

    def add(self, f):
        self.facts.append(f)
        if not self.heavy:
            if self._is_heavy(f):
                self.heavy = True
            else:
                self.inc.add(f)

    def smt_of_last_query(self):
        """SMT-LIB text of the last query (path condition + the extras of that check), for a second solver"""
        s = z3.Solver()
        for f in self.facts:
            s.add(f)
        for f in getattr(self, "_last_extra", ()):
            s.add(f)
        return s.to_smt2()

    def check(self, *extra, timeout=None):
        self._last_extra = extra
        if not self.heavy and not any(self._is_heavy(f) for f in extra if not isinstance(f, bool)):
            self.inc.set("timeout", timeout or Z3_TIMEOUT_MS)
            self.inc.push()
            for f in extra:
                self.inc.add(f)
            r = self.inc.check()
            self.last = self.inc
            self._model = self.inc.model() if r == z3.sat else None
            self._smt = None
            if r == z3.unknown:
                self._smt = self.inc.to_smt2()
            self.inc.pop()
            return r
        s = z3.Solver()
        s.set("timeout", timeout or Z3_TIMEOUT_MS)
        for f in self.facts:
            s.add(f)
        for f in extra:
            s.add(f)
        self.last = s
        self._model = None
        self._smt = None
        return s.check()

    def model(self):
        return self._model if self._model is not None else self.last.model()

    def to_smt2(self):
        return self._smt if self._smt is not None else self.last.to_smt2()


def _check(solver, *assumptions, timeout=None):
    t0 = time.time()
    r = solver.check(*assumptions, timeout=timeout)
    if os.environ.get("PYVC_TRACE"):
        print(f"  query {r} {time.time()-t0:.2f}s facts={len(solver.facts)} extra={[str(a)[:80] for a in assumptions]}", file=__import__("sys").stderr)
    STATS.queries += 1
    STATS.solver_s += time.time() - t0
    return r


class Ctx:
    def __init__(self, prefix=(), worklist=None, timeout_ms=Z3_TIMEOUT_MS):
        self.prefix = list(prefix)
        self.decisions = []
        self.worklist = worklist if worklist is not None else []
        self.solver = FreshSolver()
        self.pc = []
        self.fx = []
        self.counter = {}
        self.ghost = {}
        self.assumptions_used = set()
        # auxiliary attributes (ClassSpec.aux_fields): {object id: {attribute: bounded?}}, and the unbounded ones this
        # path has read so far -- a refutation that follows such a read is tagged with them
        self.aux_fields_of = {}
        # outcomes of synchronous calls of external collaborators that may fail (ExtMethod.raises), in call order
        self.sync_outcomes = []
        self.aux_reads = set()
        self.dropped = set()
        self.obligations = []  # (name, verdict, info)
        self.notes = []
        self.entry_syms = {}
        self.await_log = []
        self.lazy_facts = []  # true facts that are expensive for the solver (quantified pointwise axioms)

    # ---- symbols -------------------------------------------------------
    def fresh_name(self, base):
        n = self.counter.get(base, 0)
        self.counter[base] = n + 1
        return f"{base}!{n}" if n else base

    def fresh_int(self, base):
        return z3.Int(self.fresh_name(base))

    def fresh_bool(self, base):
        return z3.Bool(self.fresh_name(base))

    def fresh_real(self, base):
        return z3.Real(self.fresh_name(base))

    def fresh_const(self, base, sort):
        return z3.Const(self.fresh_name(base), sort)

    # ---- path condition --------------------------------------------------
    def assume(self, f):
        if isinstance(f, bool):
            if not f:
                raise Infeasible()
            return
        f = z3.simplify(f)
        if z3.is_true(f):
            return
        if z3.is_false(f):
            raise Infeasible()
        self.pc.append(f)
        self.solver.add(f)

    def assume_lazy(self, f):
        """A fact that holds on this path but is only handed to the solver when an obligation is not
        proved without it (dropping hypotheses is sound for proving)."""
        self.lazy_facts.append(f)

    def is_feasible(self, *extra):
        r = _check(self.solver, *extra, timeout=FEAS_TIMEOUT_MS)
        return r != z3.unsat

    def prove(self, f):
        """True iff pc |= f is established (unsat of the negation).  unknown -> False."""
        if isinstance(f, bool):
            return f
        f = z3.simplify(f)
        if z3.is_true(f):
            return True
        r = _check(self.solver, z3.Not(f))
        return r == z3.unsat

    def branch(self, cond):
        """Decide a symbolic boolean.  Returns a python bool and extends the pc."""
        if isinstance(cond, bool):
            return cond
        cond = z3.simplify(cond)
        if z3.is_true(cond):
            return True
        if z3.is_false(cond):
            return False
        i = len(self.decisions)
        if i < len(self.prefix):
            d = self.prefix[i]
        else:
            can_t = _check(self.solver, cond, timeout=FEAS_TIMEOUT_MS) != z3.unsat
            can_f = _check(self.solver, z3.Not(cond), timeout=FEAS_TIMEOUT_MS) != z3.unsat
            if can_t and can_f:
                self.worklist.append(self.decisions + [False])
                d = True
            elif can_t:
                d = True
            elif can_f:
                d = False
            else:
                raise Infeasible()
        self.decisions.append(d)
        f = cond if d else z3.Not(cond)
        self.pc.append(f)
        self.solver.add(f)
        return d

    def choose(self, n, label=""):
        """Non-deterministic choice among n alternatives (each explored)."""
        if n <= 0:
            raise Infeasible()
        if n == 1:
            return 0
        i = len(self.decisions)
        if i < len(self.prefix):
            d = self.prefix[i]
        else:
            for k in range(n - 1, 0, -1):
                self.worklist.append(self.decisions + [k])
            d = 0
        self.decisions.append(d)
        return d

    def choose_feasible(self, conds, label=""):
        """Choose among alternatives guarded by z3 conditions; infeasible ones skipped."""
        i = len(self.decisions)
        if i < len(self.prefix):
            d = self.prefix[i]
        else:
            feas = []
            for k, c in enumerate(conds):
                if isinstance(c, bool):
                    if c:
                        feas.append(k)
                elif _check(self.solver, c, timeout=FEAS_TIMEOUT_MS) != z3.unsat:
                    feas.append(k)
            if not feas:
                raise Infeasible()
            for k in reversed(feas[1:]):
                self.worklist.append(self.decisions + [k])
            d = feas[0]
        self.decisions.append(d)
        c = conds[d]
        if not isinstance(c, bool):
            self.pc.append(c)
            self.solver.add(c)
        return d

    # ---- obligations -----------------------------------------------------
    def check_obligation(self, name, f, extra_hyp=(), info=None):
        """Check pc |= f.  Records (name, verdict, model|None)."""
        if isinstance(f, bool):
            f = z3.BoolVal(f)
        f = z3.simplify(f)
        if z3.is_true(f):
            STATS.by_backend["syntactic"] += 1
            self.obligations.append((name, "proved", {"backend": "syntactic", **(info or {})}))
            return "proved"
        try:
            t0 = time.time()
            canary = name.endswith("::__canary__")
            # z3 first with a short budget: its sequence solver either answers at once or wanders (and is unstable
            # under load); cvc5 decides those queries in a fraction of a second, z3 gets its full budget only after
            r = _check(self.solver, *extra_hyp, z3.Not(f), timeout=FEAS_TIMEOUT_MS if canary else Z3_FIRST_MS)
            if r == z3.unknown and not canary:
                from . import backends

                v1, _out1, dt1 = backends.cvc5_check(self.solver.smt_of_last_query())
                if v1 == "unsat":
                    STATS.by_backend["cvc5"] += 1
                    self.obligations.append((name, "proved", {"backend": "cvc5", "t": time.time() - t0, **(info or {})}))
                    return "proved"
                r = _check(self.solver, *extra_hyp, z3.Not(f))
            if r != z3.unsat and self.lazy_facts and not canary:
                r = _check(self.solver, *extra_hyp, *self.lazy_facts, z3.Not(f))
            if name.endswith("::__canary__") and r == z3.unknown:
                # the planted false assertion is *not proved*: that is all the canary has to show
                self.obligations.append((name, "refuted", {"backend": "z3", "t": time.time() - t0, "model": None,
                                                           "goal": f}))
                return "refuted"
            dt = time.time() - t0
            if dt > 2.0 and os.environ.get("PYVC_DUMP"):
                with open(os.path.join(os.environ["PYVC_DUMP"], name.replace("/", "_").replace(":", "_") + ".smt2"), "w") as fh:
                    fh.write(self.solver.to_smt2())
            if r == z3.unsat and SECOND_OPINION and not name.endswith("::__canary__"):
                # thorough tier: the same query goes to cvc5; `sat` there is a disagreement (undecided, never a verdict)
                from . import backends

                v2, out2, dt2 = backends.cvc5_check(self.solver.smt_of_last_query())
                STATS.by_backend["cvc5:" + v2] = STATS.by_backend.get("cvc5:" + v2, 0) + 1
                if v2 == "sat":
                    self.obligations.append((name, "undecided", {"backend": "z3+cvc5", "t": dt + dt2,
                                                                 "reason": "solver disagreement: z3 unsat, cvc5 sat", **(info or {})}))
                    return "undecided"
                info = {**(info or {}), "second_opinion": v2, "backend2": "cvc5-agrees" if v2 == "unsat" else f"cvc5-{v2}"}
            if r == z3.unsat:
                STATS.by_backend["z3"] += 1
                extra_info = {}
                if len([1 for _n, _v, i_ in self.obligations if "goal_text" in i_]) < 2:
                    # a couple of discharged obligations are written out for the evidence file
                    extra_info["goal_text"] = str(f)[:500]
                    extra_info["hypotheses"] = len(self.pc)
                self.obligations.append((name, "proved", {"backend": "z3", "t": dt, **extra_info, **(info or {})}))
                return "proved"
            if r == z3.sat:
                m = self.solver.model()
                self.obligations.append(
                    (name, "refuted", {"backend": "z3", "t": dt, "model": m, "goal": f,
                                       **({"aux_reads": sorted(self.aux_reads)} if self.aux_reads else {}), **(info or {})})
                )
                return "refuted"
            # unknown: second opinion from cvc5 on the SMT-LIB text
            smt = self.solver.to_smt2()
        finally:
            pass
        from . import backends

        verdict, out, dt2 = backends.cvc5_check(smt)
        if verdict == "unsat":
            STATS.by_backend["cvc5"] += 1
            self.obligations.append((name, "proved", {"backend": "cvc5", "t": dt2, **(info or {})}))
            return "proved"
        self.obligations.append(
            (name, "undecided", {"backend": "z3+cvc5", "t": dt + dt2, "reason": out[:200], **(info or {})})
        )
        return "undecided"

    # ---- effects ----------------------------------------------------------
    def emit(self, *record):
        self.fx.append(tuple(record))
