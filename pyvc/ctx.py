"""Path context: path condition, decision oracle (path replay), fresh symbols, solver access,
effects list, obligations.

Path exploration is by re-execution: a path is identified by the list of decisions taken at
symbolic branch points.  `branch()` consults the prefix it was given, and when the prefix is
exhausted checks feasibility of both sides, takes the first feasible one and schedules the other.
"""
from __future__ import annotations

import time

import z3


class Unsupported(Exception):
    """Construct outside the supported subset: the function is 'outside reach'."""


class Infeasible(Exception):
    """The current path condition became unsatisfiable."""


class PathEnd(Exception):
    """Terminate the current path normally (e.g. after an inductive step)."""


class EngineError(Exception):
    pass


Z3_TIMEOUT_MS = 10000


class Stats:
    def __init__(self):
        self.queries = 0
        self.solver_s = 0.0
        self.by_backend = {"z3": 0, "cvc5": 0, "syntactic": 0}


STATS = Stats()


def _check(solver, *assumptions):
    t0 = time.time()
    r = solver.check(*assumptions)
    STATS.queries += 1
    STATS.solver_s += time.time() - t0
    return r


class Ctx:
    def __init__(self, prefix=(), worklist=None, timeout_ms=Z3_TIMEOUT_MS):
        self.prefix = list(prefix)
        self.decisions = []
        self.worklist = worklist if worklist is not None else []
        self.solver = z3.Solver()
        self.solver.set("timeout", timeout_ms)
        self.pc = []
        self.fx = []
        self.counter = {}
        self.ghost = {}
        self.assumptions_used = set()
        self.dropped = set()
        self.obligations = []  # (name, verdict, info)
        self.notes = []
        self.entry_syms = {}
        self.await_log = []

    # ---- symbols -------------------------------------------------------
    def fresh_name(self, base):
        n = self.counter.get(base, 0)
        self.counter[base] = n + 1
        return f"{base}!{n}" if n else base

    def fresh_int(self, base):
        return z3.Int(self.fresh_name(base))

    def fresh_bool(self, base):
        return z3.Bool(self.fresh_name(base))

    def fresh_real(self, base):
        return z3.Real(self.fresh_name(base))

    def fresh_const(self, base, sort):
        return z3.Const(self.fresh_name(base), sort)

    # ---- path condition --------------------------------------------------
    def assume(self, f):
        if isinstance(f, bool):
            if not f:
                raise Infeasible()
            return
        f = z3.simplify(f)
        if z3.is_true(f):
            return
        if z3.is_false(f):
            raise Infeasible()
        self.pc.append(f)
        self.solver.add(f)

    def is_feasible(self, *extra):
        r = _check(self.solver, *extra)
        return r != z3.unsat

    def prove(self, f):
        """True iff pc |= f is established (unsat of the negation).  unknown -> False."""
        if isinstance(f, bool):
            return f
        f = z3.simplify(f)
        if z3.is_true(f):
            return True
        r = _check(self.solver, z3.Not(f))
        return r == z3.unsat

    def branch(self, cond):
        """Decide a symbolic boolean.  Returns a python bool and extends the pc."""
        if isinstance(cond, bool):
            return cond
        cond = z3.simplify(cond)
        if z3.is_true(cond):
            return True
        if z3.is_false(cond):
            return False
        i = len(self.decisions)
        if i < len(self.prefix):
            d = self.prefix[i]
        else:
            can_t = _check(self.solver, cond) != z3.unsat
            can_f = _check(self.solver, z3.Not(cond)) != z3.unsat
            if can_t and can_f:
                self.worklist.append(self.decisions + [False])
                d = True
            elif can_t:
                d = True
            elif can_f:
                d = False
            else:
                raise Infeasible()
        self.decisions.append(d)
        f = cond if d else z3.Not(cond)
        self.pc.append(f)
        self.solver.add(f)
        return d

    def choose(self, n, label=""):
        """Non-deterministic choice among n alternatives (each explored)."""
        if n <= 0:
            raise Infeasible()
        if n == 1:
            return 0
        i = len(self.decisions)
        if i < len(self.prefix):
            d = self.prefix[i]
        else:
            for k in range(n - 1, 0, -1):
                self.worklist.append(self.decisions + [k])
            d = 0
        self.decisions.append(d)
        return d

    def choose_feasible(self, conds, label=""):
        """Choose among alternatives guarded by z3 conditions; infeasible ones skipped."""
        i = len(self.decisions)
        if i < len(self.prefix):
            d = self.prefix[i]
        else:
            feas = []
            for k, c in enumerate(conds):
                if isinstance(c, bool):
                    if c:
                        feas.append(k)
                elif _check(self.solver, c) != z3.unsat:
                    feas.append(k)
            if not feas:
                raise Infeasible()
            for k in reversed(feas[1:]):
                self.worklist.append(self.decisions + [k])
            d = feas[0]
        self.decisions.append(d)
        c = conds[d]
        if not isinstance(c, bool):
            self.pc.append(c)
            self.solver.add(c)
        return d

    # ---- obligations -----------------------------------------------------
    def check_obligation(self, name, f, extra_hyp=(), info=None):
        """Check pc |= f.  Records (name, verdict, model|None)."""
        if isinstance(f, bool):
            f = z3.BoolVal(f)
        f = z3.simplify(f)
        if z3.is_true(f):
            STATS.by_backend["syntactic"] += 1
            self.obligations.append((name, "proved", {"backend": "syntactic", **(info or {})}))
            return "proved"
        self.solver.push()
        try:
            for h in extra_hyp:
                self.solver.add(h)
            self.solver.add(z3.Not(f))
            t0 = time.time()
            r = _check(self.solver)
            dt = time.time() - t0
            if r == z3.unsat:
                STATS.by_backend["z3"] += 1
                self.obligations.append((name, "proved", {"backend": "z3", "t": dt, **(info or {})}))
                return "proved"
            if r == z3.sat:
                m = self.solver.model()
                self.obligations.append(
                    (name, "refuted", {"backend": "z3", "t": dt, "model": m, "goal": f, **(info or {})})
                )
                return "refuted"
            # unknown: second opinion from cvc5 on the SMT-LIB text
            smt = self.solver.to_smt2()
        finally:
            self.solver.pop()
        from . import backends

        verdict, out, dt2 = backends.cvc5_check(smt)
        if verdict == "unsat":
            STATS.by_backend["cvc5"] += 1
            self.obligations.append((name, "proved", {"backend": "cvc5", "t": dt2, **(info or {})}))
            return "proved"
        self.obligations.append(
            (name, "undecided", {"backend": "z3+cvc5", "t": dt + dt2, "reason": out[:200], **(info or {})})
        )
        return "undecided"

    # ---- effects ----------------------------------------------------------
    def emit(self, *record):
        self.fx.append(tuple(record))
