"""Use of a callee's contract at a call site: assert pre, havoc frame, assume post (DESIGN 2.4).
The caller never sees the callee's body."""
from __future__ import annotations

import inspect

import z3

from .contracts import eval_clause
from .ctx import Unsupported
from .interp import PyRaise, _z, mk_exc
from .snapshot import snapshot
from .values import SObj


def bind_params(f, args, kwargs, bound_self):
    sig = inspect.signature(f)
    a = ([bound_self] if bound_self is not None else []) + list(args)
    try:
        ba = sig.bind(*a, **kwargs)
    except TypeError as e:
        raise PyRaise(mk_exc(TypeError, str(e)))
    ba.apply_defaults()
    return dict(ba.arguments)


def short(qualname):
    return ".".join(qualname.split(".")[-2:])


def announce_call(I, con, args, kwargs):
    """records that the call was made (before anything the callee does, before any suspension in it)"""
    _observe(I, "call:" + (con.effect_name or con.qualname), tuple(args))
    _call_asserts(I, con.effect_name or con.qualname, args, kwargs)
    I.ctx.emit("call", con.effect_name or con.qualname, tuple(args), dict(kwargs))


def _call_asserts(I, name, args, kwargs):
    ctl = getattr(I, "await_ctl", None)
    if ctl is None:
        return
    for ename, cid, lam in getattr(ctl.con, "effect_asserts", []):
        if ename != name:
            continue
        b = dict(ctl.bindings)
        b["fx"] = list(I.ctx.fx)
        b["eargs"] = tuple(args)
        b["ekwargs"] = dict(kwargs)
        env_ = getattr(I, "_await_env", None)
        names = _params(lam)
        I.ctx.check_obligation(f"{ctl.con.qualname}::at[{name}].{cid}",
                               eval_clause(I, lam, {n: b[n] for n in names if n in b}, old_view=I.entry_old_view))


def apply_contract(I, con, f, args, kwargs, bound_self, caller=None, announced=False):
    ctx = I.ctx
    caller = caller or I.current_target or "?"
    bindings = bind_params(f, args, kwargs, bound_self)
    for name, lam in con.lets:
        bindings[name] = _eval_value(I, lam, bindings)
    ctx.assumptions_used.add(f"contract:{con.qualname}")
    if not announced:
        announce_call(I, con, args, kwargs)
    for cid, lam in con.requires_:
        fm = eval_clause(I, lam, bindings)
        ctx.check_obligation(f"{caller}::call[{short(con.qualname)}].{cid}", fm)
        ctx.assume(fm)
    old_view = snapshot(list(bindings.values()))
    if getattr(con, "pre_call", None) is not None:
        con.pre_call(I, bindings)
    # exceptional outcomes
    for r in con.raises_:
        if r.when is not None:
            c = eval_clause(I, r.when, bindings, old_view=old_view)
            hit = c if isinstance(c, bool) else ctx.branch(c)
        else:
            hit = ctx.choose(2, f"raise {r.exc_cls.__name__}?") == 1
        if hit:
            exc = SObj(r.exc_cls, {"args": ()})
            if r.fields:
                for k, lam in r.fields.items():
                    exc.fields[k] = _eval_value(I, lam, bindings)
            ctx.emit("raise@" + con.qualname, exc)
            raise PyRaise(exc)
    # normal outcome
    self_obj = bindings.get("self")
    if con.self_spec is not None and isinstance(self_obj, SObj):
        spec = con.self_spec
        inv_before = [_z(f) for _i, f in spec.invariant_formulas(I, self_obj)] if con.check_inv else []
        fields = list(spec.fields.keys()) if con.modifies_ is None else [
            p.split(".", 1)[1] for p in con.modifies_ if p.startswith("self.")
        ]
        from .engine import _is_async

        _ = _is_async
        for fld in fields:
            deep = fld.endswith(".*")
            if deep:
                fld = fld[:-2]
            if "." in fld:
                raise Unsupported(f"nested frame path {fld}")
            ty = spec.fields.get(fld)
            if ty is None:
                raise Unsupported(f"{con.qualname}: frame names unknown field {fld}")
            new = ty.fresh(I, f"{short(con.qualname)}.{fld}'")
            cur = self_obj.fields.get(fld)
            if deep and type(cur).__name__ in ("SMap", "SColl"):
                # `self.x.*`: the objects stored in the container may change state (futures may be
                # completed); keys / membership and the identity of the stored objects do not -- that
                # is what the callee's own frame check (frame.x.keys) establishes
                from .asyncrule import evolve_future
                from .values import SFuture

                vals = [s_.value for s_ in cur.slots] if type(cur).__name__ == "SMap" else [v for _p, v in cur.members]
                for v in vals:
                    if isinstance(v, SFuture):
                        evolve_future(I, v)
                cur.rest_touched = True
            else:
                self_obj.fields[fld] = new
        if con.check_inv and inv_before:
            # the callee preserves the class invariant *if it held at entry* (that is what its own
            # verification shows); nothing is assumed when the caller calls it mid-update
            inv_after = [_z(f) for _i, f in spec.invariant_formulas(I, self_obj)]
            ctx.assume(z3.Implies(z3.And(inv_before), z3.And(inv_after)))
    if getattr(con, "post_call", None) is not None:
        con.post_call(I, bindings)
    result = None
    if getattr(con, "returns_fn", None) is not None:
        result = con.returns_fn(I, bindings)
    elif con.returns_ is not None:
        result = con.returns_.fresh(I, f"{short(con.qualname)}.result")
    ctx.emit(con.effect_name or con.qualname, self_obj, tuple(args), dict(kwargs))
    ctx.emit("ret", con.effect_name or con.qualname, result)
    b2 = dict(bindings)
    b2["result"] = result
    b2["raised"] = None
    for cid, lam, on in con.ensures_:
        if on not in ("return", "any") or cid in con.proof_only:
            continue
        if _mentions(lam, "fx"):
            continue
        if any(n not in b2 and n != "old" for n in _params(lam)):
            continue  # clause over a ghost parameter of the callee's own proof
        ctx.assume(_z(eval_clause(I, lam, b2, old_view=old_view)))
    return result


def _observe(I, where, args=()):
    ctl = getattr(I, "await_ctl", None)
    if ctl is None or ctl.con.observe_ is None:
        return
    lam = ctl.con.observe_
    b = {n: v for n, v in ctl.bindings.items()}
    names = _params(lam)
    d = _eval_value(I, lam, {n: b[n] for n in names if n in b})
    I.ctx.emit("observe", where, d, args)


def _params(lam):
    code = lam.__code__
    return code.co_varnames[: code.co_argcount + code.co_kwonlyargcount]


def _mentions(lam, name):
    code = lam.__code__
    return name in code.co_varnames[: code.co_argcount + code.co_kwonlyargcount]


def _eval_value(I, lam, bindings):
    from . import source
    from .interp import Env

    node = source.lambda_ast(lam)
    names = [a.arg for a in node.args.args]
    env = Env({n: bindings[n] for n in names if n in bindings}, None, lam.__globals__)
    prev = I.fmode
    I.fmode = True
    try:
        return I.eval(node.body, env)
    finally:
        I.fmode = prev
