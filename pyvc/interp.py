"""Mixed concrete/symbolic interpreter of the Python AST (DESIGN 2.2-2.4, Appendix A).

Statements are executed with path splitting through Ctx.branch; exceptions of the interpreted
program are python-level `PyRaise` signals, so try/except/finally of the object program map
onto try/except/finally here.  The same evaluator runs contract lambdas, either in execution
mode (natively concrete replays) or in *formula mode* (`fmode`), where boolean structure is
turned into z3 terms instead of branching.
"""
from __future__ import annotations

import ast
import builtins
import dataclasses
import enum
import functools
import inspect
import types

import z3

from . import source
from .ctx import Ctx, EngineError, Infeasible, PathEnd, Unsupported
from .values import (
    BV8,
    BoundMethod,
    ByteSeq,
    ExtClass,
    Opaque,
    OpaqueSort,
    SBool,
    SBytes,
    SDict,
    SEnum,
    SFunc,
    SFuture,
    SInt,
    SObj,
    SOpt,
    SReal,
    Sym,
    enum_accepts_undefined,
    enum_is_int,
    enum_members,
    enum_range,
    enum_to_int,
)


# ---------------------------------------------------------------------------
# signals
# ---------------------------------------------------------------------------
class PyRaise(Exception):
    """An exception of the interpreted program."""

    def __init__(self, exc):
        super().__init__(repr(exc))
        self.exc = exc


class ReturnSig(Exception):
    def __init__(self, value):
        self.value = value


class BreakSig(Exception):
    pass


class ContinueSig(Exception):
    pass


class Env:
    __slots__ = ("vars", "parent", "globals", "cells")

    def __init__(self, vars=None, parent=None, globals=None):
        self.vars = vars if vars is not None else {}
        self.parent = parent
        self.globals = globals if globals is not None else (parent.globals if parent else {})

    def lookup(self, name):
        e = self
        while e is not None:
            if name in e.vars:
                return e.vars[name]
            e = e.parent
        if name in self.globals:
            return self.globals[name]
        raise KeyError(name)

    def assign(self, name, value):
        self.vars[name] = value


LOGGER_NAMES = {"_LOGGER", "LOGGER"}
UNROLL_SUSPENDING_LOOP = 8

_NOT_FOUND = object()


def mk_exc(cls, *args, **fields):
    o = SObj(cls, {"args": tuple(args), **fields})
    return o


def exc_class(e):
    if isinstance(e, SObj):
        return e.cls
    if isinstance(e, BaseException):
        return type(e)
    raise EngineError(f"not an exception value: {e!r}")


def is_exc_class(c):
    return isinstance(c, type) and issubclass(c, BaseException)


def bv2int(x):
    return z3.BV2Int(x, False)


def int_term(v):
    if isinstance(v, bool):
        return z3.IntVal(int(v))
    if isinstance(v, enum.Enum):
        return z3.IntVal(enum_to_int(v))
    if isinstance(v, int):
        return z3.IntVal(int(v))
    if isinstance(v, SInt):
        return v.t
    if isinstance(v, SBool):
        return z3.If(v.t, z3.IntVal(1), z3.IntVal(0))
    if isinstance(v, SEnum):
        return v.v
    raise Unsupported(f"int_term of {type(v).__name__}")


def is_intlike(v):
    if isinstance(v, (SInt, SBool)):
        return True
    if isinstance(v, SEnum):
        return enum_is_int(v.cls)
    if isinstance(v, bool):
        return True
    if isinstance(v, int):
        return True
    return False


def is_reallike(v):
    return isinstance(v, (SReal, float)) or is_intlike(v)


def real_term(v):
    if isinstance(v, SReal):
        return v.t
    if isinstance(v, float):
        from fractions import Fraction

        fr = Fraction(v).limit_denominator(10**9)
        return z3.RealVal(f"{fr.numerator}/{fr.denominator}")
    return z3.ToReal(int_term(v))


def bytes_term(v):
    if isinstance(v, SBytes):
        return v.t
    if isinstance(v, (bytes, bytearray)):
        if len(v) == 0:
            return z3.Empty(ByteSeq)
        units = [z3.Unit(z3.BitVecVal(b, 8)) for b in v]
        return units[0] if len(units) == 1 else z3.Concat(*units)
    raise Unsupported(f"bytes_term of {type(v).__name__}")


def is_byteslike(v):
    return isinstance(v, (SBytes, bytes, bytearray))


def byte_unit(ctx_or_none, v):
    """Int-like value in range(256) -> Seq unit."""
    if isinstance(v, SInt):
        return z3.Unit(z3.Int2BV(v.t, 8))
    return z3.Unit(z3.BitVecVal(int(v), 8))


class Interp:
    def __init__(self, ctx: Ctx, registry=None):
        self.ctx = ctx
        self.registry = registry
        self.fmode = False
        self.old_view = None  # snapshot used by old(...)
        self.in_old = False
        self.depth = 0
        self.builtins = make_builtins(self)
        self.call_hooks = []
        self.await_handler = None
        self.loop_handler = None
        self.current_target = None
        self.native = False  # concrete replay mode: no symbolic values expected
        self.yield_stack = []
        self.timeout_stack = []
        self.nonneg_terms = set()
        self._facts_cache = {}

    # ------------------------------------------------------------------
    # truthiness / formulas
    # ------------------------------------------------------------------
    def formula(self, v):
        """z3 Bool (or python bool) of the truth value of v, without branching."""
        if isinstance(v, bool):
            return v
        if isinstance(v, SBool):
            return v.t
        if isinstance(v, Opaque) and v.kind == "unknown":
            self._unk = getattr(self, "_unk", 0) + 1
            return z3.Bool(f"unknown_truth!{self._unk}")
        if isinstance(v, SInt):
            return v.t != 0
        if isinstance(v, SReal):
            return v.t != 0
        if isinstance(v, SEnum):
            if enum_is_int(v.cls):
                return v.v != 0
            return True
        if isinstance(v, SBytes):
            return z3.Length(v.t) > 0
        if isinstance(v, SOpt):
            inner = self.formula(v.value)
            if inner is True:
                return v.present
            return z3.And(v.present, inner)
        if isinstance(v, (SObj, SFuture, SFunc, BoundMethod)):
            return True
        if isinstance(v, SDict):
            raise Unsupported("truth of symbolic dict")
        if isinstance(v, _smap().SColl):
            # a list / set is true iff it has a member: one of the materialised members is present, or the opaque
            # rest is non-empty
            parts = [m[0] for m in v.members] + ([v.rest_nonempty] if v.rest_nonempty is not None else [])
            if any(p is True for p in parts):
                return True
            zs = [p for p in parts if not isinstance(p, bool)]
            return z3.Or(*zs) if zs else False
        if isinstance(v, _smap().SSet):
            return v.card > 0  # a set is true iff it has a member (pop() raises KeyError iff card == 0)
        if isinstance(v, _smap().SMap):
            raise Unsupported("truth of symbolic map")
        if type(v).__name__ in ("SList", "View"):
            raise Unsupported(f"truth of {type(v).__name__}")
        if v is None:
            return False
        if isinstance(v, Sym):
            raise Unsupported(f"truth of {type(v).__name__}")
        return bool(v)

    def truth(self, v):
        f = self.formula(v)
        if isinstance(f, bool):
            return f
        if self.fmode:
            raise Unsupported("branch on symbolic value in formula mode")
        return self.ctx.branch(f)

    def as_bool_value(self, f):
        return f if isinstance(f, bool) else SBool(f)

    # ------------------------------------------------------------------
    # equality
    # ------------------------------------------------------------------
    def eq(self, a, b):
        """Formula (z3 Bool or python bool) of a == b with Python semantics for the supported
        value kinds."""
        if a is b and not isinstance(a, float):
            return True
        if (isinstance(a, Opaque) and a.kind == "unknown") or (isinstance(b, Opaque) and b.kind == "unknown"):
            # a value about which nothing is known, not even its type (an undeclared attribute the class computes):
            # equal to anything or not -- both are explored
            if isinstance(a, Opaque) and isinstance(b, Opaque) and a.kind == b.kind:
                return a.t == b.t
            self._unk = getattr(self, "_unk", 0) + 1
            return z3.Bool(f"unknown_eq!{self._unk}")
        if isinstance(a, SOpt) or isinstance(b, SOpt):
            if isinstance(b, SOpt) and not isinstance(a, SOpt):
                a, b = b, a
            if b is None:
                return z3.Not(a.present) if not isinstance(a.present, bool) else (not a.present)
            if isinstance(b, SOpt):
                inner = self.eq(a.value, b.value)
                return z3.Or(
                    z3.And(z3.Not(a.present), z3.Not(b.present)),
                    z3.And(a.present, b.present, _z(inner)),
                )
            inner = self.eq(a.value, b)
            return z3.And(a.present, _z(inner))
        if a is None or b is None:
            return a is b
        if is_intlike(a) and is_intlike(b):
            if not isinstance(a, Sym) and not isinstance(b, Sym):
                return a == b
            return int_term(a) == int_term(b)
        if is_reallike(a) and is_reallike(b):
            if not isinstance(a, Sym) and not isinstance(b, Sym):
                return a == b
            return real_term(a) == real_term(b)
        if isinstance(a, SEnum) or isinstance(b, SEnum):
            # non-int enums: identity semantics
            if isinstance(b, SEnum) and not isinstance(a, SEnum):
                a, b = b, a
            if isinstance(b, SEnum):
                if a.cls is not b.cls:
                    return False
                return a.v == b.v
            if isinstance(b, enum.Enum):
                if type(b) is not a.cls:
                    return False
                return a.v == enum_to_int(b)
            return False
        if is_byteslike(a) and is_byteslike(b):
            if not isinstance(a, Sym) and not isinstance(b, Sym):
                return bytes(a) == bytes(b)
            return bytes_term(a) == bytes_term(b)
        if isinstance(a, dict) and isinstance(b, dict):
            if list(a.keys()) != list(b.keys()) and set(a.keys()) != set(b.keys()):
                return False
            return _and([self.eq(a[k], b[k]) for k in a])
        if isinstance(a, (tuple, list)) and isinstance(b, (tuple, list)):
            if type(a) is not type(b) and not (isinstance(a, tuple) == isinstance(b, tuple)):
                return False
            if len(a) != len(b):
                return False
            return _and([self.eq(x, y) for x, y in zip(a, b)])
        if isinstance(a, SObj) and isinstance(b, SObj):
            if a is b:
                return True
            if a.cls is not b.cls:
                return False
            if dataclasses.is_dataclass(a.cls) or getattr(a, "frozen", False) or is_exc_class(a.cls) or _is_struct(a.cls):
                keys = set(a.fields) | set(b.fields)
                return _and([self.eq(a.fields.get(k), b.fields.get(k)) for k in sorted(keys)])
            return False
        if isinstance(a, SFuture) or isinstance(b, SFuture):
            return a is b
        if isinstance(a, Opaque) and isinstance(b, Opaque):
            return a.t == b.t
        if isinstance(a, Opaque) and isinstance(b, str) or isinstance(b, Opaque) and isinstance(a, str):
            o, lit = (a, b) if isinstance(a, Opaque) else (b, a)
            return o.t == str_const(self.ctx, lit)
        if isinstance(a, Sym) or isinstance(b, Sym):
            # kinds differ (e.g. bytes vs int): python == is False
            ka, kb = _kind(a), _kind(b)
            if ka != kb:
                return False
            raise Unsupported(f"eq of {type(a).__name__} and {type(b).__name__}")
        if isinstance(a, SObj) or isinstance(b, SObj):
            # SObj vs concrete dataclass instance
            so, co = (a, b) if isinstance(a, SObj) else (b, a)
            if dataclasses.is_dataclass(co) and type(co) is so.cls:
                return _and([self.eq(so.fields.get(f.name), getattr(co, f.name)) for f in dataclasses.fields(co)])
            return False
        if isinstance(a, (SDict,)) or isinstance(b, (SDict,)):
            raise Unsupported("eq on symbolic dict")
        if isinstance(a, _smap().SMap) and isinstance(b, _smap().SMap):
            if a.oid != b.oid:
                return False
            return _smap().unchanged_except(self, a, b, [])
        if isinstance(a, _smap().SSet) and isinstance(b, _smap().SSet):
            return _smap().sset_eq(self, a, b)
        if isinstance(a, _smap().SList) or isinstance(b, _smap().SList):
            return _smap().slist_eq(self, a, b)
        if isinstance(a, _smap().SColl) and isinstance(b, _smap().SColl):
            if a.oid != b.oid:
                return False
            if len(a.members) != len(b.members):
                return False
            return _and([_and([_z(pa) == _z(pb), self.identical(va, vb)]) for (pa, va), (pb, vb) in zip(a.members, b.members)])
        try:
            return bool(a == b)
        except Exception as e:  # pragma: no cover
            raise Unsupported(f"native == failed: {e!r}")

    # ------------------------------------------------------------------
    # operators
    # ------------------------------------------------------------------
    def binop(self, op, a, b):
        if (isinstance(a, Opaque) and a.kind == "unknown") or (isinstance(b, Opaque) and b.kind == "unknown"):
            # arithmetic on a value nothing is known about (an undeclared attribute): nothing is known about the
            # result either (assumed not to raise -- listed)
            self.ctx.assumptions_used.add("record:arithmetic on an undeclared attribute of unknown type does not raise")
            return Opaque(self.ctx.fresh_const("unknown", OpaqueSort), "unknown")
        if not isinstance(a, Sym) and not isinstance(b, Sym) and not isinstance(a, SObj) and not isinstance(b, SObj) \
                and type(a).__name__ != "SList":
            return self._native_binop(op, a, b)
        # bytes
        if is_byteslike(a) and is_byteslike(b):
            if isinstance(op, ast.Add):
                mut = isinstance(a, bytearray) or (isinstance(a, SBytes) and a.mutable)
                return SBytes(z3.Concat(bytes_term(a), bytes_term(b)), mutable=mut)
            raise Unsupported(f"bytes op {type(op).__name__}")
        if isinstance(a, (tuple, list)) and isinstance(b, (tuple, list)) and isinstance(op, ast.Add):
            return a + b
        if isinstance(a, _smap().SList) and isinstance(b, list) and isinstance(op, ast.Add):
            return _smap().SList(a.name, a.base, a.tail + b)
        if isinstance(a, SOpt) or isinstance(b, SOpt):
            a = self.unwrap_opt(a, "operand")
            b = self.unwrap_opt(b, "operand")
            return self.binop(op, a, b)
        if isinstance(a, SEnum) and not enum_is_int(a.cls) or isinstance(b, SEnum) and not enum_is_int(b.cls):
            raise Unsupported("arithmetic on non-int enum")
        if isinstance(op, ast.BitOr) and (isinstance(a, SEnum) or isinstance(b, SEnum)):
            # flag enums: a |= FLAG keeps the class of the left operand
            cls = a.cls if isinstance(a, SEnum) else type(a) if isinstance(a, enum.Enum) else None
            r = self._int_binop(op, a, b)
            if cls is not None and issubclass(cls, enum.Flag) or cls is not None and _is_bitmap(cls):
                return SEnum(cls, int_term(r))
            return r
        if is_intlike(a) and is_intlike(b):
            return self._int_binop(op, a, b)
        if is_reallike(a) and is_reallike(b):
            return self._real_binop(op, a, b)
        raise Unsupported(f"binop {type(op).__name__} on {type(a).__name__},{type(b).__name__}")

    def _native_binop(self, op, a, b):
        try:
            return _NATIVE_BINOPS[type(op)](a, b)
        except (ArithmeticError, TypeError, ValueError) as e:
            raise PyRaise(e)

    def _int_width(self, *terms):
        """Smallest of 8/16/32/64/256 such that all terms are provably in [0, 2^w)."""
        for w in (8, 16, 32, 64, 256):
            ok = True
            for t in terms:
                b = _syntactic_bounds(t)
                if b is not None and 0 <= b[0] and b[1] < (1 << w):
                    continue
                if b is not None and (b[0] < 0 or b[1] >= (1 << 256)):
                    ok = False
                    break
                if self.ctx.prove(z3.And(t >= 0, t < (1 << w))):
                    continue
                ok = False
                break
            if ok:
                return w
        return None

    def _nonneg(self, t):
        b = _syntactic_bounds(t)
        if b is not None:
            return b[0] >= 0
        key = ("nonneg", t.get_id())
        if key not in self._facts_cache:
            self._facts_cache[key] = self.ctx.prove(t >= 0)
        return self._facts_cache[key]

    def _bitspan(self, t):
        """(lo, hi): t is a non-negative integer whose set bits all lie in [lo, hi); None if unknown."""
        t = z3.simplify(t)
        if z3.is_int_value(t):
            v = t.as_long()
            if v < 0:
                return None
            if v == 0:
                return (0, 0)
            lo = (v & -v).bit_length() - 1
            return (lo, v.bit_length())
        key = ("span", t.get_id())
        if key in self._facts_cache:
            return self._facts_cache[key]
        res = None
        shift = 0
        core = t
        if z3.is_app(t) and t.decl().kind() == z3.Z3_OP_ITE and z3.is_int_value(t.arg(1)) and z3.is_int_value(t.arg(2)):
            spans = [self._bitspan(t.arg(1)), self._bitspan(t.arg(2))]
            if None not in spans:
                nz = [sp for sp in spans if sp != (0, 0)]
                res = (min(sp[0] for sp in nz), max(sp[1] for sp in nz)) if nz else (0, 0)
                self._facts_cache[key] = res
                return res
        if z3.is_app(t) and t.decl().kind() == z3.Z3_OP_MUL and t.num_args() == 2 and z3.is_int_value(t.arg(0)):
            c = t.arg(0).as_long()
            if c > 0 and c & (c - 1) == 0:
                shift = c.bit_length() - 1
                core = t.arg(1)
        b = _syntactic_bounds(core)
        hi = None
        if b is not None and b[0] >= 0:
            hi = b[1].bit_length()
        else:
            for w in (1, 2, 3, 4, 8, 16):
                if self.ctx.prove(z3.And(core >= 0, core < (1 << w))):
                    hi = w
                    break
        if hi is not None:
            res = (shift, shift + hi)
        self._facts_cache[key] = res
        return res

    def _bitop_lia(self, op, ta, tb):
        """Linear-arithmetic lowering of bit operators where it is exact: x & contiguous-mask on a
        non-negative x, and | / ^ of operands with disjoint bit ranges (= their sum).  Keeps the VCs
        in LIA instead of mixing int2bv with div/mod."""
        if isinstance(op, ast.BitAnd):
            for x, m in ((ta, tb), (tb, ta)):
                if z3.is_int_value(m):
                    mv = m.as_long()
                    if mv == 0:
                        return z3.IntVal(0)
                    if mv > 0 and self._nonneg(x):
                        lo = (mv & -mv).bit_length() - 1
                        hi = mv.bit_length()
                        if mv == (1 << hi) - (1 << lo):  # contiguous run of ones
                            return z3.simplify(((x / (1 << lo)) % (1 << (hi - lo))) * (1 << lo))
            return None
        sa, sb = self._bitspan(ta), self._bitspan(tb)
        if sa is not None and sb is not None and (sa[1] <= sb[0] or sb[1] <= sa[0] or sa == (0, 0) or sb == (0, 0)):
            return z3.simplify(ta + tb)
        return None

    def _int_binop(self, op, a, b):
        ta, tb = int_term(a), int_term(b)
        if isinstance(op, ast.Add):
            return SInt(ta + tb)
        if isinstance(op, ast.Sub):
            return SInt(ta - tb)
        if isinstance(op, ast.Mult):
            return SInt(ta * tb)
        if isinstance(op, (ast.FloorDiv, ast.Mod)):
            if z3.is_int_value(tb):
                d = tb.as_long()
                if d == 0:
                    raise PyRaise(ZeroDivisionError("integer division or modulo by zero"))
                if d > 0:
                    return SInt(ta / tb) if isinstance(op, ast.FloorDiv) else SInt(ta % tb)
            if self.fmode:
                return SInt(ta / tb) if isinstance(op, ast.FloorDiv) else SInt(ta % tb)
            if self.ctx.branch(tb == 0):
                raise PyRaise(ZeroDivisionError("integer division or modulo by zero"))
            if self.ctx.prove(tb > 0):
                return SInt(ta / tb) if isinstance(op, ast.FloorDiv) else SInt(ta % tb)
            raise Unsupported("floor division / modulo by a possibly negative symbolic divisor")
        if isinstance(op, ast.Div):
            return self._real_binop(op, a, b)
        if isinstance(op, ast.LShift):
            if z3.is_int_value(tb):
                k = tb.as_long()
                if k < 0:
                    raise PyRaise(ValueError("negative shift count"))
                return SInt(ta * (1 << k))
            # a << n for a symbolic count with a proved small range: a * 2**n, 2**n as a case table
            if not self.fmode and not self._nonneg(tb) and self.ctx.branch(tb < 0):
                raise PyRaise(ValueError("negative shift count"))
            for top in (7, 15, 31, 63, 255):
                if self.ctx.prove(tb <= top):
                    p2 = z3.IntVal(1 << top)
                    for k in range(top - 1, -1, -1):
                        p2 = z3.If(tb == k, z3.IntVal(1 << k), p2)
                    if z3.is_int_value(ta) and ta.as_long() == 1:
                        # remember that this term is the single bit 2**n: x | it and x & it stay in integer arithmetic
                        if not hasattr(self, "_single_bits"):
                            self._single_bits = {}
                        self._single_bits[p2.get_id()] = (tb, top)
                        return SInt(p2)
                    return SInt(ta * p2)
            raise Unsupported("shift by symbolic amount without a proved bound")
        if isinstance(op, ast.RShift):
            if z3.is_int_value(tb):
                k = tb.as_long()
                if k < 0:
                    raise PyRaise(ValueError("negative shift count"))
                return SInt(ta / (1 << k))
            raise Unsupported("shift by symbolic amount")
        if isinstance(op, (ast.BitAnd, ast.BitOr, ast.BitXor)):
            if isinstance(a, SBool) and isinstance(b, SBool) or (
                isinstance(a, (SBool, bool)) and isinstance(b, (SBool, bool))
            ):
                fa, fb = self.formula(a), self.formula(b)
                if isinstance(op, ast.BitAnd):
                    return SBool(z3.And(_z(fa), _z(fb)))
                if isinstance(op, ast.BitOr):
                    return SBool(z3.Or(_z(fa), _z(fb)))
                return SBool(z3.Xor(_z(fa), _z(fb)))
            lowered = self._bitop_lia(op, ta, tb)
            if lowered is not None:
                return SInt(lowered)
            sb_ = getattr(self, "_single_bits", {})
            for x, bit in ((ta, tb), (tb, ta)):
                if bit.get_id() in sb_ and self._nonneg(x):
                    # x op 2**n for a symbolic n in 0..top: a case table over n of the constant-bit case, each in
                    # integer arithmetic: bit n of x is (x div 2**n) mod 2
                    n_, top = sb_[bit.get_id()]

                    def case(k):
                        has = (x / (1 << k)) % 2
                        if isinstance(op, ast.BitOr):
                            return x + (1 << k) * (1 - has)
                        if isinstance(op, ast.BitAnd):
                            return (1 << k) * has
                        return x + (1 << k) * (1 - 2 * has)

                    acc = case(top)
                    for k in range(top - 1, -1, -1):
                        acc = z3.If(n_ == k, case(k), acc)
                    return SInt(acc)
            w = self._int_width(ta, tb)
            if w is None:
                raise Unsupported("bitwise operator on an integer without a proved non-negative range")
            xa, xb = z3.Int2BV(ta, w), z3.Int2BV(tb, w)
            r = xa & xb if isinstance(op, ast.BitAnd) else xa | xb if isinstance(op, ast.BitOr) else xa ^ xb
            return SInt(bv2int(z3.simplify(r)))
        if isinstance(op, ast.Pow):
            if z3.is_int_value(ta) and z3.is_int_value(tb):
                return ta.as_long() ** tb.as_long()
            raise Unsupported("symbolic power")
        raise Unsupported(f"int op {type(op).__name__}")

    def _real_binop(self, op, a, b):
        ta, tb = real_term(a), real_term(b)
        if isinstance(op, ast.Add):
            return SReal(ta + tb)
        if isinstance(op, ast.Sub):
            return SReal(ta - tb)
        if isinstance(op, ast.Mult):
            return SReal(ta * tb)
        if isinstance(op, ast.Div):
            if z3.is_rational_value(tb) or z3.is_int_value(tb):
                if tb.as_fraction() == 0:
                    raise PyRaise(ZeroDivisionError("division by zero"))
                return SReal(ta / tb)
            if not self.fmode and self.ctx.branch(tb == 0):
                raise PyRaise(ZeroDivisionError("division by zero"))
            return SReal(ta / tb)
        raise Unsupported(f"real op {type(op).__name__}")

    def unaryop(self, op, v):
        if isinstance(op, ast.Not):
            f = self.formula(v)
            if isinstance(f, bool):
                return not f
            if self.fmode:
                return SBool(z3.Not(f))
            return not self.ctx.branch(f)
        if not isinstance(v, Sym):
            return {ast.USub: lambda x: -x, ast.UAdd: lambda x: +x, ast.Invert: lambda x: ~x}[type(op)](v)
        if isinstance(op, ast.USub):
            if isinstance(v, SReal):
                return SReal(-v.t)
            return SInt(-int_term(v))
        if isinstance(op, ast.UAdd):
            return v
        if isinstance(op, ast.Invert):
            return SInt(-int_term(v) - 1)
        raise Unsupported("unary op")

    def compare(self, op, a, b):
        """Returns python bool or SBool."""
        if isinstance(op, (ast.Eq, ast.NotEq)):
            f = self.eq(a, b)
            if isinstance(op, ast.NotEq):
                f = (not f) if isinstance(f, bool) else z3.Not(f)
            return self.as_bool_value(f)
        if isinstance(op, (ast.Is, ast.IsNot)):
            f = self.identical(a, b)
            if isinstance(op, ast.IsNot):
                f = (not f) if isinstance(f, bool) else z3.Not(f)
            return self.as_bool_value(f)
        if isinstance(op, (ast.In, ast.NotIn)):
            f = self.contains(b, a)
            if isinstance(op, ast.NotIn):
                f = (not f) if isinstance(f, bool) else z3.Not(f)
            return self.as_bool_value(f)
        # ordering
        if isinstance(a, SOpt) or isinstance(b, SOpt):
            a = self.unwrap_opt(a, "comparison")
            b = self.unwrap_opt(b, "comparison")
        if not isinstance(a, Sym) and not isinstance(b, Sym):
            try:
                return _NATIVE_CMPS[type(op)](a, b)
            except TypeError as e:
                raise PyRaise(e)
        if is_intlike(a) and is_intlike(b):
            ta, tb = int_term(a), int_term(b)
        elif is_reallike(a) and is_reallike(b):
            ta, tb = real_term(a), real_term(b)
        else:
            raise Unsupported(f"ordering of {type(a).__name__},{type(b).__name__}")
        if isinstance(op, ast.Lt):
            return SBool(ta < tb)
        if isinstance(op, ast.LtE):
            return SBool(ta <= tb)
        if isinstance(op, ast.Gt):
            return SBool(ta > tb)
        if isinstance(op, ast.GtE):
            return SBool(ta >= tb)
        raise Unsupported("compare op")

    def identical(self, a, b):
        if isinstance(a, SOpt) or isinstance(b, SOpt):
            if isinstance(b, SOpt) and not isinstance(a, SOpt):
                a, b = b, a
            if b is None:
                return z3.Not(a.present) if not isinstance(a.present, bool) else not a.present
            if isinstance(b, SOpt):
                return z3.Or(
                    z3.And(z3.Not(a.present), z3.Not(b.present)),
                    z3.And(a.present, b.present, _z(self.identical(a.value, b.value))),
                )
            return z3.And(a.present, _z(self.identical(a.value, b)))
        if isinstance(a, SEnum) or isinstance(b, SEnum):
            # identity of enum members: defined members are singletons; undefined pseudo-members of
            # zigpy enums are created per call and are never identical to a defined member.
            if isinstance(b, SEnum) and not isinstance(a, SEnum):
                a, b = b, a
            if isinstance(b, enum.Enum):
                if type(b) is not a.cls:
                    return False
                return a.v == enum_to_int(b)
            if isinstance(b, SEnum):
                if a.cls is not b.cls:
                    return False
                defined = z3.Or([a.v == enum_to_int(m) for m in enum_members(a.cls)])
                return z3.And(a.v == b.v, defined)
            return False
        if isinstance(a, SBool) or isinstance(b, SBool):
            if isinstance(a, (SBool, bool)) and isinstance(b, (SBool, bool)):
                return _z(self.formula(a)) == _z(self.formula(b))
            return False
        if isinstance(a, Sym) or isinstance(b, Sym):
            if a is None or b is None:
                return False
            if isinstance(a, SInt) and isinstance(b, (SInt, int)) or isinstance(b, SInt) and isinstance(a, int):
                raise Unsupported("`is` on symbolic ints")
            return a is b
        if isinstance(a, (SObj, SFuture)) and isinstance(b, (SObj, SFuture)):
            return a is b or (a.oid == b.oid)
        return a is b

    def contains(self, container, item):
        if isinstance(container, SOpt):
            container = self.unwrap_opt(container, "container")
        if isinstance(container, SDict):
            return z3.Select(container.has, self.dict_key_term(container, item))
        if isinstance(container, _smap().SMap):
            return _smap().contains(self, container, item)
        if isinstance(container, _smap().SColl):
            return _smap().coll_contains(self, container, item)
        if isinstance(container, _smap().SSet):
            return _smap().sset_contains(self, container, item)
        if isinstance(container, SBytes) or (isinstance(container, (bytes, bytearray)) and isinstance(item, Sym)):
            ct = bytes_term(container)
            if is_byteslike(item):
                return z3.Contains(ct, bytes_term(item))
            if is_intlike(item):
                it_ = int_term(item)
                in_range = z3.And(it_ >= 0, it_ <= 255)
                if self.fmode:
                    # (a clause is not an execution: outside the byte range the membership is simply false)
                    return z3.And(in_range, z3.Contains(ct, z3.Unit(z3.Int2BV(it_, 8))))
                if not self.ctx.branch(in_range):
                    raise PyRaise(mk_exc(ValueError, "byte must be in range(0, 256)"))
                return z3.Contains(ct, z3.Unit(z3.Int2BV(it_, 8)))
            raise Unsupported("in on bytes")
        if isinstance(container, (frozenset, set, tuple, list, dict, type(enum.Enum.__members__))) or isinstance(
            container, (range,)
        ):
            if not _has_sym(item) and not _has_sym(container):
                try:
                    return item in container
                except TypeError as e:
                    raise PyRaise(e)
            if isinstance(container, range) and isinstance(item, (SInt, SBool, SEnum)):
                t = int_term(item)
                if container.step == 1:
                    return z3.And(t >= container.start, t < container.stop)
                return _or([t == k for k in container])
            elems = list(container.keys()) if isinstance(container, dict) else list(container)
            return _or([self.eq(item, e) for e in elems])
        if isinstance(container, (SEnum, enum.Flag)) and isinstance(item, (enum.Flag, SEnum)):
            # flag containment: all bits of `item` are set in `container`
            both = self._int_binop(ast.BitAnd(), container, item)
            return self.eq(both, SInt(int_term(item)) if isinstance(item, SEnum) else int(item))
        if isinstance(container, enum.EnumMeta):
            # `x in SomeEnum` : membership by value
            if isinstance(item, SEnum) and item.cls is container:
                return _or([item.v == enum_to_int(m) for m in enum_members(container)])
            return item in container
        if isinstance(container, SObj) and isinstance(container.cls, ExtClass) and "__contains__" in container.cls.methods:
            return self.formula(container.cls.methods["__contains__"].apply(self, container, [item], {}))
        if not _has_sym(item):
            try:
                return item in container
            except TypeError as e:
                raise PyRaise(e)
        raise Unsupported(f"in on {type(container).__name__}")

    def dict_key_term(self, d, key):
        if isinstance(key, SOpt):
            key = self.unwrap_opt(key, "dict key")
        if is_intlike(key):
            return int_term(key)
        raise Unsupported(f"symbolic-dict key of kind {type(key).__name__}")

    def unwrap_opt(self, v, what="value"):
        """Use of an Optional where a value is needed: None raises (TypeError/AttributeError)."""
        if not isinstance(v, SOpt):
            return v
        if self.fmode:
            return v.value
        if isinstance(v.present, bool):
            ok = v.present
        else:
            ok = self.ctx.branch(v.present)
        if not ok:
            raise PyRaise(mk_exc(TypeError, f"NoneType used as {what}"))
        return v.value

    # ------------------------------------------------------------------
    # merging (ite over values)
    # ------------------------------------------------------------------
    def ite(self, cond, a, b):
        if isinstance(cond, bool):
            return a if cond else b
        if a is b:
            return a
        if isinstance(a, (SBool, bool)) and isinstance(b, (SBool, bool)):
            return SBool(z3.If(cond, _z(self.formula(a)), _z(self.formula(b))))
        if isinstance(a, SEnum) or isinstance(b, SEnum) or isinstance(a, enum.Enum) or isinstance(b, enum.Enum):
            ca = a.cls if isinstance(a, SEnum) else type(a)
            cb = b.cls if isinstance(b, SEnum) else type(b)
            if ca is cb and isinstance(ca, enum.EnumMeta):
                return SEnum(ca, z3.If(cond, int_term(a), int_term(b)))
        if is_intlike(a) and is_intlike(b) and not isinstance(a, (SEnum, enum.Enum)) and not isinstance(b, (SEnum, enum.Enum)):
            return SInt(z3.If(cond, int_term(a), int_term(b)))
        if is_reallike(a) and is_reallike(b) and not isinstance(a, (SEnum, enum.Enum)):
            return SReal(z3.If(cond, real_term(a), real_term(b)))
        if is_byteslike(a) and is_byteslike(b):
            return SBytes(z3.If(cond, bytes_term(a), bytes_term(b)))
        if isinstance(a, (tuple, list)) and type(a) is type(b) and len(a) == len(b):
            return type(a)(self.ite(cond, x, y) for x, y in zip(a, b))
        if a is None and b is None:
            return None
        if a is None or b is None:
            some = b if a is None else a
            pres = z3.Not(cond) if a is None else cond
            if isinstance(some, SOpt):
                return SOpt(z3.And(pres, some.present), some.value)
            return SOpt(pres, some)
        if isinstance(a, SOpt) and isinstance(b, SOpt):
            return SOpt(z3.If(cond, _z(a.present), _z(b.present)), self.ite(cond, a.value, b.value))
        if isinstance(a, Opaque) and isinstance(b, Opaque):
            return Opaque(z3.If(cond, a.t, b.t), a.kind)
        if isinstance(a, SObj) and isinstance(b, SObj) and a.cls is b.cls and (a.frozen and b.frozen):
            keys = set(a.fields) | set(b.fields)
            return SObj(a.cls, {k: self.ite(cond, a.fields.get(k), b.fields.get(k)) for k in keys}, frozen=True)
        f = self.eq(a, b) if not isinstance(a, (SObj, SFuture)) else False
        if f is True:
            return a
        raise Unsupported(f"cannot merge {type(a).__name__} with {type(b).__name__}")

    def merge_cases(self, cases, default=_NOT_FOUND):
        """cases: list of (formula, value) mutually exclusive; returns merged value.  Falls back to
        forking when values cannot be merged."""
        cases = [(c, v) for c, v in cases if c is not False]
        if not cases:
            if default is _NOT_FOUND:
                raise Infeasible()
            return default
        try:
            acc = cases[-1][1] if default is _NOT_FOUND else default
            rng = cases[:-1] if default is _NOT_FOUND else cases
            for c, v in reversed(rng):
                acc = self.ite(c, v, acc)
            return acc
        except Unsupported:
            if self.fmode:
                raise
            conds = [c for c, _ in cases]
            if default is not _NOT_FOUND:
                conds.append(z3.Not(_or(conds)) if conds else True)
            k = self.ctx.choose_feasible(conds)
            return cases[k][1] if k < len(cases) else default

    # ------------------------------------------------------------------
    # attribute access
    # ------------------------------------------------------------------
    def getattr(self, obj, name):
        if isinstance(obj, SOpt):
            if self.fmode or self.in_old:
                obj = obj.value
            else:
                ok = obj.present if isinstance(obj.present, bool) else self.ctx.branch(obj.present)
                if not ok:
                    raise PyRaise(mk_exc(AttributeError, f"'NoneType' object has no attribute '{name}'"))
                obj = obj.value
        if isinstance(obj, SObj):
            fields = obj.fields
            if self.in_old and self.old_view is not None and obj.oid in self.old_view:
                fields = self.old_view[obj.oid]
            if name in fields:
                aux = self.ctx.aux_fields_of.get(obj.oid)
                if aux and aux.get(name) is False and not self.fmode:
                    self.ctx.aux_reads.add(f"{getattr(obj.cls, '__name__', obj.cls)}.{name}")
                return fields[name]
            cls = obj.cls
            if isinstance(cls, ExtClass):
                if name == "__class__":
                    return cls
                m = cls.methods.get(name)
                if m is None and getattr(cls, "dynamic", None) is not None:
                    m = cls.dynamic(name)
                    if m is None:
                        raise PyRaise(mk_exc(AttributeError, name))
                if m is None:
                    raise Unsupported(f"external {cls.__name__}.{name} has no assumed contract")
                return BoundMethod(m, obj, f"{cls.__name__}.{name}", cls)
            if name == "__class__":
                return cls
            if name == "__dict__":
                return fields
            return self.class_attr(cls, name, obj)
        if isinstance(obj, SFuture):
            return self.future_attr(obj, name)
        if isinstance(obj, SEnum):
            if name == "value":
                return SInt(obj.v) if enum_is_int(obj.cls) else Unsupported
            if name == "name":
                return self.enum_name(obj)
            return self.class_attr(obj.cls, name, obj)
        if isinstance(obj, Opaque) and obj.kind != "str" and name == "serialize":
            # wire image of an opaque wire value (a key, an EUI64): an uninterpreted function of the value
            from .calls import Model

            img = SBytes(z3.Function("wire_image", OpaqueSort, ByteSeq)(obj.t))
            self.ctx.assumptions_used.add("external:<wire value>.serialize (uninterpreted function of the value)")
            return Model("wire.serialize", lambda I, a, k: img)
        if isinstance(obj, Opaque) and obj.kind == "str" and name in ("upper", "lower", "strip"):
            f = z3.Function(f"str_{name}", OpaqueSort, OpaqueSort)
            r = Opaque(f(obj.t), "str")
            from .calls import Model

            return Model(f"str.{name}", lambda I, a, k: r)
        if isinstance(obj, SBytes):
            return BoundMethod(("bytes", name), obj, f"bytes.{name}")
        if isinstance(obj, SInt):
            return BoundMethod(("int", name), obj, f"int.{name}")
        if isinstance(obj, SDict):
            return BoundMethod(("sdict", name), obj, f"dict.{name}")
        if isinstance(obj, _smap().SMap):
            return BoundMethod(("smap", name), obj, f"dict.{name}")
        if isinstance(obj, _smap().SList):
            return BoundMethod(("slist", name), obj, f"list.{name}")
        if isinstance(obj, _smap().SColl):
            return BoundMethod(("scoll", name), obj, f"list.{name}")
        if isinstance(obj, _smap().SSet):
            return BoundMethod(("sset", name), obj, f"set.{name}")
        if type(obj).__name__ == "SuperProxy":
            from .calls import ExtMethod

            base = ExtClass("super")
            m = ExtMethod(name, effect=True, is_async=name in getattr(self, "super_async", ()),
                          raises=[c for c in getattr(self, "super_raises", ())])
            return BoundMethod(m, SObj(base, {}, tag="super"), f"super.{name}", base)
        if isinstance(obj, SFunc):
            if name == "__name__":
                return obj.node.name
            raise Unsupported(f"attribute {name} of closure")
        if isinstance(obj, Sym):
            raise Unsupported(f"attribute {name} of {type(obj).__name__}")
        if type(obj).__name__ == "Model":
            from .calls import _MODEL_TYPES

            if obj.name in _MODEL_TYPES:
                return builtins.getattr(_MODEL_TYPES[obj.name], name)
        # concrete receiver
        if isinstance(obj, (list, dict, set, bytearray)) and not self.native:
            return BoundMethod(("native-mutable", name), obj, f"{type(obj).__name__}.{name}")
        try:
            v = builtins.getattr(obj, name)
        except AttributeError as e:
            raise PyRaise(e)
        return v

    def class_attr(self, cls, name, inst):
        """Attribute lookup through the live class (MRO, descriptors)."""
        for klass in cls.__mro__:
            if name in klass.__dict__:
                raw = klass.__dict__[name]
                break
        else:
            ga = None
            for klass in cls.__mro__:
                if "__getattr__" in klass.__dict__:
                    ga = klass.__dict__["__getattr__"]
                    break
            if ga is not None and inst is not None:
                return self.call(BoundMethod(ga, inst, f"{cls.__name__}.__getattr__", cls), [name], {})
            raise PyRaise(mk_exc(AttributeError, f"'{cls.__name__}' object has no attribute '{name}'"))
        if isinstance(raw, property):
            if inst is None:
                return raw
            return self.call(BoundMethod(raw.fget, inst, f"{klass.__name__}.{name}", klass), [], {})
        if isinstance(raw, staticmethod):
            return raw.__func__
        if isinstance(raw, classmethod):
            return BoundMethod(raw.__func__, cls, f"{klass.__name__}.{name}", klass)
        if isinstance(raw, functools.partialmethod):
            if inst is None:
                return raw
            f = raw.func
            return functools.partial(BoundMethod(f, inst, f"{klass.__name__}.{f.__name__}", klass), *raw.args, **(raw.keywords or {}))
        if isinstance(raw, types.FunctionType):
            if inst is None:
                return raw
            return BoundMethod(raw, inst, f"{klass.__module__}.{klass.__qualname__}.{raw.__name__}", klass)
        if isinstance(raw, types.MemberDescriptorType) or type(raw).__name__ in ("member_descriptor", "getset_descriptor"):
            raise PyRaise(mk_exc(AttributeError, name))
        return raw

    def enum_name(self, e):
        return Opaque(z3.Function(f"enum_name_{e.cls.__name__}", z3.IntSort(), OpaqueSort)(e.v), "str")

    def future_attr(self, fut, name):
        return BoundMethod(("future", name), fut, f"Future.{name}")

    def setattr(self, obj, name, value):
        if isinstance(obj, SOpt):
            obj = self.unwrap_opt(obj, "attribute target")
        if isinstance(obj, SObj):
            if obj.frozen and dataclasses.is_dataclass(obj.cls):
                raise PyRaise(mk_exc(dataclasses.FrozenInstanceError, f"cannot assign to field '{name}'"))
            if self.frame_check is not None:
                self.frame_check(obj, name)
            if self.write_hook is not None and obj is getattr(self, "self_obj", None):
                self.write_hook(obj, name, value)
            self._attach_promise(obj, name, value)
            obj.fields[name] = value
            return
        if isinstance(obj, Sym):
            raise Unsupported(f"setattr on {type(obj).__name__}")
        if self.native:
            builtins.setattr(obj, name, value)
            return
        raise Unsupported(f"setattr on concrete {type(obj).__name__} in symbolic mode")

    def _attach_promise(self, obj, name, value):
        """A future stored in a field whose declared type carries a completion promise takes it over."""
        spec = getattr(self, "self_spec", None)
        if spec is None or not isinstance(value, SFuture) or "promise" in value.ghost:
            return
        if obj is not getattr(self, "self_obj", None):
            return
        ty = spec.fields.get(name)
        inner = getattr(ty, "inner", ty)
        pr = getattr(inner, "promise", None)
        if pr is not None:
            value.ghost["promise"] = pr

    frame_check = None
    write_hook = None
    frame_check_map = None
    entry_old_view = None

    # ------------------------------------------------------------------
    # subscripts
    # ------------------------------------------------------------------
    def norm_index(self, idx, length):
        """Python index normalisation against `length` (z3 Int): returns z3 term."""
        t = int_term(idx)
        if z3.is_int_value(t):
            k = t.as_long()
            return z3.IntVal(k) if k >= 0 else length + k
        if t.get_id() in self.nonneg_terms:
            return t
        b = _syntactic_bounds(t)
        if b is not None and b[0] >= 0:
            return t
        return z3.If(t < 0, length + t, t)

    def slice_bounds(self, lo, hi, length):
        """Clamped (start, stop) for step-1 slices with Python semantics."""

        def clamp(v, default):
            if v is None:
                return default
            t = int_term(v)
            if z3.is_int_value(t):
                k = t.as_long()
                if k >= 0:
                    return z3.If(length < k, length, z3.IntVal(k))
                return z3.If(length + k < 0, z3.IntVal(0), length + k)
            n = z3.If(t < 0, length + t, t)
            return z3.If(n < 0, z3.IntVal(0), z3.If(n > length, length, n))

        start = clamp(lo, z3.IntVal(0))
        stop = clamp(hi, length)
        return start, stop

    def subscript(self, obj, idx):
        if isinstance(obj, SOpt):
            obj = self.unwrap_opt(obj, "subscripted value")
        if isinstance(obj, SBytes) or (is_byteslike(obj) and _has_sym(idx)):
            t = bytes_term(obj)
            n = z3.Length(t)
            if isinstance(idx, slice):
                if idx.step not in (None, 1):
                    raise Unsupported("slice step")
                mut = isinstance(obj, bytearray) or (isinstance(obj, SBytes) and obj.mutable)
                lo_, hi_ = idx.start, idx.stop
                if (lo_ is None or (isinstance(lo_, int) and lo_ >= 0)) and (hi_ is None or (isinstance(hi_, int) and hi_ >= 0)):
                    # concrete non-negative bounds: seq.extract clips at the end exactly like Python
                    a_ = lo_ or 0
                    return SBytes(mk_extract(t, a_, (n - a_) if hi_ is None else z3.IntVal(max(hi_ - a_, 0))), mutable=mut)
                start, stop = self.slice_bounds(idx.start, idx.stop, n)
                ln = z3.If(stop > start, stop - start, z3.IntVal(0))
                return SBytes(z3.simplify(z3.SubSeq(t, start, ln)), mutable=mut)
            i = self.norm_index(idx, n)
            ok = z3.And(i >= 0, i < n)
            if not self.fmode:
                if not self.ctx.branch(ok):
                    raise PyRaise(mk_exc(IndexError, "index out of range"))
            return SInt(bv2int(t[i]))
        if isinstance(obj, UnpackableResult):
            return obj.item(self, idx)
        if isinstance(obj, SObj) and isinstance(obj.cls, ExtClass):
            m = obj.cls.methods.get("__getitem__")
            if m is None:
                raise Unsupported(f"external {obj.cls.__name__} is not subscriptable")
            return m.apply(self, obj, [idx], {})
        if isinstance(obj, SDict):
            return self.sdict_get(obj, idx, raise_keyerror=True)
        if isinstance(obj, _smap().SMap):
            return _smap().getitem(self, obj, idx)
        if isinstance(obj, (tuple, list)) and isinstance(idx, Sym):
            if isinstance(idx, SOpt):
                idx = self.unwrap_opt(idx, "index")
            t = int_term(idx)
            n = len(obj)
            i = z3.If(t < 0, n + t, t)
            if not self.fmode and not self.ctx.branch(z3.And(i >= 0, i < n)):
                raise PyRaise(mk_exc(IndexError, "index out of range"))
            if n > 8 and all(isinstance(x, int) and not isinstance(x, bool) and 0 <= x < 256 for x in obj):
                return SInt(bv2int(z3.Int2BV(table_select(self.ctx, obj, i), 8)))
            return self.merge_cases([(i == k, obj[k]) for k in range(n)])
        if isinstance(obj, dict) and (isinstance(idx, (Sym, SObj)) or _has_sym(idx)):
            cases = [(self.eq(idx, k), v) for k, v in obj.items()]
            cases = [(c, v) for c, v in cases if c is not False]
            found = _or([c for c, _ in cases])
            if not self.fmode:
                if not self.ctx.branch(found) if not isinstance(found, bool) else not found:
                    raise PyRaise(mk_exc(KeyError, idx))
            for c, v in cases:
                if c is True:
                    return v
            return self.merge_cases([(_z(c), v) for c, v in cases])
        if isinstance(obj, Opaque) and obj.kind == "str" and isinstance(idx, slice) and not _has_sym((idx.start, idx.stop)):
            f = z3.Function(f"str_slice_{idx.start}_{idx.stop}", OpaqueSort, OpaqueSort)
            return Opaque(f(obj.t), "str")
        if isinstance(obj, Opaque) and isinstance(idx, int) and not isinstance(idx, bool):
            # element of a value the analysis knows nothing about (a decoded response): an uninterpreted function of
            # the value and the position; assumed: the position exists
            self.ctx.assumptions_used.add("record:element of an opaque sequence (decoded response) exists at the index used")
            f = z3.Function(f"item_{idx}".replace("-", "m"), OpaqueSort, OpaqueSort)
            return Opaque(f(obj.t), "opaque")
        if isinstance(obj, Opaque) and obj.kind == "unknown":
            self.ctx.assumptions_used.add("record:entry of an undeclared attribute of unknown type exists under the key used")
            return Opaque(self.ctx.fresh_const("unknown", OpaqueSort), "unknown")
        if isinstance(obj, Opaque) and isinstance(idx, str):
            # entry of a mapping the analysis knows nothing about (the validated configuration) under a concrete
            # string key: an uninterpreted function of the mapping; assumed: the key is present
            self.ctx.assumptions_used.add("record:entry of an opaque mapping (validated configuration) exists under the key used")
            f = z3.Function("entry_" + "".join(ch if ch.isalnum() else "_" for ch in idx), OpaqueSort, OpaqueSort)
            return Opaque(f(obj.t), "opaque")
        if isinstance(obj, Sym):
            raise Unsupported(f"subscript of {type(obj).__name__}")
        if isinstance(idx, slice) and _has_sym((idx.start, idx.stop)):
            raise Unsupported("symbolic slice of concrete sequence")
        try:
            return obj[idx]
        except (IndexError, KeyError, TypeError) as e:
            raise PyRaise(e)

    def store_subscript(self, obj, idx, value):
        if isinstance(obj, Opaque) and obj.kind == "unknown":
            # an entry of an undeclared container of unknown type (a statistics dict): the store concerns nobody's clause
            self.ctx.assumptions_used.add("record:store into an undeclared attribute of unknown type does not raise")
            return
        if isinstance(obj, SOpt):
            obj = self.unwrap_opt(obj, "subscripted value")
        if isinstance(obj, SDict):
            return self.sdict_set(obj, idx, value)
        if isinstance(obj, _smap().SMap):
            return _smap().setitem(self, obj, idx, value)
        if isinstance(obj, (dict, list)):
            if isinstance(idx, Sym) and isinstance(obj, dict):
                raise Unsupported("symbolic key into concrete dict store")
            from . import modstate

            owner = modstate.touch(obj)
            if owner:
                self.ctx.assumptions_used.add(f"record:module-level state written by the code under analysis: {owner} (restored after every path)")
            try:
                obj[idx] = value
            except (IndexError, KeyError, TypeError) as e:
                raise PyRaise(e)
            return
        raise Unsupported(f"subscript store on {type(obj).__name__}")

    # symbolic dict helpers (implemented in sdict.py, attached below)
    def sdict_get(self, d, key, raise_keyerror=True, default=None):
        from . import sdict

        return sdict.get(self, d, key, raise_keyerror, default)

    def sdict_set(self, d, key, value):
        from . import sdict

        return sdict.set(self, d, key, value)

    # ------------------------------------------------------------------
    # expression evaluation
    # ------------------------------------------------------------------
    def eval(self, node, env):
        m = getattr(self, "e_" + type(node).__name__, None)
        if m is None:
            raise Unsupported(f"expression {type(node).__name__}")
        return m(node, env)

    def e_Constant(self, node, env):
        return node.value

    def e_Name(self, node, env):
        try:
            return env.lookup(node.id)
        except KeyError:
            pass
        if node.id in self.builtins:
            return self.builtins[node.id]
        if hasattr(builtins, node.id):
            return builtins.getattr(builtins, node.id)
        raise PyRaise(mk_exc(NameError, node.id))

    def e_Attribute(self, node, env):
        obj = self.eval(node.value, env)
        return self.getattr(obj, node.attr)

    def e_BinOp(self, node, env):
        a = self.eval(node.left, env)
        b = self.eval(node.right, env)
        return self.binop(node.op, a, b)

    def e_UnaryOp(self, node, env):
        v = self.eval(node.operand, env)
        return self.unaryop(node.op, v)

    def e_BoolOp(self, node, env):
        if self.fmode:
            vals = []
            for v in node.values:
                val = self.eval(v, env)
                vals.append(val)
                # python short circuit on concretely decided operands (later operands may not even be
                # evaluable, e.g. `r[0] == "x" and r[2][0] ...`)
                fv = self.formula(val)
                if isinstance(fv, bool) and fv == isinstance(node.op, ast.Or):
                    if all(isinstance(self.formula(x), bool) for x in vals):
                        return val
                    break
            fs = [self.formula(v) for v in vals]
            if all(isinstance(f, bool) for f in fs):
                # concrete short circuit semantics
                if isinstance(node.op, ast.And):
                    for v, f in zip(vals, fs):
                        if not f:
                            return v
                    return vals[-1]
                for v, f in zip(vals, fs):
                    if f:
                        return v
                return vals[-1]
            if isinstance(node.op, ast.And):
                return SBool(_and(fs))
            return SBool(_or(fs))
        last = None
        for v in node.values:
            last = self.eval(v, env)
            t = self.truth(last)
            if isinstance(node.op, ast.And) and not t:
                return last if not isinstance(last, Sym) else False if isinstance(last, SBool) else last
            if isinstance(node.op, ast.Or) and t:
                return last if not isinstance(last, SBool) else True
        if isinstance(last, SBool):
            # the decision has been taken on this path
            return isinstance(node.op, ast.And)
        return last

    def e_Compare(self, node, env):
        left = self.eval(node.left, env)
        result = True
        fs = []
        for op, comp in zip(node.ops, node.comparators):
            right = self.eval(comp, env)
            r = self.compare(op, left, right)
            if len(node.ops) == 1:
                return r
            if self.fmode:
                fs.append(self.formula(r))
            else:
                if not self.truth(r):
                    return False
            left = right
        if self.fmode:
            return self.as_bool_value(_and(fs))
        return True

    def e_IfExp(self, node, env):
        c = self.eval(node.test, env)
        f = self.formula(c)
        if isinstance(f, bool):
            return self.eval(node.body if f else node.orelse, env)
        if self.fmode:
            a = self.eval(node.body, env)
            b = self.eval(node.orelse, env)
            return self.ite(f, a, b)
        return self.eval(node.body if self.ctx.branch(f) else node.orelse, env)

    def e_Tuple(self, node, env):
        return tuple(self._elts(node.elts, env))

    def e_List(self, node, env):
        return list(self._elts(node.elts, env))

    def e_Set(self, node, env):
        els = self._elts(node.elts, env)
        if _has_sym(els):
            raise Unsupported("set display with symbolic elements")
        return set(els)

    def _elts(self, elts, env):
        out = []
        for e in elts:
            if isinstance(e, ast.Starred):
                v = self.eval(e.value, env)
                out.extend(self.iterate_concrete(v))
            else:
                out.append(self.eval(e, env))
        return out

    def e_Dict(self, node, env):
        from . import sdict

        return sdict.display(self, node, env)

    def e_Subscript(self, node, env):
        obj = self.eval(node.value, env)
        idx = self.eval_index(node.slice, env)
        return self.subscript(obj, idx)

    def eval_index(self, sl, env):
        if isinstance(sl, ast.Slice):
            lo = self.eval(sl.lower, env) if sl.lower is not None else None
            hi = self.eval(sl.upper, env) if sl.upper is not None else None
            st = self.eval(sl.step, env) if sl.step is not None else None
            return slice(lo, hi, st)
        return self.eval(sl, env)

    def e_JoinedStr(self, node, env):
        # f-strings are opaque: the text of messages is dropped (DESIGN 2.1)
        parts = []
        sym = False
        for v in node.values:
            if isinstance(v, ast.Constant):
                parts.append(str(v.value))
            else:
                try:
                    val = self.eval(v.value, env)
                except PyRaise:
                    raise
                except Unsupported:
                    # the text of messages is dropped (DESIGN 2.1); a field the engine cannot evaluate
                    # is assumed not to raise
                    self.ctx.dropped.add("f-string field outside the value model (assumed not to raise)")
                    sym = True
                    parts.append("{?}")
                    continue
                if isinstance(val, (Sym, SObj, SFuture)) or _has_sym(val):
                    sym = True
                    parts.append("{?}")
                else:
                    try:
                        spec = ""
                        if v.format_spec is not None:
                            spec = "".join(str(c.value) for c in v.format_spec.values if isinstance(c, ast.Constant))
                        if v.conversion == ord("r"):
                            val = repr(val)
                        parts.append(format(val, spec))
                    except Exception:
                        sym = True
                        parts.append("{?}")
        s = "".join(parts)
        if sym:
            self.ctx.dropped.add("f-string text (opaque)")
        return s

    def e_FormattedValue(self, node, env):
        return "{?}"

    def e_Lambda(self, node, env):
        defaults = [self.eval(d, env) for d in node.args.defaults]
        return SFunc(node, env, None, "<lambda>", defaults=tuple(defaults))

    def e_ListComp(self, node, env):
        sym = self._symbolic_comprehension(node, env)
        if sym is not None:
            return sym
        return list(self._comprehension(node.generators, node.elt, env))

    def _symbolic_comprehension(self, node, env):
        """[elt for targets in zip(seqs..) / seq] over byte sequences of symbolic length: the map
        rule.  Returns SymList(length, index var, element term)."""
        if len(node.generators) != 1:
            return None
        g = node.generators[0]
        if g.ifs or g.is_async:
            return None
        it = self.eval(g.iter, env)
        from .calls import SymZip

        seqs = it.seqs if isinstance(it, SymZip) else [it] if isinstance(it, SBytes) else None
        if seqs is None:
            return None
        if not any(isinstance(q, SBytes) and not z3.is_int_value(z3.simplify(z3.Length(q.t))) for q in seqs):
            return None
        i = self.ctx.fresh_int("ci")
        elems = []
        lens = []
        holders = []
        for j, q in enumerate(seqs):
            if isinstance(q, SBytes):
                ph = z3.Const(f"__seq{j}", ByteSeq)
                holders.append((ph, q.t))
                elems.append(SInt(bv2int(ph[i])))
                lens.append(z3.Length(q.t))
            elif isinstance(q, (bytes, bytearray)):
                elems.append(SInt(bv2int(z3.Int2BV(table_select(self.ctx, q, i), 8))))
                lens.append(z3.IntVal(len(q)))
            else:
                raise Unsupported("symbolic comprehension over non-bytes sequence")
        n = lens[0]
        for l in lens[1:]:
            n = z3.If(l < n, l, n)
        e2 = Env({}, env)
        item = tuple(elems) if isinstance(it, SymZip) else elems[0]
        self.assign_target(g.target, item, e2)
        prev = self.fmode
        self.fmode = True
        try:
            t = self.eval(node.elt, e2)
        finally:
            self.fmode = prev
        shape = z3.substitute(int_term(t), (i, z3.Int("__iv"))).sexpr()
        real = SInt(z3.substitute(int_term(t), *holders)) if holders else t
        return SymList(z3.simplify(n), i, real, [q for _ph, q in holders],
                       [len(q) for q in seqs if isinstance(q, (bytes, bytearray))], shape)

    def e_GeneratorExp(self, node, env):
        # evaluated eagerly; the consumers supported (next/bytes/any/all/join/dict) do not observe laziness
        return LazyGen(self, node, env)

    def e_SetComp(self, node, env):
        return set(self._comprehension(node.generators, node.elt, env))

    def e_DictComp(self, node, env):
        out = {}
        for kv in self._comprehension(node.generators, ast.Tuple(elts=[node.key, node.value], ctx=ast.Load()), env):
            k, v = kv
            if isinstance(k, Sym):
                # symbolic keys are fine as long as every pair of keys is decided (equal / distinct) on this path:
                # the dict then has a concrete spine, keyed by the engine values themselves
                same = None
                for k0 in out:
                    eq = self.eq(k, k0)
                    if eq is True or (not isinstance(eq, bool) and self.ctx.prove(_z(eq))):
                        same = k0
                        break
                    if eq is False or self.ctx.prove(z3.Not(_z(eq))):
                        continue
                    raise Unsupported("dict comprehension with symbolic keys whose equality is undecided")
                if same is not None:
                    k = same
            out[k] = v
        return out

    def _comprehension(self, gens, elt, env):
        def rec(i, e):
            if i == len(gens):
                yield self.eval(elt, e)
                return
            g = gens[i]
            if g.is_async:
                raise Unsupported("async comprehension")
            it = self.eval(g.iter, e)
            for item in self.iterate_concrete(it):
                e2 = Env({}, e)
                self.assign_target(g.target, item, e2)
                ok = True
                for cond in g.ifs:
                    if not self.truth(self.eval(cond, e2)):
                        ok = False
                        break
                if ok:
                    yield from rec(i + 1, e2)

        return rec(0, Env({}, env))

    def iterate_concrete(self, v):
        """Iteration over a value whose spine is concrete (exact unrolling).  Symbolic sequences
        need a loop contract and are handled by the loop rule instead."""
        if isinstance(v, LazyGen):
            return v.items()
        if isinstance(v, UnpackableResult):
            return list(v.items)
        if isinstance(v, SOpt):
            v = self.unwrap_opt(v, "iterable")
        if isinstance(v, SBytes):
            t = z3.simplify(v.t)
            n = z3.simplify(z3.Length(t))
            if z3.is_int_value(n):
                return [SInt(z3.simplify(bv2int(t[i]))) for i in range(n.as_long())]
            raise Unsupported("iteration over a bytes value of symbolic length without a loop contract")
        if isinstance(v, (SDict,)):
            raise Unsupported("iteration over a symbolic dict without a loop contract")
        if isinstance(v, Sym):
            raise Unsupported(f"iteration over {type(v).__name__}")
        if isinstance(v, enum.EnumMeta):
            return list(v)
        if isinstance(v, SObj) and isinstance(v.cls, ExtClass) and "__iter__" in v.cls.methods:
            return list(v.cls.methods["__iter__"].apply(self, v, [], {}))
        if isinstance(v, SObj):
            raise Unsupported("iteration over object")
        try:
            return list(v) if not isinstance(v, (list, tuple)) else v
        except TypeError as e:
            raise PyRaise(e)

    def e_Await(self, node, env):
        aw = self.eval(node.value, env)
        if self.await_handler is None:
            raise Unsupported("await outside a coroutine rule")
        self._await_env = env
        return self.await_handler(self, aw, node)

    def e_Yield(self, node, env):
        if not self.yield_stack:
            raise Unsupported("yield outside a generator rule")
        v = self.eval(node.value, env) if node.value is not None else None
        return self.yield_stack[-1](v)

    def e_Call(self, node, env):
        # logging calls are dropped with their arguments (DESIGN 2.1)
        f = node.func
        if isinstance(f, ast.Attribute) and isinstance(f.value, ast.Name) and f.value.id in LOGGER_NAMES:
            if f.attr == "isEnabledFor":
                self.ctx.dropped.add("logger call (the call itself; isEnabledFor is False)")
                return False
            # the call itself is dropped; its arguments are evaluated, because evaluating them is what the function
            # does whether or not anything is logged: an argument that raises (data[1] of a one-byte frame) raises
            # out of the function.  An argument outside the subset is skipped (assumed not to raise) and listed.
            self.ctx.dropped.add("logger call (the call itself; its arguments are evaluated for exceptions)")
            for a in list(node.args) + [k.value for k in node.keywords if k.arg != "exc_info"]:
                try:
                    self.eval(a, env)
                except Unsupported as e:
                    self.ctx.dropped.add(f"logger argument outside the subset, assumed not to raise: {ast.unparse(a)[:60]}")
            return None
        # special forms of the contract language
        if isinstance(f, ast.Name):
            if f.id == "old" and (self.old_view is not None or self.native_old is not None):
                return self.eval_old(node.args[0], env)
            if f.id in ("forall", "exists") and f.id not in env.vars and self.fmode:
                return self.eval_quant(f.id, node, env)
            if f.id == "implies" and len(node.args) == 2 and not node.keywords:
                # lazy in its consequent when the antecedent is concretely false
                a = self.eval(node.args[0], env)
                fa = self.formula(a)
                if fa is False:
                    return True
                try:
                    b = self.eval(node.args[1], env)
                except Unsupported:
                    # the consequent cannot be evaluated on this path (e.g. it looks up a map key whose identity
                    # this path never decided): fine if the antecedent is false on this path anyway
                    if self.fmode and not isinstance(fa, bool) and self.ctx.prove(z3.Not(_z(fa))):
                        return True
                    raise
                return self.call(self.builtins["implies"], [a, b], {})
        fn = self.eval(f, env)
        args = []
        kwargs = {}
        for a in node.args:
            if isinstance(a, ast.Starred):
                args.extend(self.iterate_concrete(self.eval(a.value, env)))
            else:
                args.append(self.eval(a, env))
        for kw in node.keywords:
            if kw.arg is None:
                d = self.eval(kw.value, env)
                if not isinstance(d, dict):
                    raise Unsupported("** of non-dict")
                kwargs.update(d)
            else:
                kwargs[kw.arg] = self.eval(kw.value, env)
        return self.call(fn, args, kwargs, node=node)

    native_old = None

    def eval_old(self, expr, env):
        prev = self.in_old
        self.in_old = True
        try:
            if self.native_old is not None:
                e2 = Env(dict(self.native_old), env)
                return self.eval(expr, e2)
            return self.eval(expr, env)
        finally:
            self.in_old = prev

    def eval_quant(self, kind, node, env):
        """forall(lambda i: body) / forall(range_lo, range_hi, lambda i: body) over Int."""
        lam = node.args[-1]
        if not isinstance(lam, ast.Lambda):
            raise Unsupported("quantifier needs a lambda")
        names = [a.arg for a in lam.args.args]
        vars_ = [z3.Int(self.ctx.fresh_name("q_" + n)) for n in names]
        e2 = Env({n: SInt(v) for n, v in zip(names, vars_)}, env)
        guard = True
        if len(node.args) == 3:
            lo = int_term(self.eval(node.args[0], env))
            hi = int_term(self.eval(node.args[1], env))
            guard = z3.And([z3.And(v >= lo, v < hi) for v in vars_])
            if z3.is_int_value(lo) and lo.as_long() >= 0:
                for v in vars_:
                    self.nonneg_terms.add(v.get_id())
        body = _z(self.formula(self.eval(lam.body, e2)))
        if kind == "forall":
            return SBool(z3.ForAll(vars_, z3.Implies(_z(guard), body)))
        return SBool(z3.Exists(vars_, z3.And(_z(guard), body)))

    def e_NamedExpr(self, node, env):
        v = self.eval(node.value, env)
        env.assign(node.target.id, v)
        return v

    def e_Starred(self, node, env):
        raise Unsupported("starred expression")

    # ------------------------------------------------------------------
    # calls
    # ------------------------------------------------------------------
    def call(self, fn, args, kwargs, node=None):
        from . import calls

        return calls.call(self, fn, args, kwargs, node)

    def call_ast_function(self, fnode, module_name, env_parent, args, kwargs, bound_self=None, qualname=None,
                          defaults=None, kwdefaults=None):
        """Bind arguments and execute the body of a FunctionDef/Lambda AST."""
        if self.depth > 40:
            raise Unsupported("call depth limit")
        a = fnode.args
        params = [p.arg for p in a.posonlyargs + a.args]
        env = Env({}, env_parent)
        if env_parent is None:
            import importlib

            env.globals = importlib.import_module(module_name).__dict__ if module_name else {}
        args = list(args)
        if bound_self is not None:
            args = [bound_self] + args
        ndef = len(a.defaults)
        if defaults is None:
            defaults = [self.eval(d, env_parent or Env({}, None, env.globals)) for d in a.defaults]
        for i, p in enumerate(params):
            if i < len(args):
                env.vars[p] = args[i]
            elif p in kwargs:
                env.vars[p] = kwargs.pop(p)
            else:
                di = i - (len(params) - ndef)
                if di >= 0:
                    env.vars[p] = defaults[di]
                else:
                    raise PyRaise(mk_exc(TypeError, f"missing argument {p}"))
        extra = args[len(params):]
        if a.vararg is not None:
            env.vars[a.vararg.arg] = tuple(extra)
        elif extra:
            raise PyRaise(mk_exc(TypeError, "too many positional arguments"))
        for i, p in enumerate(a.kwonlyargs):
            if p.arg in kwargs:
                env.vars[p.arg] = kwargs.pop(p.arg)
            else:
                d = a.kw_defaults[i]
                if d is None:
                    raise PyRaise(mk_exc(TypeError, f"missing keyword argument {p.arg}"))
                if kwdefaults and p.arg in kwdefaults:
                    env.vars[p.arg] = kwdefaults[p.arg]
                else:
                    env.vars[p.arg] = self.eval(d, env_parent or Env({}, None, env.globals))
        if a.kwarg is not None:
            env.vars[a.kwarg.arg] = dict(kwargs)
        elif kwargs:
            raise PyRaise(mk_exc(TypeError, f"unexpected keyword arguments {sorted(kwargs)}"))
        if isinstance(fnode, ast.Lambda):
            return self.eval(fnode.body, env)
        self.depth += 1
        try:
            self.exec_block(fnode.body, env)
        except ReturnSig as r:
            return r.value
        finally:
            self.depth -= 1
        return None

    # ------------------------------------------------------------------
    # statements
    # ------------------------------------------------------------------
    def exec_block(self, stmts, env):
        for s in stmts:
            self.exec_stmt(s, env)

    def exec_stmt(self, node, env):
        m = getattr(self, "s_" + type(node).__name__, None)
        if m is None:
            raise Unsupported(f"statement {type(node).__name__}")
        return m(node, env)

    def s_Expr(self, node, env):
        if isinstance(node.value, ast.Constant):
            return  # docstring
        self.eval(node.value, env)

    def s_Pass(self, node, env):
        pass

    def s_Assign(self, node, env):
        v = self.eval(node.value, env)
        for t in node.targets:
            self.assign_target(t, v, env)

    def s_AnnAssign(self, node, env):
        if node.value is not None:
            self.assign_target(node.target, self.eval(node.value, env), env)

    def s_AugAssign(self, node, env):
        t = node.target
        if isinstance(t, ast.Name):
            cur = self.e_Name(ast.Name(id=t.id, ctx=ast.Load()), env)
            env.assign(t.id, self.binop(node.op, cur, self.eval(node.value, env)))
        elif isinstance(t, ast.Attribute):
            obj = self.eval(t.value, env)
            cur = self.getattr(obj, t.attr)
            self.setattr(obj, t.attr, self.binop(node.op, cur, self.eval(node.value, env)))
        elif isinstance(t, ast.Subscript):
            obj = self.eval(t.value, env)
            idx = self.eval_index(t.slice, env)
            cur = self.subscript(obj, idx)
            self.store_subscript(obj, idx, self.binop(node.op, cur, self.eval(node.value, env)))
        else:
            raise Unsupported("augassign target")

    def assign_target(self, t, v, env):
        if isinstance(t, ast.Name):
            env.assign(t.id, v)
        elif isinstance(t, ast.Attribute):
            obj = self.eval(t.value, env)
            self.setattr(obj, t.attr, v)
        elif isinstance(t, ast.Subscript):
            obj = self.eval(t.value, env)
            idx = self.eval_index(t.slice, env)
            self.store_subscript(obj, idx, v)
        elif isinstance(t, (ast.Tuple, ast.List)):
            items = self.unpack(v, len(t.elts), any(isinstance(e, ast.Starred) for e in t.elts))
            if any(isinstance(e, ast.Starred) for e in t.elts):
                raise Unsupported("starred unpacking")
            for e, item in zip(t.elts, items):
                self.assign_target(e, item, env)
        else:
            raise Unsupported(f"assignment target {type(t).__name__}")

    def unpack(self, v, n, starred=False):
        if isinstance(v, SOpt):
            v = self.unwrap_opt(v, "unpacked value")
        if isinstance(v, UnpackableResult):
            return v.unpack(self, n)
        items = self.iterate_concrete(v)
        if len(items) != n:
            raise PyRaise(mk_exc(ValueError, f"cannot unpack {len(items)} values into {n}"))
        return items

    def s_Return(self, node, env):
        raise ReturnSig(self.eval(node.value, env) if node.value is not None else None)

    def s_If(self, node, env):
        if _is_type_checking(node.test):
            return
        if self.truth(self.eval(node.test, env)):
            self.exec_block(node.body, env)
        else:
            self.exec_block(node.orelse, env)

    def s_Assert(self, node, env):
        if not self.truth(self.eval(node.test, env)):
            raise PyRaise(mk_exc(AssertionError))

    def s_Raise(self, node, env):
        if node.exc is None:
            cur = env_lookup_default(env, "__current_exc__")
            if cur is None:
                raise PyRaise(mk_exc(RuntimeError, "No active exception to reraise"))
            raise PyRaise(cur)
        e = self.eval(node.exc, env)
        if isinstance(e, type) and issubclass(e, BaseException):
            e = self.call(e, [], {})
        if node.cause is not None:
            self.eval(node.cause, env)
        raise PyRaise(e)

    def s_Break(self, node, env):
        raise BreakSig()

    def s_Continue(self, node, env):
        raise ContinueSig()

    def s_Global(self, node, env):
        raise Unsupported("global")

    def s_Nonlocal(self, node, env):
        raise Unsupported("nonlocal")

    def s_Import(self, node, env):
        import importlib

        for al in node.names:
            mod = importlib.import_module(al.name)
            env.assign(al.asname or al.name.split(".")[0], mod if al.asname else importlib.import_module(al.name.split(".")[0]))

    def s_ImportFrom(self, node, env):
        raise Unsupported("import-from inside function")

    def s_FunctionDef(self, node, env):
        defaults = tuple(self.eval(d, env) for d in node.args.defaults)
        fn = SFunc(node, env, None, node.name, defaults=defaults)
        val = fn
        for dec in reversed(node.decorator_list):
            d = self.eval(dec, env)
            val = self.call(d, [val], {})
        env.assign(node.name, val if val is not None else fn)

    s_AsyncFunctionDef = s_FunctionDef

    def s_ClassDef(self, node, env):
        raise Unsupported("class definition inside function")

    def s_Delete(self, node, env):
        # `del m[k]` on a mapping is `m.pop(k)` with the result dropped (KeyError when absent -- the same model the
        # method call uses); `del l[i]` on a python list with a concrete index / slice is done on the list;
        # `del name` unbinds a local.  Anything else stays outside the subset.
        for tgt in node.targets:
            if isinstance(tgt, ast.Subscript):
                obj = self.eval(tgt.value, env)
                idx = self.eval_index(tgt.slice, env)
                if isinstance(obj, (list, bytearray)):
                    if isinstance(idx, slice):
                        if not all(x is None or isinstance(x, int) for x in (idx.start, idx.stop, idx.step)):
                            raise Unsupported("del of a list slice with symbolic bounds")
                        del obj[idx]
                        continue
                    ci = idx if isinstance(idx, int) and not isinstance(idx, bool) else None
                    if ci is None:
                        raise Unsupported("del of a list element at a symbolic index")
                    if not -len(obj) <= ci < len(obj):
                        raise PyRaise(mk_exc(IndexError, "list assignment index out of range"))
                    del obj[ci]
                    continue
                if isinstance(idx, slice):
                    raise Unsupported("del of a slice of a non-list")
                popm = self.getattr(obj, "pop")
                self.call(popm, [idx], {}, node=node)
                continue
            if isinstance(tgt, ast.Name):
                if tgt.id not in env.vars:
                    raise Unsupported("del of a name that is not a local of the innermost scope")
                del env.vars[tgt.id]
                continue
            raise Unsupported("del of " + type(tgt).__name__)

    def s_While(self, node, env):
        if self.loop_handler is not None:
            r = self.loop_handler(self, node, env)
            if r is not NotImplemented:
                return
        n = 0
        # a loop without a contract whose iterations suspend (every iteration forks on the outcomes of its awaits):
        # explored up to a small number of iterations only -- beyond that the function is outside reach (bounded
        # exploration, never counted as proved); what the explored paths refute is still replayed on the real code
        limit = 10000
        if any(isinstance(x, (ast.Await, ast.AsyncWith, ast.AsyncFor)) for x in ast.walk(node)):
            limit = UNROLL_SUSPENDING_LOOP
        while True:
            c = self.eval(node.test, env)
            f = self.formula(c)
            if not isinstance(f, bool):
                raise Unsupported("while loop with symbolic guard needs a loop contract")
            if not f:
                break
            n += 1
            if n > limit:
                raise Unsupported("concrete while loop too long" if limit == 10000 else
                                  f"suspending loop without a contract: more than {limit} iterations (bounded exploration only)")
            try:
                self.exec_block(node.body, env)
            except BreakSig:
                return
            except ContinueSig:
                continue
        self.exec_block(node.orelse, env)

    def s_For(self, node, env):
        # a search loop -- `for <t> in <seq>: if <cond>: return <elt>` -- is the statement form of
        # `next((<elt> for <t> in <seq> if <cond>), <nothing>)`: over a byte string of symbolic length it is decided by
        # the same first-match model (calls._first_match) instead of needing a loop contract
        if (len(node.body) == 1 and not node.orelse and isinstance(node.body[0], ast.If) and not node.body[0].orelse
                and len(node.body[0].body) == 1 and isinstance(node.body[0].body[0], ast.Return)
                and node.body[0].body[0].value is not None):
            from .calls import _first_match as _fm

            _LG = LazyGen

            gen_node = ast.GeneratorExp(
                elt=node.body[0].body[0].value,
                generators=[ast.comprehension(target=node.target, iter=node.iter, ifs=[node.body[0].test], is_async=0)])
            ast.copy_location(gen_node, node)
            ast.fix_missing_locations(gen_node)
            try:
                r_ = _fm(self, _LG(self, gen_node, env))
            except Unsupported:
                r_ = NotImplemented
            if r_ is not NotImplemented:
                if r_ is None:
                    return  # no element satisfies the test: the loop runs off its end
                raise ReturnSig(r_)
        if self.loop_handler is not None:
            r = self.loop_handler(self, node, env)
            if r is not NotImplemented:
                return
        it = self.eval(node.iter, env)
        items = self.iterate_concrete(it)
        for item in items:
            self.assign_target(node.target, item, env)
            try:
                self.exec_block(node.body, env)
            except BreakSig:
                return
            except ContinueSig:
                continue
        self.exec_block(node.orelse, env)

    def s_AsyncFor(self, node, env):
        if self.loop_handler is None:
            raise Unsupported("async for without a loop rule")
        r = self.loop_handler(self, node, env)
        if r is NotImplemented:
            raise Unsupported("async for")
        return r

    def match_handler(self, h, exc, env):
        if h.type is None:
            return True
        t = self.eval(h.type, env)
        classes = t if isinstance(t, tuple) else (t,)
        ec = exc_class(exc)
        return any(isinstance(c, type) and issubclass(ec, c) for c in classes)

    def s_Try(self, node, env):
        try:
            try:
                self.exec_block(node.body, env)
            except PyRaise as pr:
                exc = pr.exc
                for h in node.handlers:
                    if self.match_handler(h, exc, env):
                        prev = env.vars.get("__current_exc__", _NOT_FOUND)
                        env.vars["__current_exc__"] = exc
                        if h.name:
                            env.assign(h.name, exc)
                        try:
                            self.exec_block(h.body, env)
                        finally:
                            if prev is _NOT_FOUND:
                                env.vars.pop("__current_exc__", None)
                            else:
                                env.vars["__current_exc__"] = prev
                        break
                else:
                    raise
            else:
                self.exec_block(node.orelse, env)
        except (PyRaise, ReturnSig, BreakSig, ContinueSig):
            # finally runs on every exit of the object program; engine signals (PathEnd,
            # Infeasible, Unsupported) are not object-program exits and skip it.
            if node.finalbody:
                self.exec_block(node.finalbody, env)
            raise
        else:
            if node.finalbody:
                self.exec_block(node.finalbody, env)

    def s_With(self, node, env):
        from . import withs

        return withs.exec_with(self, node, env, is_async=False)

    def s_AsyncWith(self, node, env):
        from . import withs

        return withs.exec_with(self, node, env, is_async=True)


def mk_extract(t, off, ln):
    """seq.extract(t, off, ln) for a concrete offset >= 0; a slice of a slice-to-end is flattened so that
    x[3:][2:] and x[5:] are the same term."""
    t = z3.simplify(t)
    if z3.is_app(t) and t.decl().kind() == z3.Z3_OP_SEQ_EXTRACT:
        base, off0, ln0 = t.arg(0), z3.simplify(t.arg(1)), z3.simplify(t.arg(2))
        to_end = z3.simplify(ln0 == z3.Length(base) - off0)
        if z3.is_int_value(off0) and z3.is_true(to_end):
            o = off0.as_long() + off
            if isinstance(ln, int):
                ln = z3.IntVal(ln)
            new_ln = z3.simplify(z3.substitute(ln, (z3.Length(t), z3.Length(base) - off0)))
            # length of the inner slice is max(len(base) - off0, 0); for the outer extract the clipping at the
            # end of `base` is the same clipping
            return z3.simplify(z3.SubSeq(base, z3.IntVal(o), new_ln))
    if isinstance(ln, int):
        ln = z3.IntVal(ln)
    return z3.simplify(z3.SubSeq(t, z3.IntVal(off), ln))


_TABLES = {}


def str_const(ctx, lit):
    """Uninterpreted constant standing for a string literal; distinct literals are distinct."""
    import hashlib

    c = z3.Const("str!" + hashlib.sha256(lit.encode()).hexdigest()[:10] + "!" + "".join(ch for ch in lit[:20] if ch.isalnum()), OpaqueSort)
    seen = ctx.ghost.setdefault("__str_literals__", {})
    if lit not in seen:
        for other, oc in seen.items():
            ctx.pc.append(oc != c)
            ctx.solver.add(oc != c)
        seen[lit] = c
    return c


def table_select(ctx, values, idx_term):
    """Select from a concrete table of small ints by a symbolic index: one uninterpreted function per
    table *content* (so equal tables are equal by congruence) with its ground facts asserted once per
    path."""
    key = tuple(int(v) for v in values)
    if key not in _TABLES:
        import hashlib

        name = "tbl_" + hashlib.sha256(repr(key).encode()).hexdigest()[:10]
        _TABLES[key] = z3.Function(name, z3.IntSort(), z3.IntSort())
    f = _TABLES[key]
    mark = ("table", f.name())
    if mark not in ctx.ghost:
        ctx.ghost[mark] = True
        ctx.assume(z3.And([f(i) == v for i, v in enumerate(key)]))
    return f(idx_term)


class SymList:
    """List of symbolic length given pointwise: element(i) for 0 <= i < n."""

    def __init__(self, n, ivar, elem, seq_args=(), const_lens=(), shape=None):
        self.n, self.ivar, self.elem, self.seq_args = n, ivar, elem, list(seq_args)
        self.const_lens = tuple(const_lens)  # lengths of the concrete tables zipped in (they bound n)
        self.shape = shape

    def canonical(self):
        """An uninterpreted function named after the *shape* of the element expression, applied to
        the sequences it maps over: two comprehensions of the same shape over the same sequences are
        the same term."""
        import hashlib

        shape = self.shape + "|" + repr(self.const_lens)
        name = "map_" + hashlib.sha256(shape.encode()).hexdigest()[:10]
        f = z3.Function(name, *[q.sort() for q in self.seq_args], ByteSeq)
        return f(*self.seq_args)


class UnpackableResult:
    """A value that knows how to be unpacked into n items (NCP command results)."""

    def unpack(self, interp, n):
        raise NotImplementedError


class LazyGen:
    def __init__(self, interp, node, env):
        self.interp = interp
        self.node = node
        self.env = env

    def items(self):
        return list(self.interp._comprehension(self.node.generators, self.node.elt, self.env))

    def iter(self):
        return self.interp._comprehension(self.node.generators, self.node.elt, self.env)


def env_lookup_default(env, name, default=None):
    try:
        return env.lookup(name)
    except KeyError:
        return default


def _smap():
    from . import smap

    return smap


def _is_type_checking(test):
    return isinstance(test, ast.Name) and test.id == "TYPE_CHECKING"


def _z(f):
    return z3.BoolVal(f) if isinstance(f, bool) else f


def _and(fs):
    out = []
    for f in fs:
        if f is False:
            return False
        if f is True:
            continue
        out.append(f)
    if not out:
        return True
    return z3.And(out) if len(out) > 1 else out[0]


def _or(fs):
    out = []
    for f in fs:
        if f is True:
            return True
        if f is False:
            continue
        out.append(f)
    if not out:
        return False
    return z3.Or(out) if len(out) > 1 else out[0]


def _kind(v):
    if is_intlike(v):
        return "int"
    if is_reallike(v):
        return "real"
    if is_byteslike(v):
        return "bytes"
    if isinstance(v, (tuple,)):
        return "tuple"
    if isinstance(v, list):
        return "list"
    if isinstance(v, str) or isinstance(v, Opaque):
        return "str"
    return type(v).__name__


def _has_sym(v, depth=0):
    if isinstance(v, (Sym, SObj, SFuture, SDict)) or type(v).__name__ in ("SMap", "SColl", "View", "SSet", "SList"):
        return True
    if depth > 4:
        return False
    if isinstance(v, (tuple, list, set, frozenset)):
        return any(_has_sym(x, depth + 1) for x in v)
    if isinstance(v, dict):
        return any(_has_sym(x, depth + 1) for x in v.values()) or any(_has_sym(x, depth + 1) for x in v.keys())
    if isinstance(v, slice):
        return _has_sym((v.start, v.stop, v.step), depth + 1)
    return False


def _is_struct(cls):
    try:
        import zigpy.types as zt

        return isinstance(cls, type) and issubclass(cls, zt.Struct)
    except Exception:
        return False


def _is_bitmap(cls):
    return isinstance(cls, enum.EnumMeta) and issubclass(cls, enum.Flag)


def _syntactic_bounds(t):
    """Cheap (lo, hi) bounds of an Int term, or None."""
    t = z3.simplify(t) if not z3.is_int_value(t) else t
    if z3.is_int_value(t):
        k = t.as_long()
        return (k, k)
    if z3.is_app(t):
        k = t.decl().kind()
        if k == z3.Z3_OP_BV2INT:
            n = t.arg(0).size()
            return (0, (1 << n) - 1)
        if k == z3.Z3_OP_ITE:
            a, b = _syntactic_bounds(t.arg(1)), _syntactic_bounds(t.arg(2))
            if a and b:
                return (min(a[0], b[0]), max(a[1], b[1]))
        if k == z3.Z3_OP_MOD and z3.is_int_value(t.arg(1)) and t.arg(1).as_long() > 0:
            return (0, t.arg(1).as_long() - 1)
    return None


import operator

_NATIVE_BINOPS = {
    ast.Add: operator.add,
    ast.Sub: operator.sub,
    ast.Mult: operator.mul,
    ast.Div: operator.truediv,
    ast.FloorDiv: operator.floordiv,
    ast.Mod: operator.mod,
    ast.Pow: operator.pow,
    ast.LShift: operator.lshift,
    ast.RShift: operator.rshift,
    ast.BitOr: operator.or_,
    ast.BitAnd: operator.and_,
    ast.BitXor: operator.xor,
    ast.MatMult: operator.matmul,
}
_NATIVE_CMPS = {ast.Lt: operator.lt, ast.LtE: operator.le, ast.Gt: operator.gt, ast.GtE: operator.ge}


def make_builtins(interp):
    from . import calls

    return calls.builtin_table(interp)
