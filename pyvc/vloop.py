"""Deterministic replay of coroutines (DESIGN 2.9): the real coroutine runs as a task on a real
asyncio event loop with a *virtual clock*; a controller acts after every step of the task, at the
suspension point the task is parked on, following the script the solver's model produced:

  * it injects the model's interference state into `self` (state injection, not a schedule),
  * it completes / fails / cancels the future the task waits on, cancels the task, or does nothing
    and lets the enclosing asyncio.timeout fire (the clock jumps to the next timer).

External async collaborators are stubs that park on a controller future, so they are suspension
points too.  A script that does not fit what the real code does (different number or kind of awaits)
is a *harness mismatch*, reported as such and never as a verdict.
"""
from __future__ import annotations

import asyncio
import selectors


class HarnessMismatch(Exception):
    pass


class VirtualClockLoop(asyncio.SelectorEventLoop):
    def __init__(self):
        super().__init__(selectors.SelectSelector())
        self._vt = 1000.0
        real_select = self._selector.select

        def select(timeout=None):
            if timeout is None:
                raise HarnessMismatch("event loop would block forever: nothing scheduled, nothing ready")
            if timeout > 0:
                self._vt += timeout
            return real_select(0)

        self._selector.select = select

    def time(self):
        return self._vt

    def create_future(self):
        fut = super().create_future()
        from . import replay as _replay

        rec = _replay.CURRENT.get("rec")
        if rec is not None and not getattr(self, "_pyvc_internal", False):
            rec.add(("loop.create_future", fut))
        return fut


def make_exception(name, builder, spec):
    """Exception object for a scripted outcome 'exception:<ClassName>'."""
    import bellows.ash as ash
    import bellows.exception
    import bellows.types as t

    if spec is not None:
        return builder.build(spec)
    table = {
        "NotAcked": lambda: ash.NotAcked(frame=ash.NakFrame(res=0, ncp_ready=0, ack_num=0)),
        "NcpFailure": lambda: ash.NcpFailure(code=t.NcpResetCode.ERROR_EXCEEDED_MAXIMUM_ACK_TIMEOUT_COUNT),
        "RuntimeError": lambda: RuntimeError("Connection has been closed"),
        "TimeoutError": lambda: asyncio.TimeoutError(),
        "EzspError": lambda: bellows.exception.EzspError("scripted"),
        "InvalidCommandError": lambda: bellows.exception.InvalidCommandError("scripted"),
        "ControllerError": lambda: bellows.exception.ControllerError("scripted"),
        "ConnectionResetError": lambda: ConnectionResetError("scripted"),
        "Exception": lambda: Exception("scripted"),
    }
    if name in table:
        return table[name]()
    import builtins

    import zigpy.exceptions

    cls = (getattr(builtins, name, None) or getattr(bellows.exception, name, None) or getattr(ash, name, None)
           or getattr(zigpy.exceptions, name, None))
    if cls is None:
        raise HarnessMismatch(f"cannot build scripted exception {name}")
    return cls("scripted")


class Controller:
    def __init__(self, loop, builder, script, self_obj):
        self.loop, self.builder, self.self_obj = loop, builder, self_obj
        self.script = [dict(e) for e in (script or [])]
        self.pos = 0
        self.task = None
        self.parked = {}  # controller futures handed to stubs
        self.mismatch = None
        self.log = []

    # -- script access ------------------------------------------------------------------------
    def next_entry(self, kind_hint=None):
        # entries that are not suspension points of the real code (contract-level bookkeeping) are skipped
        while self.pos < len(self.script) and self.script[self.pos].get("kind") == "shield" \
                and self.script[self.pos].get("outcome") != "cancelled":
            self.pos += 1
        if self.pos >= len(self.script):
            return None
        e = self.script[self.pos]
        self.pos += 1
        return e

    def inject(self, entry):
        st = entry.get("state") or {}
        if self.self_obj is None:
            return
        for fld, j in st.items():
            try:
                object.__setattr__(self.self_obj, fld, self.builder.build(j))
            except Exception as e:  # pragma: no cover
                raise HarnessMismatch(f"cannot inject state for {fld}: {e!r}")

    # -- main step --------------------------------------------------------------------------------
    def step(self):
        task = self.task
        if task.done():
            return
        waiter = getattr(task, "_fut_waiter", None)
        if waiter is None or waiter.done():
            # the task is runnable (not parked): look again after it ran
            self.loop.call_soon(self.step)
            return
        entry = self.next_entry()
        if entry is None and getattr(waiter, "_pyvc_default", None) is not None:
            # beyond the scripted part (e.g. inside a summarised loop): the stub answers with its default
            # (a well-formed success response); replays judge only what the failed obligation is about
            self.log.append(f"{getattr(waiter, '_pyvc_kind', '?')} -> default answer")
            waiter.set_result(waiter._pyvc_default())
            self.loop.call_soon(self.step)
            return
        if entry is None:
            # script exhausted while the real code still waits: let virtual time run (timeouts fire)
            self.log.append("script exhausted; waiting on timers")
            self.loop.call_later(3600.0, self._give_up)
            return
        try:
            self.inject(entry)
            out = entry.get("outcome", "return")
            self.log.append(f"{entry.get('kind')} -> {out}")
            from . import replay as _replay

            rec = _replay.CURRENT["rec"]
            if rec is not None:
                _replay._native_observe("resume")
                rec.add(("await", entry.get("kind"), out))
            if out == "cancelled":
                task.cancel()
            elif out == "timeout":
                pass  # nothing completes the waiter: the enclosing asyncio.timeout fires in virtual time
            elif out == "future-cancelled":
                waiter.cancel()
            elif out.startswith("exception:"):
                waiter.set_exception(make_exception(out.split(":", 1)[1], self.builder, entry.get("exc")))
            else:  # result / return
                val = self.builder.build(entry["value"]) if "value" in entry else True
                waiter.set_result(val)
        except HarnessMismatch as e:
            self.mismatch = str(e)
            task.cancel()
            return
        except asyncio.InvalidStateError as e:
            self.mismatch = f"scripted outcome does not fit the real await: {e!r}"
            task.cancel()
            return
        if entry.get("outcome") == "timeout":
            # wake up again after the enclosing asyncio.timeout fired: the task then no longer waits on this waiter.
            # (Stepping earlier would hand the next scripted outcome to the *same* await.)
            self._timed_waiter, self._timer_polls = waiter, 0
            self.loop.call_later(1e-9, self._after_timer)
        else:
            self.loop.call_soon(self.step)

    def _after_timer(self):
        w = getattr(self, "_timed_waiter", None)
        if w is not None and not self.task.done() and getattr(self.task, "_fut_waiter", None) is w and not w.done():
            self._timer_polls += 1
            if self._timer_polls > 100000:
                self.mismatch = "scripted timeout, but no timer ends the real await"
                self.task.cancel()
                return
            self.loop.call_later(0.05, self._after_timer)  # virtual time: the loop jumps from timer to timer
            return
        self._timed_waiter = None
        self.loop.call_soon(self.step)

    def _give_up(self):
        if not self.task.done():
            self.mismatch = "real coroutine still suspended after the script ended and all timers fired"
            self.task.cancel()


def run_coroutine(coro, builder, script, self_obj=None):
    loop = builder.loop
    if loop is None or not isinstance(loop, VirtualClockLoop):
        loop = VirtualClockLoop()
        builder.loop = loop
    asyncio.set_event_loop(loop)
    ctl = Controller(loop, builder, script, self_obj)
    builder.controller = ctl
    from . import replay as _replay

    _replay.CURRENT["controller"] = ctl
    try:
        task = loop.create_task(coro)
        ctl.task = task
        loop.call_soon(ctl.step)

        def poll():
            if not task.done():
                loop.call_soon(ctl.step) if False else None
                loop.call_later(0.5, poll)

        try:
            res = loop.run_until_complete(task)
        finally:
            # let done-callbacks run
            try:
                loop.run_until_complete(asyncio.sleep(0))
            except Exception:
                pass
        if ctl.mismatch:
            raise HarnessMismatch(ctl.mismatch)
        return res
    except asyncio.CancelledError:
        if ctl.mismatch:
            raise HarnessMismatch(ctl.mismatch)
        raise
    finally:
        builder.replay_log = ctl.log
        asyncio.set_event_loop(None)
        try:
            loop.close()
        except Exception:
            pass
