"""Call dispatch, object construction, builtin and method models (DESIGN 2.4, Appendix A)."""
from __future__ import annotations

import asyncio
import builtins
import dataclasses
import enum
import functools
import inspect
import types

import z3

from . import source
from .ctx import EngineError, Infeasible, Unsupported
from .interp import (
    BoundMethod,
    Env,
    LazyGen,
    PyRaise,
    ReturnSig,
    _and,
    _has_sym,
    _is_struct,
    _or,
    _z,
    bv2int,
    byte_unit,
    bytes_term,
    exc_class,
    int_term,
    is_byteslike,
    is_exc_class,
    is_intlike,
    mk_exc,
)
from .values import (
    BV8,
    ByteSeq,
    ExtClass,
    Opaque,
    OpaqueSort,
    SBool,
    SBytes,
    SDict,
    SEnum,
    SFunc,
    SFuture,
    SInt,
    SObj,
    SOpt,
    SReal,
    Sym,
    enum_accepts_undefined,
    enum_is_int,
    enum_members,
    enum_range,
    enum_to_int,
)


class Model:
    """A callable implemented by the engine."""

    def __init__(self, name, fn):
        self.name = name
        self.fn = fn

    def __repr__(self):
        return f"<model {self.name}>"


class Coro:
    """The coroutine object produced by calling an `async def` (not started)."""

    def __init__(self, runner, qualname, args=None, kwargs=None, bound_self=None, pyfunc=None):
        self.runner = runner
        self.qualname = qualname
        self.args = args
        self.kwargs = kwargs
        self.bound_self = bound_self
        self.pyfunc = pyfunc

    def __repr__(self):
        return f"<coro {self.qualname}>"


class ExtMethod:
    """Assumed contract of a method of an external collaborator."""

    def __init__(self, name, effect=False, returns=None, raises=None, fn=None, is_async=False,
                 returns_field=None, native=None, sets=None):
        self.name = name
        self.effect = effect
        self.returns = returns
        self.fn = fn
        self.is_async = is_async
        self.returns_field = returns_field
        self.native = native
        self.sets = sets or {}
        self.raises = raises or []
        self.suspends = True

    def apply(self, I, self_obj, args, kwargs):
        if self.is_async and not I.native:
            from .asyncrule import ExtAwait

            if self.effect:
                # assertions about "the moment the request is handed over" refer to the call, i.e. the
                # state before the coroutine is suspended in the callee
                _effect_hooks(I, f"{self_obj.cls.__name__}.{self.name}", args, kwargs)
                I.ctx.emit("call", f"{self_obj.cls.__name__}.{self.name}", tuple(args), dict(kwargs))
            return ExtAwait(self, self_obj, list(args), dict(kwargs))
        return self.apply_now(I, self_obj, args, kwargs)

    def apply_now(self, I, self_obj, args, kwargs):
        I.ctx.assumptions_used.add(f"external:{self_obj.cls.__name__}.{self.name}")
        if self.raises and not self.is_async and not I.native:
            k = I.ctx.choose(1 + len(self.raises), f"{self.name}: outcome")
            if k > 0:
                mk = self.raises[k - 1]
                exc = mk(I) if not isinstance(mk, type) else mk_exc(mk)
                I.ctx.emit(f"{self_obj.cls.__name__}.{self.name}!raise", self_obj, tuple(args), dict(kwargs))
                # for the native replay: which call of this collaborator method failed, and with what
                full = f"{self_obj.cls.__name__}.{self.name}"
                nth = sum(1 for r in I.ctx.sync_outcomes if r["name"] == full)
                I.ctx.sync_outcomes.append({"name": full, "nth": nth, "exc_sym": exc})
                raise PyRaise(exc)
            full = f"{self_obj.cls.__name__}.{self.name}"
            I.ctx.sync_outcomes.append({"name": full, "nth": sum(1 for r in I.ctx.sync_outcomes if r["name"] == full)})
        if self.fn is not None:
            return self.fn(I, self_obj, args, kwargs)
        if self.effect and not I.native and not self.is_async:
            _effect_hooks(I, f"{self_obj.cls.__name__}.{self.name}", args, kwargs)
        if self.effect:
            I.ctx.emit(f"{self_obj.cls.__name__}.{self.name}", self_obj, tuple(args), dict(kwargs))
        for k, v in self.sets.items():
            self_obj.fields[k] = v
        if self.returns_field is not None:
            if I.in_old and I.old_view is not None and self_obj.oid in I.old_view:
                return I.old_view[self_obj.oid][self.returns_field]
            return self_obj.fields[self.returns_field]
        if self.returns is not None:
            r = self.returns(I, self_obj, args, kwargs)
            I.ctx.emit("ret", f"{self_obj.cls.__name__}.{self.name}", r)
            return r
        return None


def _effect_hooks(I, name, args, kwargs):
    """Assertions the contract under proof attaches to the moment an external effect happens."""
    ctl = getattr(I, "await_ctl", None)
    if ctl is None:
        return
    from .modular import _observe

    _observe(I, "ext:" + name, tuple(args))
    for ename, cid, lam in getattr(ctl.con, "effect_asserts", []):
        if ename != name:
            continue
        from .contracts import eval_clause

        b = dict(ctl.bindings)
        b["fx"] = list(I.ctx.fx)
        b["eargs"] = tuple(args)
        b["ekwargs"] = dict(kwargs)
        code = lam.__code__
        names = code.co_varnames[: code.co_argcount]
        I.ctx.check_obligation(f"{ctl.con.qualname}::at[{name}].{cid}",
                               eval_clause(I, lam, {n: b[n] for n in names if n in b}, old_view=I.entry_old_view))


PURE_NATIVE_MODULES = {"builtins", "operator", "math", "binascii", "struct", "enum", "dataclasses", "itertools",
                       "functools", "collections", "urllib.parse", "posixpath", "string", "re"}


def call(I, fn, args, kwargs, node=None):
    if isinstance(fn, SOpt):
        fn = I.unwrap_opt(fn, "callable")
    if isinstance(fn, Model):
        return fn.fn(I, args, kwargs)
    if getattr(fn, "is_spec", False):
        return fn.apply(I, list(args))
    if isinstance(fn, BoundMethod):
        f = fn.func
        if isinstance(f, tuple):
            return method_model(I, f, fn.self, args, kwargs)
        if isinstance(f, ExtMethod):
            return f.apply(I, fn.self, args, kwargs)
        if isinstance(f, SFunc):
            return call_sfunc(I, f, args, kwargs, bound_self=fn.self)
        if isinstance(f, types.FunctionType):
            return call_pyfunc(I, f, args, kwargs, bound_self=fn.self, have_self=True, cls=fn.cls)
        if isinstance(f, Model):
            return f.fn(I, [fn.self] + list(args), kwargs)
        raise Unsupported(f"bound method over {type(f).__name__}")
    if isinstance(fn, SFunc):
        return call_sfunc(I, fn, args, kwargs)
    if isinstance(fn, functools.partial):
        return call(I, fn.func, list(fn.args) + list(args), {**(fn.keywords or {}), **kwargs}, node)
    if isinstance(fn, types.MethodType):
        return call_pyfunc(I, fn.__func__, args, kwargs, bound_self=fn.__self__, have_self=True)
    if isinstance(fn, types.FunctionType):
        return call_pyfunc(I, fn, args, kwargs)
    if isinstance(fn, type):
        return construct(I, fn, args, kwargs)
    if isinstance(fn, (SObj,)):
        # callable objects: external callables (callbacks) or instances with __call__
        if isinstance(fn.cls, ExtClass):
            m = fn.cls.methods.get("__call__")
            if m is None:
                raise Unsupported(f"external {fn.cls.__name__} is not callable")
            return m.apply(I, fn, args, kwargs)
        c = I.class_attr(fn.cls, "__call__", fn)
        return call(I, c, args, kwargs, node)
    if isinstance(fn, Sym):
        raise Unsupported(f"call of symbolic {type(fn).__name__}")
    if callable(fn):
        return call_native(I, fn, args, kwargs)
    raise PyRaise(mk_exc(TypeError, f"{type(fn).__name__} object is not callable"))


def call_sfunc(I, f, args, kwargs, bound_self=None):
    if isinstance(f.node, (ast_AsyncFunctionDef,)):
        return Coro(lambda I2: I2.call_ast_function(f.node, None, f.env, args, dict(kwargs), bound_self=bound_self,
                                                   defaults=list(f.defaults)), f.qualname)
    return I.call_ast_function(f.node, None, f.env, args, dict(kwargs), bound_self=bound_self, defaults=list(f.defaults))


import ast as _ast

ast_AsyncFunctionDef = _ast.AsyncFunctionDef


def call_pyfunc(I, f, args, kwargs, bound_self=None, have_self=False, cls=None):
    mod = f.__module__ or ""
    qn = f"{mod}.{f.__qualname__}"
    reg = I.registry
    if reg is not None and not I.native:
        ext0 = reg.external_for(qn)
        if ext0 is not None:
            I.ctx.assumptions_used.add(f"external:{qn}")
            return ext0(I, ([bound_self] if have_self else []) + list(args), kwargs)
    if source.is_repo_module(mod) or source.is_contract_module(mod):
        # contract on a bellows function: the caller is checked against it (modular)
        if reg is not None and source.is_repo_module(mod):
            con = reg.contract_for_call(qn, I)
            if con is not None and not inspect.iscoroutinefunction(f):
                return reg.apply_contract(I, con, f, args, kwargs, bound_self if have_self else None)
        if f.__name__ == "<lambda>" and source.is_contract_module(mod):
            lnode = source.lambda_ast(f)
            env = Env({}, None, f.__globals__)
            if f.__closure__:
                for cname, cell in zip(f.__code__.co_freevars, f.__closure__):
                    env.vars[cname] = cell.cell_contents
            return I.call_ast_function(lnode, None, env, list(args), dict(kwargs))
        try:
            node, modname, _h = source.find_function(qn)
        except KeyError:
            # e.g. functions created by decorators / dataclass machinery
            return call_native(I, f if not have_self else types.MethodType(f, bound_self), args, kwargs)
        if getattr(f, "__wrapped__", None) is not None and _decorated_contextmanager(node):
            from . import withs

            return withs.GeneratorCM(f.__wrapped__, node, modname, args, kwargs, bound_self if have_self else None)
        if isinstance(node, _ast.AsyncFunctionDef):
            if _contains_yield(node):
                from . import withs

                return withs.AsyncGenCall(node, modname, args, kwargs, bound_self if have_self else None, qn)
            bs = bound_self if have_self else None
            return Coro(lambda I2: I2.call_ast_function(node, modname, None, list(args), dict(kwargs), bound_self=bs),
                        qn, args, kwargs, bs, f)
        if _contains_yield(node):
            raise Unsupported(f"generator function {qn}")
        return I.call_ast_function(node, modname, None, args, dict(kwargs), bound_self=bound_self if have_self else None)
    # external function: assumed contract or pure native
    if reg is not None:
        ext = reg.external_for(qn)
        if ext is not None:
            I.ctx.assumptions_used.add(f"external:{qn}")
            a = ([bound_self] if have_self else []) + list(args)
            return ext(I, a, kwargs)
    return call_native(I, f if not have_self else types.MethodType(f, bound_self), args, kwargs)


def _decorated_contextmanager(node):
    for d in node.decorator_list:
        s = _ast.unparse(d)
        if s.endswith("contextmanager"):
            return True
    return False


def _contains_yield(node):
    for n in _ast.walk(node):
        if isinstance(n, (_ast.Yield, _ast.YieldFrom)):
            # yields of nested function definitions do not count
            return _yield_belongs(node, n)
    return False


def _yield_belongs(fn, y):
    class V(_ast.NodeVisitor):
        found = False

        def visit_FunctionDef(self, n):
            if n is fn:
                self.generic_visit(n)

        visit_AsyncFunctionDef = visit_FunctionDef

        def visit_Lambda(self, n):
            pass

        def visit_Yield(self, n):
            self.found = True

        visit_YieldFrom = visit_Yield

    v = V()
    v.visit(fn)
    return v.found


def call_native(I, fn, args, kwargs):
    """Native call of a callable outside /repo.  Allowed when every argument is concrete (the
    callee then is plain CPython on constants of the tree) or when an assumed contract exists."""
    reg = I.registry
    import logging as _logging

    if isinstance(fn, types.MethodType) and isinstance(fn.__self__, _logging.Logger):
        # a logger method held in a variable (`log = LOGGER.warning; log(...)`): the call is dropped like a direct
        # LOGGER.x(...) call; its arguments have been evaluated by the caller already
        I.ctx.dropped.add("logger call (the call itself; its arguments are evaluated for exceptions)")
        return False if fn.__name__ == "isEnabledFor" else None
    mod = getattr(fn, "__module__", None) or getattr(getattr(fn, "__self__", None), "__class__", type(None)).__module__
    name = getattr(fn, "__qualname__", getattr(fn, "__name__", repr(fn)))
    qn = f"{mod}.{name}"
    if reg is not None:
        ext = reg.external_for(qn)
        if ext is not None:
            I.ctx.assumptions_used.add(f"external:{qn}")
            return ext(I, list(args), kwargs)
        if not isinstance(fn, (types.FunctionType, types.BuiltinFunctionType, types.MethodType, type)):
            qn2 = f"{type(fn).__module__}.{type(fn).__qualname__}.__call__"
            ext = reg.external_for(qn2)
            if ext is not None:
                I.ctx.assumptions_used.add(f"external:{qn2}")
                return ext(I, [fn] + list(args), kwargs)
    if getattr(fn, "__name__", "") == "join" and isinstance(getattr(fn, "__self__", None), (bytes, bytearray)) and len(args) == 1:
        # sep.join(iterable of bytes): concatenation (separator must be empty for symbolic items)
        items = args[0].items() if isinstance(args[0], LazyGen) else I.iterate_concrete(args[0])
        if not _has_sym(items):
            try:
                return fn(items)
            except TypeError as e:
                raise PyRaise(e)
        if len(fn.__self__) != 0:
            raise Unsupported("bytes.join with a non-empty separator over symbolic items")
        for x in items:
            if not is_byteslike(x):
                raise PyRaise(mk_exc(TypeError, "sequence item: expected a bytes-like object"))
        if not items:
            return b""
        ts = [bytes_term(x) for x in items]
        return SBytes(z3.simplify(z3.Concat(*ts)) if len(ts) > 1 else ts[0])
    if _has_sym(args) or _has_sym(kwargs):
        raise Unsupported(f"call of external {qn} with symbolic arguments and no assumed contract")
    if I.native or _is_pure_native(fn, mod):
        try:
            return fn(*args, **kwargs)
        except Exception as e:
            raise PyRaise(e)
    raise Unsupported(f"native call of {qn} is not whitelisted as pure")


def _is_pure_native(fn, mod):
    if mod in PURE_NATIVE_MODULES:
        return True
    if isinstance(fn, (types.BuiltinFunctionType, types.BuiltinMethodType, types.MethodDescriptorType,
                       types.WrapperDescriptorType, types.MethodWrapperType)):
        self_ = getattr(fn, "__self__", None)
        # methods of immutable builtins are pure
        if self_ is None or isinstance(self_, (int, str, bytes, tuple, frozenset, float, type, enum.Enum, range)):
            return True
        if isinstance(self_, types.ModuleType):
            return self_.__name__ in PURE_NATIVE_MODULES
        return False
    if mod and (mod.startswith("zigpy.types") or mod.startswith("bellows.types") or mod.startswith("zigpy.state")):
        return True
    if isinstance(fn, types.MethodType) and isinstance(fn.__self__, (enum.Enum, int, bytes, str)):
        return True
    return False


# ---------------------------------------------------------------------------
# construction
# ---------------------------------------------------------------------------
def make_enum(I, cls, v):
    if not isinstance(v, Sym):
        try:
            return cls(v)
        except ValueError as e:
            raise PyRaise(e)
    if isinstance(v, SEnum) and v.cls is cls:
        return v
    if isinstance(v, SOpt):
        v = I.unwrap_opt(v, "enum value")
    t = int_term(v)
    if not enum_is_int(cls):
        raise Unsupported("symbolic construction of non-int enum")
    # the value model of enums (Cls(v) keeps v) is checked against the live class by the runner for every class
    # constructed from a symbolic value on some path (obligation enum.construction_keeps_the_value)
    I.ctx.assumptions_used.add(f"enum:{cls.__module__}:{cls.__qualname__}")
    defined = _or([t == enum_to_int(m) for m in enum_members(cls)])
    if enum_accepts_undefined(cls):
        rng = enum_range(cls)
        valid = z3.And(t >= rng[0], t <= rng[1]) if rng else True
    else:
        valid = defined
    if not I.fmode:
        ok = valid if isinstance(valid, bool) else I.ctx.branch(valid)
        if not ok:
            raise PyRaise(mk_exc(ValueError, "not a valid enum value"))
    return SEnum(cls, t)


class STypedInt(SInt):
    """int subclass instance (zigpy uintN_t ...) with symbolic value."""

    __slots__ = ("cls",)

    def __init__(self, t, cls):
        super().__init__(t)
        self.cls = cls


def construct(I, cls, args, kwargs):
    if cls in BUILTIN_TYPE_MODELS:
        return BUILTIN_TYPE_MODELS[cls](I, args, kwargs)
    import collections as _collections

    if cls is _collections.defaultdict and len(args) == 1 and isinstance(args[0], Model) and not kwargs:
        # defaultdict(list) / (dict) / (set): the factory is the engine's name for the builtin type
        real = {"list": list, "dict": dict, "set": set, "int": int}.get(args[0].name)
        if real is not None:
            return _collections.defaultdict(real)
    if cls is functools.partial:
        return functools.partial(*args, **kwargs)  # a closure over engine values; calls are dispatched by the engine
    if isinstance(cls, enum.EnumMeta):
        if len(args) != 1 or kwargs:
            raise Unsupported("enum construction form")
        return make_enum(I, cls, args[0])
    if is_exc_class(cls):
        obj = SObj(cls, {"args": tuple(args)})
        init = _repo_method(cls, "__init__")
        if init is not None:
            call_pyfunc(I, init, args, kwargs, bound_self=obj, have_self=True)
        return obj
    reg = I.registry
    if reg is not None:
        ctor = reg.constructor_for(cls)
        if ctor is not None:
            return ctor(I, cls, args, kwargs)
    if dataclasses.is_dataclass(cls) and (source.is_repo_module(cls.__module__) or _has_sym(args) or _has_sym(kwargs)):
        return construct_dataclass(I, cls, args, kwargs)
    if _is_struct(cls):
        return construct_struct(I, cls, args, kwargs)
    if issubclass(cls, int) and (_has_sym(args)):
        if len(args) != 1:
            raise Unsupported("typed int construction form")
        v = args[0]
        if isinstance(v, SOpt):
            v = I.unwrap_opt(v, "int value")
        t = int_term(v)
        bits = getattr(cls, "_bits", None)
        if bits is not None:
            signed = getattr(cls, "_signed", False)
            lo, hi = (-(1 << (bits - 1)), (1 << (bits - 1)) - 1) if signed else (0, (1 << bits) - 1)
            if not I.fmode and not I.ctx.branch(z3.And(t >= lo, t <= hi)):
                raise PyRaise(mk_exc(ValueError, f"value out of range for {cls.__name__}"))
        return STypedInt(t, cls)
    if issubclass(cls, (bytes,)) and _has_sym(args):
        return SBytes(bytes_term(args[0]))
    if source.is_repo_module(getattr(cls, "__module__", "")) and not dataclasses.is_dataclass(cls) \
            and not issubclass(cls, (int, bytes)) and _repo_method(cls, "__init__") is not None:
        # a class of the repository: its real __init__ runs on a fresh record
        init = _repo_method(cls, "__init__")
        obj = SObj(cls, {})
        call_pyfunc(I, init, args, kwargs, bound_self=obj, have_self=True)
        I.ctx.emit("construct", cls, obj)
        return obj
    if _has_sym(args) or _has_sym(kwargs):
        return construct_record(I, cls, args, kwargs)
    try:
        return cls(*args, **kwargs)
    except Exception as e:
        raise PyRaise(e)


def _is_struct_cls(cls):
    return _is_struct(cls)


def _repo_method(cls, name):
    for k in cls.__mro__:
        if name in k.__dict__:
            f = k.__dict__[name]
            if isinstance(f, types.FunctionType) and source.is_repo_module(f.__module__ or ""):
                return f
            return None
    return None


def construct_dataclass(I, cls, args, kwargs):
    fields = dataclasses.fields(cls)
    vals = {}
    names = [f.name for f in fields if f.init]
    if len(args) > len(names):
        raise PyRaise(mk_exc(TypeError, "too many arguments"))
    for n, a in zip(names, args):
        vals[n] = a
    for k, v in kwargs.items():
        if k not in names:
            raise PyRaise(mk_exc(TypeError, f"unexpected keyword argument {k}"))
        if k in vals:
            raise PyRaise(mk_exc(TypeError, f"multiple values for {k}"))
        vals[k] = v
    for f in fields:
        if f.name not in vals:
            if f.default is not dataclasses.MISSING:
                vals[f.name] = f.default
            elif f.default_factory is not dataclasses.MISSING:
                vals[f.name] = f.default_factory()
            else:
                raise PyRaise(mk_exc(TypeError, f"missing argument {f.name}"))
    frozen = cls.__dataclass_params__.frozen
    return SObj(cls, vals, frozen=frozen)


def construct_struct(I, cls, args, kwargs):
    """zigpy Struct: fields default to None, keyword construction sets them."""
    if args:
        raise Unsupported("positional Struct construction")
    names = [f.name for f in cls.fields]
    vals = {n: None for n in names}
    for k, v in kwargs.items():
        if k not in vals:
            raise PyRaise(mk_exc(AttributeError, k))
        vals[k] = v
    return SObj(cls, vals)


def construct_record(I, cls, args, kwargs):
    """Generic record for an external class constructed with symbolic arguments: fields are the
    constructor's parameters (assumption: the constructor stores them under those names)."""
    try:
        sig = inspect.signature(cls)
        ba = sig.bind(*args, **kwargs)
        ba.apply_defaults()
        vals = dict(ba.arguments)
    except (TypeError, ValueError):
        if args:
            raise Unsupported(f"record construction of {cls.__name__} with positional arguments")
        vals = dict(kwargs)
    I.ctx.assumptions_used.add(f"record:{cls.__module__}.{cls.__qualname__} stores its constructor arguments as attributes")
    return SObj(cls, vals, frozen=True)


# ---------------------------------------------------------------------------
# builtins
# ---------------------------------------------------------------------------
def b_len(I, args, kwargs):
    (v,) = args
    if isinstance(v, SOpt):
        v = I.unwrap_opt(v, "len argument")
    if isinstance(v, SBytes):
        return SInt(z3.Length(v.t))
    if isinstance(v, SDict):
        from . import sdict

        return sdict.length(I, v)
    if type(v).__name__ == "SMap":
        from . import smap

        return smap.length(I, v)
    if type(v).__name__ == "SSet":
        return SInt(v.card)
    if isinstance(v, Sym):
        raise Unsupported(f"len of {type(v).__name__}")
    if isinstance(v, SObj):
        raise Unsupported("len of object")
    try:
        return len(v)
    except TypeError as e:
        raise PyRaise(e)


def b_bytes(I, args, kwargs, mutable=False):
    if not args:
        return SBytes(z3.Empty(ByteSeq), mutable) if mutable and not I.native else (bytearray() if mutable else b"")
    (v,) = args
    if isinstance(v, LazyGen):
        v = v.items()
    if isinstance(v, SOpt):
        v = I.unwrap_opt(v, "bytes argument")
    if type(v).__name__ == "SymList":
        et = int_term(v.elem)
        from .interp import _syntactic_bounds

        bnd = _syntactic_bounds(et)
        if not (bnd is not None and 0 <= bnd[0] and bnd[1] <= 255):
            ok = z3.ForAll([v.ivar], z3.Implies(z3.And(v.ivar >= 0, v.ivar < v.n), z3.And(et >= 0, et < 256)))
            if not I.ctx.prove(ok):
                raise Unsupported("bytes() of a symbolic list whose elements are not provably in range(256)")
        r = v.canonical() if v.seq_args else I.ctx.fresh_const("mapped", ByteSeq)
        I.ctx.assume(z3.Length(r) == v.n)
        I.ctx.assume_lazy(z3.ForAll([v.ivar], z3.Implies(z3.And(v.ivar >= 0, v.ivar < v.n),
                                                          r[v.ivar] == z3.Int2BV(et, 8))))
        return SBytes(r, mutable)
    if isinstance(v, SBytes):
        return SBytes(v.t, mutable)
    if isinstance(v, (bytes, bytearray)):
        if I.native:
            return bytearray(v) if mutable else bytes(v)
        return SBytes(bytes_term(v), True) if mutable else bytes(v)
    if isinstance(v, (list, tuple)):
        if not _has_sym(v):
            try:
                r = bytes(v)
            except (ValueError, TypeError) as e:
                raise PyRaise(e)
            if mutable:
                return bytearray(r) if I.native else SBytes(bytes_term(r), True)
            return r
        units = []
        for x in v:
            if not is_intlike(x):
                raise PyRaise(mk_exc(TypeError, "bytes() element is not an integer"))
            t = int_term(x)
            if not I.fmode and not I.ctx.branch(z3.And(t >= 0, t < 256)):
                raise PyRaise(mk_exc(ValueError, "bytes must be in range(0, 256)"))
            units.append(z3.Unit(z3.Int2BV(t, 8)))
        if not units:
            return SBytes(z3.Empty(ByteSeq), mutable)
        return SBytes(z3.simplify(z3.Concat(*units)) if len(units) > 1 else units[0], mutable)
    if isinstance(v, int) and not isinstance(v, bool):
        return bytes(v)
    if isinstance(v, SObj):
        raise Unsupported("bytes(object)")
    raise Unsupported(f"bytes({type(v).__name__})")


def b_bytearray(I, args, kwargs):
    return b_bytes(I, args, kwargs, mutable=True)


_MODEL_TYPES = {"bytes": bytes, "bytearray": bytearray, "int": int, "bool": bool, "str": str, "list": list,
                "tuple": tuple, "dict": dict, "set": set, "frozenset": frozenset, "range": range, "type": type}


def _untype(c):
    if isinstance(c, Model) and c.name in _MODEL_TYPES:
        return _MODEL_TYPES[c.name]
    return c


def b_isinstance(I, args, kwargs):
    v, c = args
    c = tuple(_untype(x) for x in c) if isinstance(c, tuple) else _untype(c)
    classes = c if isinstance(c, tuple) else (c,)
    if isinstance(v, SOpt):
        if I.fmode:
            inner = b_isinstance(I, [v.value, c], {})
            return SBool(z3.And(v.present, _z(I.formula(inner))))
        if not (v.present if isinstance(v.present, bool) else I.ctx.branch(v.present)):
            return any(k is type(None) for k in classes)
        v = v.value
    if isinstance(v, SObj):
        if isinstance(v.cls, ExtClass):
            return False
        return any(isinstance(k, type) and issubclass(v.cls, k) for k in classes)
    if isinstance(v, SEnum):
        return any(isinstance(k, type) and issubclass(v.cls, k) for k in classes)
    if isinstance(v, STypedInt):
        return any(isinstance(k, type) and issubclass(v.cls, k) for k in classes)
    if isinstance(v, SInt):
        return any(k in (int, object) for k in classes)
    if isinstance(v, SBool):
        return any(k in (bool, int, object) for k in classes)
    if isinstance(v, SReal):
        return any(k in (float, object) for k in classes)
    if isinstance(v, SBytes):
        base = bytearray if v.mutable else bytes
        return any(isinstance(k, type) and issubclass(base, k) for k in classes)
    if isinstance(v, SDict):
        return any(k in (dict, object) for k in classes)
    if isinstance(v, SFuture):
        return any(k in (asyncio.Future, object) for k in classes)
    if isinstance(v, Opaque):
        return any(k in (str, object) for k in classes)
    if isinstance(v, Sym):
        raise Unsupported(f"isinstance of {type(v).__name__}")
    return isinstance(v, c)


def b_type(I, args, kwargs):
    (v,) = args
    if isinstance(v, SOpt):
        v = v.value if I.fmode else I.unwrap_opt(v, "type() argument")
    if isinstance(v, SObj) and getattr(v.cls, "pytype", None) is not None:
        return v.cls.pytype  # collaborators declared to be instances of one Python class
    if isinstance(v, (SObj, SEnum)):
        return v.cls
    if isinstance(v, STypedInt):
        return v.cls
    if isinstance(v, SInt):
        return int
    if isinstance(v, SBool):
        return bool
    if isinstance(v, SBytes):
        return bytearray if v.mutable else bytes
    if isinstance(v, Sym):
        raise Unsupported(f"type() of {type(v).__name__}")
    return type(v)


def b_range(I, args, kwargs):
    if _has_sym(args):
        return SymRange(*args)
    return range(*args)


class SymRange:
    """range with symbolic bounds (needs a loop contract to iterate)."""

    def __init__(self, *args):
        if len(args) == 1:
            self.start, self.stop, self.step = 0, args[0], 1
        elif len(args) == 2:
            self.start, self.stop, self.step = args[0], args[1], 1
        else:
            self.start, self.stop, self.step = args


def b_minmax(which):
    def f(I, args, kwargs):
        vals = list(args) if len(args) > 1 else list(I.iterate_concrete(args[0]))
        if not _has_sym(vals):
            return (min if which == "min" else max)(vals)
        from .interp import is_reallike, real_term

        acc = vals[0]
        for v in vals[1:]:
            if is_intlike(acc) and is_intlike(v):
                ta, tv = int_term(acc), int_term(v)
                c = tv < ta if which == "min" else tv > ta
                acc = SInt(z3.If(c, tv, ta))
            elif is_reallike(acc) and is_reallike(v):
                ta, tv = real_term(acc), real_term(v)
                c = tv < ta if which == "min" else tv > ta
                acc = SReal(z3.If(c, tv, ta))
            else:
                raise Unsupported("min/max of non-numeric symbolic values")
        return acc

    return f


def b_abs(I, args, kwargs):
    (v,) = args
    if not isinstance(v, Sym):
        return abs(v)
    if isinstance(v, SReal):
        return SReal(z3.If(v.t < 0, -v.t, v.t))
    t = int_term(v)
    return SInt(z3.If(t < 0, -t, t))


def b_divmod(I, args, kwargs):
    import ast as _ast

    a, b = args
    if not isinstance(a, Sym) and not isinstance(b, Sym):
        try:
            return divmod(a, b)
        except ZeroDivisionError as e:
            raise PyRaise(e)
    return (I._int_binop(_ast.FloorDiv(), a, b), I._int_binop(_ast.Mod(), a, b))


class SetIter:
    def __init__(self, s):
        self.s = s


def b_iter(I, args, kwargs):
    (v,) = args
    if type(v).__name__ == "SSet":
        return SetIter(v)
    raise Unsupported(f"iter() of {type(v).__name__}")


def b_next(I, args, kwargs):
    it = args[0]
    if isinstance(it, SetIter):
        s = it.s
        if not I.ctx.branch(s.card > 0):
            I.ctx.assume(s.card == 0)
            if len(args) > 1:
                return args[1]
            raise PyRaise(mk_exc(StopIteration))
        kt = I.ctx.fresh_int(f"{s.name}.first")
        I.ctx.assume(z3.Select(s.has, kt))
        s.touched.append(kt)
        return SInt(kt)
    if isinstance(it, LazyGen):
        r = _first_match(I, it)
        if r is not NotImplemented:
            if r is None:
                if len(args) > 1:
                    return args[1]
                raise PyRaise(mk_exc(StopIteration))
            return r
        g = it.iter()
        for x in g:
            return x
        if len(args) > 1:
            return args[1]
        raise PyRaise(mk_exc(StopIteration))
    raise Unsupported("next() on non-generator")


def _first_match(I, gen):
    """next(<elt> for <targets> in enumerate(seq) if <cond>) / (... for b in seq if cond) over a byte
    sequence of symbolic length: the first element satisfying the filter.  A fresh index i with
    0 <= i < len, cond(seq[i]) and forall j < i: not cond(seq[j]); None (StopIteration) when no element
    satisfies it."""
    node = gen.node
    if len(node.generators) != 1:
        return NotImplemented
    g = node.generators[0]
    if g.is_async or len(g.ifs) != 1:
        return NotImplemented
    it_node = g.iter
    enum = isinstance(it_node, _ast.Call) and isinstance(it_node.func, _ast.Name) and it_node.func.id == "enumerate" \
        and len(it_node.args) == 1 and not it_node.keywords
    seq = I.eval(it_node.args[0] if enum else it_node, gen.env)
    if not isinstance(seq, SBytes) or z3.is_int_value(z3.simplify(z3.Length(seq.t))):
        return NotImplemented
    c = I.ctx
    n = z3.Length(seq.t)

    def cond_at(idx_term):
        e2 = Env({}, gen.env)
        val = SInt(bv2int(seq.t[idx_term]))
        I.assign_target(g.target, (SInt(idx_term), val) if enum else val, e2)
        prev = I.fmode
        I.fmode = True
        try:
            f = I.formula(I.eval(g.ifs[0], e2))
        finally:
            I.fmode = prev
        return _z(f), e2

    j = z3.Int(c.fresh_name("fm_j"))
    cj, _ = cond_at(j)
    none = z3.ForAll([j], z3.Implies(z3.And(j >= 0, j < n), z3.Not(cj)))
    some = z3.Not(none)
    k = c.choose_feasible([some, none])
    if k == 1:
        return None
    i = c.fresh_int("first_match")
    I.nonneg_terms.add(i.get_id())
    ci, e2 = cond_at(i)
    c.assume(z3.And(i >= 0, i < n, ci))
    c.assume(z3.ForAll([j], z3.Implies(z3.And(j >= 0, j < i), z3.Not(cj))))
    # recorded so that contracts can speak about "the element the scan found" by role, not by the name of a local
    c.emit("scan.first_match", None, (SInt(i), SInt(bv2int(seq.t[i]))), {})
    return I.eval(node.elt, e2)


def b_enumerate(I, args, kwargs):
    items = I.iterate_concrete(args[0])
    start = args[1] if len(args) > 1 else kwargs.get("start", 0)
    return [(i + start, x) for i, x in enumerate(items)]


class SymZip:
    def __init__(self, seqs):
        self.seqs = seqs


def b_zip(I, args, kwargs):
    if any(isinstance(a, SBytes) and not z3.is_int_value(z3.simplify(z3.Length(a.t))) for a in args):
        return SymZip(list(args))
    lists = [I.iterate_concrete(a) for a in args]
    return list(zip(*lists))


def b_list(I, args, kwargs):
    if not args:
        return []
    return list(I.iterate_concrete(args[0]))


def b_tuple(I, args, kwargs):
    if not args:
        return ()
    return tuple(I.iterate_concrete(args[0]))


def b_dict(I, args, kwargs):
    d = {}
    if args:
        src = args[0]
        if isinstance(src, dict):
            d.update(src)
        else:
            for k, v in I.iterate_concrete(src):
                if isinstance(k, Sym):
                    raise Unsupported("dict() with symbolic key")
                d[k] = v
    d.update(kwargs)
    return d


def b_set(I, args, kwargs):
    if not args:
        return set()
    items = I.iterate_concrete(args[0])
    if _has_sym(items):
        raise Unsupported("set() of symbolic items")
    return set(items)


def b_any(I, args, kwargs):
    items = I.iterate_concrete(args[0])
    if I.fmode:
        return I.as_bool_value(_or([I.formula(x) for x in items]))
    for x in items:
        if I.truth(x):
            return True
    return False


def b_all(I, args, kwargs):
    items = I.iterate_concrete(args[0])
    if I.fmode:
        return I.as_bool_value(_and([I.formula(x) for x in items]))
    for x in items:
        if not I.truth(x):
            return False
    return True


def b_callable(I, args, kwargs):
    (v,) = args
    if isinstance(v, (SFunc, BoundMethod, Model, functools.partial)):
        return True
    if isinstance(v, SObj):
        if isinstance(v.cls, ExtClass):
            if "callable" in v.fields:
                return v.fields["callable"]
            return "__call__" in v.cls.methods
        return hasattr(v.cls, "__call__")
    if isinstance(v, SOpt):
        if I.fmode:
            return SBool(z3.And(v.present, _z(I.formula(b_callable(I, [v.value], {})))))
        if not I.ctx.branch(v.present):
            return False
        return b_callable(I, [v.value], {})
    if isinstance(v, Sym):
        return False
    return callable(v)


def b_getattr(I, args, kwargs):
    obj, name = args[0], args[1]
    if isinstance(obj, SOpt) and isinstance(name, Opaque):
        if not (obj.present if isinstance(obj.present, bool) else I.ctx.branch(obj.present)):
            raise PyRaise(mk_exc(AttributeError, "'NoneType' object has no attribute"))
        obj = obj.value
    if isinstance(name, Opaque) and isinstance(obj, SObj) and isinstance(obj.cls, ExtClass) and obj.cls.dynamic is not None:
        m = obj.cls.dynamic(name)
        return BoundMethod(m, obj, f"{obj.cls.__name__}.<dynamic>", obj.cls)
    if isinstance(name, Sym):
        raise Unsupported("getattr with symbolic name")
    if len(args) == 3:
        try:
            return I.getattr(obj, name)
        except PyRaise as pr:
            if issubclass(exc_class(pr.exc), AttributeError):
                return args[2]
            raise
    return I.getattr(obj, name)


def b_setattr(I, args, kwargs):
    obj, name, value = args[0], args[1], args[2]
    if not isinstance(name, str):
        raise Unsupported("setattr with symbolic name")
    I.setattr(obj, name, value)
    return None


def b_hasattr(I, args, kwargs):
    try:
        I.getattr(args[0], args[1])
        return True
    except PyRaise as pr:
        if issubclass(exc_class(pr.exc), AttributeError):
            return False
        raise


def b_int(I, args, kwargs):
    if not args:
        return 0
    v = args[0]
    if isinstance(v, SOpt):
        v = I.unwrap_opt(v, "int()")
    if isinstance(v, Sym):
        if is_intlike(v):
            return SInt(int_term(v))
        raise Unsupported("int() of symbolic non-int")
    try:
        return int(*args, **kwargs)
    except (ValueError, TypeError) as e:
        raise PyRaise(e)


def b_bool(I, args, kwargs):
    if not args:
        return False
    f = I.formula(args[0])
    return I.as_bool_value(f)


def b_str(I, args, kwargs):
    if not args:
        return ""
    v = args[0]
    if isinstance(v, Opaque):
        # str() of an opaque value: a function of that value
        return Opaque(z3.Function("str_of", OpaqueSort, OpaqueSort)(v.t), "str")
    if isinstance(v, (Sym, SObj)):
        I.ctx.dropped.add("str()/repr() of symbolic value (opaque)")
        return Opaque(I.ctx.fresh_const("str", OpaqueSort), "str")
    return str(v)


def b_repr(I, args, kwargs):
    v = args[0]
    if isinstance(v, (Sym, SObj)):
        return Opaque(I.ctx.fresh_const("repr", OpaqueSort), "str")
    return repr(v)


def b_hash(I, args, kwargs):
    v = args[0]
    if isinstance(v, (Sym, SObj, SFunc)):
        return SInt(I.ctx.fresh_int("hash"))
    return hash(v)


def b_id(I, args, kwargs):
    v = args[0]
    if isinstance(v, (SObj, SFuture)):
        return v.oid
    return id(v)


def b_sorted(I, args, kwargs):
    items = list(I.iterate_concrete(args[0]))
    key = kwargs.get("key")
    if _has_sym(items) or (key is not None and not isinstance(key, (types.BuiltinFunctionType, type))):
        if key is None:
            raise Unsupported("sorted of symbolic items")
        # items with symbolic parts ordered by a key that is concrete for every one of them: CPython's stable sort
        keys = [call(I, key, [x], {}) for x in items]
        if _has_sym(keys):
            raise Unsupported("sorted of symbolic items by a symbolic key")
        order = sorted(range(len(items)), key=lambda i: keys[i], reverse=bool(kwargs.get("reverse", False)))
        return [items[i] for i in order]
    return sorted(items, **kwargs)


def b_sum(I, args, kwargs):
    items = I.iterate_concrete(args[0])
    acc = args[1] if len(args) > 1 else 0
    for x in items:
        acc = I.binop(_ast.Add(), acc, x)
    return acc


class SuperProxy:
    """super() inside a method of a class whose base lives outside the repository: the base methods are
    external (assumed) effects named super.<method>"""

    def __init__(self, obj):
        self.obj = obj


def b_super(I, args, kwargs):
    if args:
        raise Unsupported("super() with arguments")
    return SuperProxy(getattr(I, "self_obj", None))


def b_print(I, args, kwargs):
    return None


def b_frozenset(I, args, kwargs):
    if not args:
        return frozenset()
    items = I.iterate_concrete(args[0])
    if _has_sym(items):
        raise Unsupported("frozenset of symbolic items")
    return frozenset(items)


def _fut_view(I, f):
    """(state term, result, exc) of a future as seen now or in old(...)"""
    if isinstance(f, SOpt):
        f = f.value
    if not isinstance(f, SFuture):
        raise Unsupported(f"fut_* on {type(f).__name__}")
    if I.in_old and I.old_view is not None and f.oid in I.old_view:
        o = I.old_view[f.oid]
        return o["state"], o["result"], o["exc"]
    return f.state, f.result, f.exc


def _native_fut_state(f):
    from .replay import FutureView

    if isinstance(f, FutureView):
        return f.state()
    if not f.done():
        return 0
    if f.cancelled():
        return 3
    return 2 if f.exception() is not None else 1


def b_fut_state(I, args, kwargs):
    (f,) = args
    if I.native:
        return _native_fut_state(f)
    return SInt(_fut_view(I, f)[0])


def b_fut_done(I, args, kwargs):
    (f,) = args
    if I.native:
        return _native_fut_state(f) != 0
    return SBool(_fut_view(I, f)[0] != 0)


def b_fut_result(I, args, kwargs):
    (f,) = args
    if I.native:
        from .replay import FutureView

        return f.result_value() if isinstance(f, FutureView) else f.result()
    return _fut_view(I, f)[1]


def b_fut_exc(I, args, kwargs):
    (f,) = args
    if I.native:
        from .replay import FutureView

        return f.exc_value() if isinstance(f, FutureView) else f.exception()
    return _fut_view(I, f)[2]


def b_implies(I, args, kwargs):
    a, b = args
    fa, fb = I.formula(a), I.formula(b)
    if isinstance(fa, bool):
        return True if not fa else I.as_bool_value(fb)
    return SBool(z3.Implies(fa, _z(fb)))


def b_unchanged_except(I, args, kwargs):
    new, old, keys = args
    if I.native:
        ks = set(keys)
        for k in set(new) | set(old):
            if k in ks:
                continue
            if (k in new) != (k in old):
                return False
            a, b = new[k], old[k]
            if not _native_same(a, b):
                return False
        return True
    from . import smap

    return I.as_bool_value(smap.unchanged_except(I, new, old, list(keys)))


def _native_same(a, b):
    from .replay import FutureView, _same

    if isinstance(a, tuple) and isinstance(b, tuple) and len(a) == len(b):
        return all(_native_same(x, y) for x, y in zip(a, b))
    if isinstance(b, FutureView):
        return b._fut is a
    if isinstance(a, FutureView):
        return a._fut is b
    return _same(b, a)


BUILTIN_TYPE_MODELS = {}


def builtin_table(I):
    tbl = {
        "len": b_len, "bytes": b_bytes, "bytearray": b_bytearray, "isinstance": b_isinstance, "type": b_type,
        "range": b_range, "min": b_minmax("min"), "max": b_minmax("max"), "abs": b_abs, "divmod": b_divmod, "next": b_next,
        "iter": b_iter, "enumerate": b_enumerate, "zip": b_zip, "list": b_list, "tuple": b_tuple, "dict": b_dict, "set": b_set,
        "any": b_any, "all": b_all, "callable": b_callable, "getattr": b_getattr, "setattr": b_setattr, "hasattr": b_hasattr,
        "int": b_int, "bool": b_bool, "str": b_str, "repr": b_repr, "hash": b_hash, "id": b_id,
        "sorted": b_sorted, "sum": b_sum, "super": b_super, "print": b_print, "frozenset": b_frozenset,
        "fut_state": b_fut_state, "fut_done": b_fut_done, "fut_result": b_fut_result, "fut_exc": b_fut_exc,
        "implies": b_implies, "unchanged_except": b_unchanged_except,
    }
    out = {k: Model(k, v) for k, v in tbl.items()}
    for name, typ in (("bytes", bytes), ("bytearray", bytearray), ("int", int), ("bool", bool), ("str", str),
                      ("list", list), ("tuple", tuple), ("dict", dict), ("set", set), ("frozenset", frozenset),
                      ("range", range), ("type", type)):
        BUILTIN_TYPE_MODELS[typ] = tbl[name]
    # exception classes and constants resolve natively through builtins
    return out


# ---------------------------------------------------------------------------
# method models
# ---------------------------------------------------------------------------
def method_model(I, key, self_, args, kwargs):
    kind, name = key
    if kind == "bytes":
        return bytes_method(I, self_, name, args, kwargs)
    if kind == "int":
        return int_method(I, self_, name, args, kwargs)
    if kind == "future":
        from . import futures

        return futures.method(I, self_, name, args, kwargs)
    if kind == "sdict":
        from . import sdict

        return sdict.method(I, self_, name, args, kwargs)
    if kind == "smap":
        from . import smap

        return smap.method(I, self_, name, args, kwargs)
    if kind == "sset":
        from . import smap

        return smap.sset_method(I, self_, name, args, kwargs)
    if kind == "slist":
        from . import smap as _sm

        return _sm.slist_method(I, self_, name, args, kwargs)
    if kind == "scoll":
        from . import smap

        return smap.coll_method(I, self_, name, args, kwargs)
    if kind == "native-mutable":
        return native_mutable_method(I, self_, name, args, kwargs)
    raise Unsupported(f"method model {key}")


def bytes_method(I, b, name, args, kwargs):
    t = b.t
    if name == "hex":
        return Opaque(z3.Function("hex", ByteSeq, OpaqueSort)(t), "str")
    if name in ("extend", "append", "clear", "pop") and not b.mutable:
        raise PyRaise(mk_exc(AttributeError, f"'bytes' object has no attribute '{name}'"))
    if name == "extend":
        (v,) = args
        if isinstance(v, (list, tuple)):
            v = b_bytes(I, [v], {})
        b.t = z3.simplify(z3.Concat(t, bytes_term(v)))
        return None
    if name == "append":
        (v,) = args
        x = int_term(v)
        if not I.ctx.branch(z3.And(x >= 0, x < 256)):
            raise PyRaise(mk_exc(ValueError, "byte must be in range(0, 256)"))
        b.t = z3.simplify(z3.Concat(t, z3.Unit(z3.Int2BV(x, 8))))
        return None
    if name == "clear":
        b.t = z3.Empty(ByteSeq)
        return None
    if name == "pop":
        n = z3.Length(t)
        idx = args[0] if args else -1
        i = I.norm_index(idx, n)
        if not I.ctx.branch(z3.And(i >= 0, i < n)):
            raise PyRaise(mk_exc(IndexError, "pop index out of range"))
        val = SInt(bv2int(t[i]))
        b.t = z3.simplify(z3.Concat(z3.SubSeq(t, 0, i), z3.SubSeq(t, i + 1, n - i - 1)))
        return val
    if name == "partition":
        (sep,) = args
        st = bytes_term(sep)
        idx = z3.IndexOf(t, st, 0)
        n = z3.Length(t)
        ls = z3.Length(st)
        found = idx >= 0
        mut = b.mutable
        before = SBytes(z3.If(found, z3.SubSeq(t, 0, idx), t), mut)
        mid = SBytes(z3.If(found, st, z3.Empty(ByteSeq)), mut)
        after = SBytes(z3.If(found, z3.SubSeq(t, idx + ls, n - idx - ls), z3.Empty(ByteSeq)), mut)
        return (before, mid, after)
    if name in ("startswith", "endswith"):
        (p,) = args
        ps = p if isinstance(p, tuple) else (p,)
        fs = [(z3.PrefixOf if name == "startswith" else z3.SuffixOf)(bytes_term(x), t) for x in ps]
        return SBool(_or(fs))
    if name == "serialize":
        return SBytes(t)
    if name == "index" or name == "find":
        (sub,) = args
        st = bytes_term(sub) if is_byteslike(sub) else z3.Unit(z3.Int2BV(int_term(sub), 8))
        idx = z3.IndexOf(t, st, 0)
        if name == "index" and not I.ctx.branch(idx >= 0):
            raise PyRaise(mk_exc(ValueError, "subsection not found"))
        return SInt(idx)
    if name == "copy":
        return SBytes(t, b.mutable)
    raise Unsupported(f"bytes.{name}")


def int_method(I, v, name, args, kwargs):
    t = v.t
    if name == "to_bytes":
        length = args[0] if args else kwargs.get("length", 1)
        order = args[1] if len(args) > 1 else kwargs.get("byteorder", "big")
        if isinstance(length, Sym):
            raise Unsupported("to_bytes with symbolic length")
        w = 8 * length
        if not I.fmode and not I.ctx.branch(z3.And(t >= 0, t < (1 << w))):
            raise PyRaise(mk_exc(OverflowError, "int too big to convert"))
        # byte k (little endian) is (t div 256^k) mod 256: kept arithmetic so that specifications written
        # with // and % meet it syntactically
        units = [z3.Unit(z3.Int2BV(z3.simplify((t / (256 ** k)) % 256), 8)) for k in range(length)]
        if order == "big":
            units.reverse()
        return SBytes(z3.simplify(z3.Concat(*units)) if len(units) > 1 else units[0])
    if name == "serialize":
        cls = getattr(v, "cls", None)
        if cls is None or getattr(cls, "_size", None) is None:
            raise Unsupported("serialize of untyped symbolic int")
        size = cls._size
        if not getattr(cls, "_signed", False):
            # unsigned: byte k is (t div 256^k) mod 256 -- kept arithmetic so that layouts written with
            # // and % meet it syntactically
            units = [z3.Unit(z3.Int2BV(z3.simplify((t / (256 ** k)) % 256), 8)) for k in range(size)]
        else:
            x = z3.Int2BV(t, 8 * size)  # two's complement
            units = [z3.Unit(z3.Extract(8 * k + 7, 8 * k, x)) for k in range(size)]
        if getattr(cls, "_byteorder", "little") == "big":
            units.reverse()
        return SBytes(z3.simplify(z3.Concat(*units)) if len(units) > 1 else units[0])
    if name == "bit_length":
        raise Unsupported("bit_length")
    raise Unsupported(f"int.{name}")


def native_mutable_method(I, obj, name, args, kwargs):
    """Methods of concrete list/dict/set values living in a symbolic run."""
    if name in ("pop", "popitem", "setdefault", "update", "clear", "append", "extend", "insert", "remove", "add", "discard",
                "sort", "reverse", "__setitem__", "__delitem__"):
        from . import modstate

        owner = modstate.touch(obj)
        if owner:
            I.ctx.assumptions_used.add(f"record:module-level state written by the code under analysis: {owner} (restored after every path)")
    if isinstance(obj, dict):
        if name == "get":
            key = args[0]
            default = args[1] if len(args) > 1 else None
            if isinstance(key, (Sym, SObj)) or _has_sym(key):
                cases = [(I.eq(key, k), v) for k, v in obj.items()]
                cases = [(c, v) for c, v in cases if c is not False]
                for c, v in cases:
                    if c is True:
                        return v
                return I.merge_cases([(_z(c), v) for c, v in cases], default=default)
            return obj.get(key, default)
        if name == "pop":
            key = args[0]
            if isinstance(key, (Sym, SObj)) or _has_sym(key):
                cases = [(I.eq(key, k), k) for k in obj.keys()]
                cases = [(c, k) for c, k in cases if c is not False]
                conds = [_z(c) for c, _ in cases] + [z3.Not(_z(_or([c for c, _ in cases])))]
                k = I.ctx.choose_feasible(conds)
                if k < len(cases):
                    return obj.pop(cases[k][1])
                if len(args) > 1:
                    return args[1]
                raise PyRaise(mk_exc(KeyError, key))
            try:
                return obj.pop(*args)
            except KeyError as e:
                raise PyRaise(e)
        if name == "keys":
            return obj.keys()  # keys of a concrete-spine dict are concrete: the real view (set algebra works)
        if name in ("items", "values"):
            return list(getattr(obj, name)())
        if name in ("setdefault", "update", "clear", "copy"):
            if _has_sym(args[:1]) and name == "setdefault":
                raise Unsupported("setdefault with symbolic key")
            return getattr(obj, name)(*args, **kwargs)
    if isinstance(obj, list):
        if name in ("append", "extend", "clear", "copy", "insert", "reverse"):
            return getattr(obj, name)(*args, **kwargs)
        if name == "remove":
            (x,) = args
            for i, e in enumerate(obj):
                if I.truth(I.as_bool_value(I.eq(e, x))):
                    del obj[i]
                    return None
            raise PyRaise(mk_exc(ValueError, "list.remove(x): x not in list"))
        if name == "pop":
            try:
                return obj.pop(*args)
            except IndexError as e:
                raise PyRaise(e)
        if name == "index":
            (x,) = args
            for i, e in enumerate(obj):
                if I.truth(I.as_bool_value(I.eq(e, x))):
                    return i
            raise PyRaise(mk_exc(ValueError, "not in list"))
    if isinstance(obj, set):
        if name in ("add", "discard", "remove", "clear", "copy", "update"):
            if _has_sym(args):
                raise Unsupported("set method with symbolic element on concrete set")
            try:
                return getattr(obj, name)(*args)
            except KeyError as e:
                raise PyRaise(e)
        if name == "pop":
            if not obj:
                raise PyRaise(mk_exc(KeyError, "pop from an empty set"))
            items = sorted(obj, key=repr)
            k = I.ctx.choose(len(items))
            obj.discard(items[k])
            return items[k]
    if isinstance(obj, bytearray):
        # a concrete bytearray inside a symbolic run is promoted on mutation by symbolic data
        if _has_sym(args):
            raise Unsupported("concrete bytearray mutated with symbolic data")
        try:
            return getattr(obj, name)(*args, **kwargs)
        except (IndexError, ValueError) as e:
            raise PyRaise(e)
    raise Unsupported(f"{type(obj).__name__}.{name}")
