"""Mutable containers that belong to the live modules of the repository (module-level dicts / lists / sets, class
attributes): code under analysis that writes to one of them (a module-level cache, a registry) writes to the *real*
object of this process.  Every path of the exploration must start from the state the import left behind, so the first
write of a path saves a copy and the end of the path puts it back.  Within one path the writes are kept: a lemma that
makes two calls in a row sees what the first call left in such a container, exactly as the running program would."""
import sys

_owned = None
_saved = {}


def _owned_ids():
    global _owned
    if _owned is None:
        _owned = {}
        for name, mod in list(sys.modules.items()):
            if not (name == "bellows" or name.startswith("bellows.")) or mod is None:
                continue
            for k, v in list(vars(mod).items()):
                if isinstance(v, (dict, list, set, bytearray)):
                    _owned[id(v)] = f"{name}.{k}"
                elif isinstance(v, type) and getattr(v, "__module__", None) == name:
                    for ck, cv in list(vars(v).items()):
                        if isinstance(cv, (dict, list, set, bytearray)):
                            _owned[id(cv)] = f"{name}.{v.__qualname__}.{ck}"
    return _owned


def begin_path():
    _saved.clear()


def touch(obj):
    """called before a concrete container is mutated by code under analysis"""
    if not isinstance(obj, (dict, list, set, bytearray)):
        return None
    name = _owned_ids().get(id(obj))
    if name is not None and id(obj) not in _saved:
        _saved[id(obj)] = (obj, type(obj)(obj))
    return name


def end_path():
    for obj, copy in _saved.values():
        if isinstance(obj, dict):
            obj.clear()
            obj.update(copy)
        elif isinstance(obj, set):
            obj.clear()
            obj.update(copy)
        else:
            obj[:] = copy
    _saved.clear()
