"""Native replay: run the real function (CPython, no interpreter) on concrete inputs built from a
solver model or a sampler, capture effects through stub collaborators, and judge the outcome with
the same contract clauses evaluated on concrete values (DESIGN 2.9)."""
from __future__ import annotations

import asyncio
import copy
import importlib
import json
import traceback
import types

from . import source
from .contracts import REGISTRY, Contract, eval_clause
from .ctx import Ctx
from .interp import Interp
from .values import ExtClass


def _resolve(path):
    modname, parts = source.split_qualname(path)
    obj = importlib.import_module(modname)
    for p in parts:
        obj = getattr(obj, p)
    return obj


class Recorder:
    def __init__(self):
        self.fx = []
        self.depth = 0  # >0 while inside a contracted callee: its own effects are not the caller's

    def add(self, rec):
        if self.depth == 0:
            self.fx.append(rec)


class Stub:
    """Native stand-in of an external collaborator; effect methods record into the shared fx."""

    def __init__(self, ext: ExtClass, rec: Recorder, fields):
        object.__setattr__(self, "_ext", ext)
        object.__setattr__(self, "_rec", rec)
        for k, v in fields.items():
            object.__setattr__(self, k, v)

    def __getattr__(self, name):
        ext = object.__getattribute__(self, "_ext")
        m = ext.methods.get(name)
        if m is None and getattr(ext, "dynamic", None) is not None and not name.startswith("__"):
            m = ext.dynamic(name)
        if m is None:
            raise AttributeError(f"stub {ext.__name__} has no method {name}")
        rec = object.__getattribute__(self, "_rec")

        def call(*args, **kwargs):
            if getattr(m, "native", None) is not None:
                return m.native(self, rec, *args, **kwargs)
            if getattr(m, "raises", None) and not getattr(m, "is_async", False):
                # the model's choice for this call of a collaborator method that may fail
                full = f"{ext.__name__}.{name}"
                calls = CURRENT.setdefault("sync_calls", {})
                nth = calls.get(full, 0)
                calls[full] = nth + 1
                exc = (CURRENT.get("sync_raises") or {}).get((full, nth))
                if exc is not None:
                    rec.add((f"{full}!raise", self, tuple(args), dict(kwargs)))
                    raise exc
            if m.effect:
                _native_at_effect(f"{ext.__name__}.{name}", args, kwargs)
                rec.add((f"{ext.__name__}.{name}", self, tuple(args), dict(kwargs)))
            for k_, v_ in getattr(m, "sets", {}).items():
                object.__setattr__(self, k_, v_)
            rf = getattr(m, "returns_field", None)
            if rf is not None:
                return getattr(self, rf)
            return None

        if getattr(m, "is_async", False):
            async def acall(*args, **kwargs):
                rec.add(("call", f"{ext.__name__}.{name}", tuple(args), dict(kwargs)))
                scripted = await _park(f"{ext.__name__}.{name}")
                r = call(*args, **kwargs)
                return r if scripted is _NOVALUE else scripted

            return acall
        return call

    async def __aenter__(self):
        return await self.__getattr__("__aenter__")()

    async def __aexit__(self, *exc):
        self.__getattr__("__aexit__")(*exc)
        return False

    def __call__(self, *args, **kwargs):
        return self.__getattr__("__call__")(*args, **kwargs)

    def __repr__(self):
        return f"<stub {object.__getattribute__(self, '_ext').__name__}>"


class _Opq(str):
    """Native stand-in of a value the analysis knows nothing about: a distinct token (a string, so that equality,
    hashing and formatting behave) whose entries under string keys are tokens again (an opaque mapping such as the
    validated configuration; the engine's model of `m["key"]` on an opaque value)."""

    def __getitem__(self, k):
        if isinstance(k, str):
            return _Opq(f"{str(self)}[{k}]")
        return str.__getitem__(self, k)


_NOVALUE = object()
CURRENT = {"controller": None, "observe": None, "rec": None, "at": None}


def _native_at_effect(name, args, kwargs):
    """`at_effect` clauses of the contract under replay, judged natively at the moment the call is made (state and
    effects so far), like the engine checks them at the moment it meets the call."""
    at = CURRENT.get("at")
    rec = CURRENT.get("rec")
    if at is None or rec is None or rec.depth != 0:
        return
    con = at["con"]
    for ename, cid, lam in getattr(con, "effect_asserts", []):
        if ename != name:
            continue
        full = f"{con.qualname}::at[{name}].{cid}"
        try:
            ctx = Ctx()
            I = Interp(ctx, REGISTRY)
            I.native = True
            env = {**at["bindings"], "fx": list(rec.fx), "eargs": tuple(args), "ekwargs": dict(kwargs)}
            code = lam.__code__
            names = code.co_varnames[: code.co_argcount + code.co_kwonlyargcount]
            v = eval_clause(I, lam, {n: env[n] for n in names if n in env}, native_old=at["old"])
            at["out"].append((full, bool(v), "judged natively at the moment of the call"))
        except Exception as e:  # a clause that cannot be evaluated natively is no verdict
            at["out"].append((full, None, f"clause evaluation failed: {e!r}"))


async def _park(kind, default=None):
    """Suspension point of a stub: parks on a future the replay controller completes per script."""
    ctl = CURRENT["controller"]
    if ctl is None:
        return _NOVALUE if default is None else default()
    ctl.loop._pyvc_internal = True
    try:
        fut = ctl.loop.create_future()
    finally:
        ctl.loop._pyvc_internal = False
    fut._pyvc_kind = kind
    fut._pyvc_default = default
    v = await fut
    return _NOVALUE if v is True else v


def _native_observe(where, args=()):
    lam, rec, bindings = CURRENT["observe"] or (None, None, None)
    if lam is None:
        return
    code = lam.__code__
    names = code.co_varnames[: code.co_argcount]
    try:
        d = lam(*[bindings[n] for n in names])
    except Exception as e:  # pragma: no cover
        d = {"__error__": repr(e)}
    rec.add(("observe", where, d, tuple(args)))


class Builder:
    """JSON (concretize.py format) -> native objects."""

    def __init__(self, rec: Recorder, loop=None):
        self.rec = rec
        self.refs = {}
        self.loop = loop
        self.ext_classes = {}

    def ext(self, name):
        if name in self.ext_classes:
            return self.ext_classes[name]
        for e in EXT_CLASSES:
            if e.__name__ == name:
                return e
        raise KeyError(f"unknown external class {name}")

    def build(self, j):
        if isinstance(j, dict):
            if "__ref__" in j:
                return self.refs[j["__ref__"]]
            if "__int__" in j:
                cls = _resolve(j["cls"]) if "cls" in j else int
                return cls(j["__int__"])
            if "__enum__" in j:
                cls = _resolve(j["__enum__"])
                v = j["value"]
                if isinstance(v, str):
                    return cls[v]
                if not issubclass(cls, int):
                    return list(cls.__members__.values())[v]
                return cls(v)
            if "__bytes__" in j:
                b = bytes.fromhex(j["__bytes__"])
                return bytearray(b) if j.get("mutable") else b
            if "__real__" in j:
                return j["__real__"][0] / j["__real__"][1]
            if "__set__" in j:
                return set(j["__set__"])
            if "__tuple__" in j:
                return tuple(self.build(x) for x in j["__tuple__"])
            if "__dict__" in j:
                return {self.build(k): self.build(v) for k, v in j["__dict__"]}
            if "__class__" in j:
                return _resolve(j["__class__"])
            if "__opaque__" in j:
                return _Opq(f"<{j['kind']}:{j['__opaque__']}>")
            if "__future__" in j:
                loop = self.loop or asyncio.new_event_loop()
                self.loop = loop
                fut = loop.create_future()
                st = j["__future__"]
                if st == 1:
                    fut.set_result(self.build(j.get("result")))
                elif st == 2:
                    fut.set_exception(RuntimeError("pre-existing exception"))
                    fut.exception()  # mark retrieved
                elif st == 3:
                    fut.cancel()
                self.refs[j["id"]] = fut
                return fut
            if "__obj__" in j:
                cls = _resolve(j["__obj__"])
                if isinstance(cls, type) and issubclass(cls, BaseException):
                    # exception objects cannot be made by object.__new__; their constructor arguments are `args`
                    a = self.build(j["fields"].get("args", ())) if "args" in j["fields"] else ()
                    try:
                        obj = cls(*a)
                    except TypeError:
                        obj = cls.__new__(cls)
                    self.refs[j["id"]] = obj
                    for k, v in j["fields"].items():
                        if k != "args":
                            object.__setattr__(obj, k, self.build(v))
                    return obj
                obj = object.__new__(cls)
                self.refs[j["id"]] = obj
                for k, v in j["fields"].items():
                    object.__setattr__(obj, k, self.build(v))
                return obj
            if "__ext__" in j:
                ext = self.ext(j["__ext__"])
                stub = Stub(ext, self.rec, {})
                self.refs[j["id"]] = stub
                for k, v in j["fields"].items():
                    object.__setattr__(stub, k, self.build(v))
                return stub
            if "__native__" in j:
                raise ValueError(f"cannot rebuild native value {j['__native__']}")
            return {k: self.build(v) for k, v in j.items()}
        if isinstance(j, list):
            return [self.build(x) for x in j]
        return j


EXT_CLASSES = []


def register_ext(ext):
    EXT_CLASSES.append(ext)
    return ext


def _deepcopy_state(bindings):
    memo = {}
    return {k: copy_state(v, memo) for k, v in bindings.items()}


def copy_state(v, memo, depth=0):
    """Explicit pre-state copier (deepcopy cannot handle futures / loops)."""
    if id(v) in memo:
        return memo[id(v)]
    if depth > 12:
        return v
    if isinstance(v, asyncio.Future):
        c = FutureView(v)
        memo[id(v)] = c
        return c
    if isinstance(v, Stub):
        c = Stub(object.__getattribute__(v, "_ext"), object.__getattribute__(v, "_rec"), {})
        memo[id(v)] = c
        for k, x in vars(v).items():
            if k not in ("_ext", "_rec"):
                object.__setattr__(c, k, copy_state(x, memo, depth + 1))
        return c
    if isinstance(v, dict):
        c = type(v)() if type(v) is dict else {}
        memo[id(v)] = c
        for k, x in v.items():
            c[k] = copy_state(x, memo, depth + 1)
        if type(v) is not dict:
            import collections

            if isinstance(v, collections.defaultdict):
                d = collections.defaultdict(v.default_factory)
                d.update(c)
                memo[id(v)] = d
                return d
        return c
    if isinstance(v, list):
        c = []
        memo[id(v)] = c
        c.extend(copy_state(x, memo, depth + 1) for x in v)
        return c
    if isinstance(v, tuple):
        return tuple(copy_state(x, memo, depth + 1) for x in v)
    if isinstance(v, set):
        return set(v)
    if isinstance(v, bytearray):
        return bytearray(v)
    mod = type(v).__module__ or ""
    if (mod.startswith("bellows") or mod.startswith("zigpy")) and hasattr(v, "__dict__") and not isinstance(v, type) \
            and not isinstance(v, (int, bytes, str)):
        import dataclasses as _dc

        if _dc.is_dataclass(v) and getattr(type(v), "__dataclass_params__").frozen:
            return v
        try:
            c = object.__new__(type(v))
        except TypeError:
            return v
        memo[id(v)] = c
        for k, x in vars(v).items():
            try:
                object.__setattr__(c, k, copy_state(x, memo, depth + 1))
            except Exception:
                pass
        return c
    return v


class FutureView:
    def __init__(self, fut):
        self._done = fut.done()
        self._cancelled = fut.cancelled()
        self._fut = fut
        self._exc = fut.exception() if self._done and not self._cancelled else None
        self._res = fut.result() if self._done and not self._cancelled and self._exc is None else None

    # a view stands for the future it was taken of: membership / equality tests in clauses (`f in old(listeners)`)
    def __eq__(self, other):
        if isinstance(other, FutureView):
            return self._fut is other._fut
        return self._fut is other

    def __hash__(self):
        return id(self._fut)

    def state(self):
        if not self._done:
            return 0
        if self._cancelled:
            return 3
        return 2 if self._exc is not None else 1

    def result_value(self):
        return self._res

    def exc_value(self):
        return self._exc

    def done(self):
        return self._done

    def cancelled(self):
        return self._cancelled


class wrap_callees:
    """While replaying, contracted callees also record an abstract call record, so clauses phrased
    over call records (modular view) can be judged natively."""

    def __init__(self, rec, target):
        self.rec, self.target, self.saved = rec, target, []

    def __enter__(self):
        for qn, con in REGISTRY.contracts.items():
            if qn == self.target or con.inline:
                continue
            try:
                modname, parts = source.split_qualname(qn)
                if len(parts) != 2:
                    continue
                cls = getattr(importlib.import_module(modname), parts[0])
                raw = cls.__dict__.get(parts[1])
            except Exception:
                continue
            if not isinstance(raw, types.FunctionType):
                continue
            name = con.effect_name or qn
            rec = self.rec

            def make(raw, name, qn=qn, con=con):
                if asyncio.iscoroutinefunction(raw):
                    async def w(self_, *a, **k):
                        # modular replay: the callee behaves as the model chose within its contract
                        _native_observe("call:" + name, a)
                        _native_at_effect(name, a, k)
                        rec.add(("call", name, tuple(a), dict(k)))
                        if CURRENT["controller"] is None:
                            rec.depth += 1
                            try:
                                r = await raw(self_, *a, **k)
                            finally:
                                rec.depth -= 1
                        else:
                            try:
                                dflt = None
                                if getattr(con, "native_default", None) is not None:
                                    dflt = (lambda s_=self_, a_=a, k_=k, c_=con: c_.native_default(s_, a_, k_))
                                r = await _park(qn, dflt)
                            except BaseException:
                                rec.add(("raise@" + qn, None))
                                raise
                            r = None if r is _NOVALUE else r
                        rec.add((name, self_, tuple(a), dict(k)))
                        return r
                else:
                    def w(self_, *a, **k):
                        _native_observe("call:" + name, a)
                        _native_at_effect(name, a, k)
                        rec.add(("call", name, tuple(a), dict(k)))
                        rec.depth += 1
                        try:
                            r = raw(self_, *a, **k)
                        finally:
                            rec.depth -= 1
                        rec.add((name, self_, tuple(a), dict(k)))
                        rec.add(("ret", name, r))
                        return r
                w.__wrapped_raw__ = raw
                return w

            self.saved.append((cls, parts[1], raw))
            setattr(cls, parts[1], make(raw, name))
        return self

    def __exit__(self, *exc):
        for cls, name, raw in self.saved:
            setattr(cls, name, raw)
        return False


def judge(con: Contract, bindings, old_bindings, result, raised, fx, only=None):
    """Evaluate the contract's clauses natively.  Returns list of (obligation name, ok, detail)."""
    ctx = Ctx()
    I = Interp(ctx, REGISTRY)
    I.native = True
    out = []
    b = dict(bindings)
    b["result"], b["raised"], b["fx"] = result, raised, fx
    qn = con.qualname
    exit_kind = "return" if raised is None else "raise"

    def ev(name, lam, use_old_as_state=False):
        full = f"{qn}::{name}"
        if only is not None and full not in only:
            return
        try:
            env = dict(old_bindings) if use_old_as_state else b
            if use_old_as_state:
                env = {**b, **old_bindings}
            v = eval_clause(I, lam, env, native_old=old_bindings)
            out.append((full, bool(v), None))
        except Exception as e:
            from .interp import PyRaise as _PR

            inner = e.exc if isinstance(e, _PR) else e
            if isinstance(inner, (IndexError, KeyError)) and not use_old_as_state:
                # the clause speaks about a record of the run that does not exist (e.g. "the second command")
                out.append((full, False, f"clause refers to something absent from this run: {inner!r}"))
            else:
                out.append((full, None, f"clause evaluation failed: {e!r}"))

    if exit_kind == "raise":
        matched = [r for r in con.raises_ if isinstance(raised, r.exc_cls)]
        if not matched:
            full = f"{qn}::exc.undeclared:{type(raised).__name__}"
            if only is None or full in only:
                out.append((full, False, repr(raised)))
        for r in matched:
            if r.when is not None:
                ev(f"raises.{r.cid}.sound", r.when, use_old_as_state=True)
    else:
        for r in con.raises_:
            if r.when is not None:
                full = f"{qn}::raises.{r.cid}.complete"
                if only is not None and full not in only:
                    continue
                try:
                    v = eval_clause(I, r.when, {**b, **old_bindings}, native_old=old_bindings)
                    out.append((full, not bool(v), None))
                except Exception as e:
                    out.append((full, None, f"clause evaluation failed: {e!r}"))
    for cid, lam, on in con.ensures_:
        if on == "any" or on == exit_kind:
            ev(cid, lam)
    for (lk, cid), lam in getattr(con, "native_witness", {}).items():
        full = f"{qn}::loop{lk}.at_entry.{cid}"
        if only is not None and full not in only:
            continue
        try:
            code = lam.__code__
            names = code.co_varnames[: code.co_argcount]
            out.append((full, bool(lam(*[b[n] for n in names])), "judged on the effects of the whole native run"))
        except Exception as e:
            out.append((full, None, f"witness predicate failed: {e!r}"))
    if con.self_spec is not None and con.check_inv and "self" in bindings:
        for iid, lam in con.self_spec.invariants:
            ev(f"inv.{iid}", lam)
    if con.modifies_ is not None and "self" in bindings:
        allowed = {p.split(".", 1)[1] for p in con.modifies_ if p.startswith("self.")}
        new, old = bindings["self"], old_bindings["self"]
        for fld in sorted(set(vars(old)) | set(vars(new))):
            if fld in allowed or fld + ".*" in allowed:
                continue
            full = f"{qn}::frame.{fld}"
            if only is not None and full not in only:
                continue
            a, c = getattr(old, fld, _MISSING), getattr(new, fld, _MISSING)
            out.append((full, _same(a, c), None))
    return out


_MISSING = object()


def _same(a, b):
    if isinstance(a, FutureView):
        return a._fut is b
    if isinstance(a, Stub) or isinstance(b, Stub):
        return isinstance(a, Stub) and isinstance(b, Stub) and vars(a).keys() == vars(b).keys() and all(
            _same(getattr(a, k), getattr(b, k)) for k in vars(a) if k not in ("_ext", "_rec"))
    try:
        return bool(a == b)
    except Exception:
        return a is b


def run_native_repeated(con: Contract, inputs, only=None, awaits=None):
    """Short native history for a counter-model that depends on attributes the contract's state does not declare: the
    same call is made twice on one object.  The first call starts from the constructor's values of those attributes
    (declared state as in the counter-model); the second starts from the counter-model's declared state again and from
    whatever the *real code* left in the undeclared attributes -- so their values are reached, not invented.  Judged
    on the second call.  None when the constructor's values are not literals (nothing can be said)."""
    spec = con.self_spec
    if spec is None or not isinstance(inputs.get("self"), dict) or "fields" not in inputs["self"]:
        return None
    aux, init = spec.aux_fields(), spec.aux_init()
    if not aux or any(k not in init for k in aux if k in inputs["self"]["fields"]):
        return None

    def start_values():
        out = {}
        for k, (how, v) in init.items():
            out[k] = v if how == "const" else {"set": set, "dict": dict, "list": list}[v]()
        return out

    first = run_native(con, inputs, only=only, awaits=awaits, aux_override=start_values())
    if "error" in first:
        return {"error": "first call of the history: " + first["error"]}
    carried = first.get("__aux_after__") or {}
    second = run_native(con, inputs, only=only, awaits=awaits, aux_override=carried)
    if "error" not in second:
        second["mode"] = ("history of two identical calls on one object: undeclared attributes start at the constructor's "
                          f"values {sorted(init)} and are carried from the first call to the second by the real code; "
                          + second.get("mode", ""))
        second["first_call"] = {"outcome": first.get("outcome"), "fx": first.get("fx")}
    second.pop("__aux_after__", None)
    return second


def run_native(con: Contract, inputs, only=None, awaits=None, aux_override=None):
    """inputs: concretized bindings (JSON form).  Returns dict(outcome, judgements, fx)."""
    rec = Recorder()
    builder = Builder(rec)
    inputs = dict(inputs)
    sync_outcomes = inputs.pop("__sync_outcomes__", None) or []
    bindings = {k: builder.build(v) for k, v in inputs.items()}
    if aux_override is not None and bindings.get("self") is not None:
        for k_, v_ in aux_override.items():
            try:
                object.__setattr__(bindings["self"], k_, v_)
            except Exception:
                pass
    CURRENT["sync_raises"] = {(r["name"], r["nth"]): builder.build(r["exc"]) for r in sync_outcomes}
    CURRENT["sync_calls"] = {}
    fn = _resolve(con.qualname)
    raw = fn
    old_bindings = _deepcopy_state(bindings)
    # FutureView for futures inside old state
    result, raised = None, None
    import inspect

    try:
        real_params = set(inspect.signature(raw).parameters)
    except (TypeError, ValueError):
        real_params = None
    args = {k: v for k, v in bindings.items() if real_params is None or k in real_params or k == "self"}
    self_obj = args.pop("self", None)
    cls_arg = args.pop("cls", None) if isinstance(fn, types.MethodType) else None
    from . import vloop

    CURRENT["rec"] = rec
    CURRENT["observe"] = (con.observe_, rec, bindings) if con.observe_ is not None else None
    CURRENT["at"] = {"con": con, "bindings": bindings, "old": old_bindings, "out": []}
    import contextlib

    nctx = con.native_context(bindings, rec) if getattr(con, "native_context", None) is not None else contextlib.nullcontext()
    try:
        with wrap_callees(rec, con.qualname), patched_timeouts(rec), nctx:
            if self_obj is not None:
                f = getattr(type(self_obj), con.qualname.split(".")[-1])
                if isinstance(f, property):
                    result = f.fget(self_obj)
                else:
                    result = _invoke(f, (self_obj,), args, builder, awaits, self_obj)
            else:
                result = _invoke(fn, (), args, builder, awaits, None)
    except (vloop.HarnessMismatch, HarnessError) as e:
        return {"error": f"replay harness could not realise the counterexample: {e}",
                "replay_log": getattr(builder, "replay_log", None)}
    except BaseException as e:  # noqa: the object program may raise anything
        if isinstance(e, (KeyboardInterrupt, SystemExit)):
            raise
        raised = e
    finally:
        CURRENT["controller"] = None
        CURRENT["observe"] = None
    judgements = judge(con, bindings, old_bindings, result, raised, rec.fx, only=only)
    aux_after = None
    if aux_override is not None and con.self_spec is not None and bindings.get("self") is not None:
        aux_after = {k_: getattr(bindings["self"], k_) for k_ in con.self_spec.aux_fields() if hasattr(bindings["self"], k_)}
    at_out = (CURRENT.get("at") or {}).get("out", [])
    CURRENT["at"] = None
    seen_at = set()
    for full, ok, d in at_out:
        if only is not None and full not in only:
            continue
        # several calls of one effect: the clause must hold at each, so one failure decides
        prev = [j for j in judgements if j[0] == full]
        if prev:
            if ok is False and prev[0][1] is not False:
                judgements[judgements.index(prev[0])] = (full, False, d)
            continue
        judgements.append((full, ok, d))
    return {
        "outcome": "return" if raised is None else f"raise:{type(raised).__name__}: {raised!r}",
        "result": repr(result)[:300],
        "fx": [repr(r)[:300] for r in rec.fx][:60],
        "judgements": [(n, ok, d) for n, ok, d in judgements],
        "replay_log": getattr(builder, "replay_log", None),
        **({"__aux_after__": aux_after} if aux_after is not None else {}),
        "mode": ("coroutine on a virtual-clock loop; interference realised by state injection; contracted "
                 "callees and external collaborators stubbed per the model") if awaits else "direct call",
    }


class HarnessError(Exception):
    pass


def _invoke(f, pos, kwargs, builder, awaits, self_obj):
    if asyncio.iscoroutinefunction(f):
        from . import vloop

        try:
            coro = f(*pos, **kwargs)
        except TypeError as e:
            raise HarnessError(f"cannot call: {e!r}")
        return vloop.run_coroutine(coro, builder, awaits, self_obj)
    return f(*pos, **kwargs)


class patched_timeouts:
    """asyncio.timeout as imported by the repo modules records ("timeout.armed", None, (t,), {})."""

    MODULES = ("bellows.ash", "bellows.uart", "bellows.ezsp", "bellows.ezsp.protocol", "bellows.zigbee.application",
               "bellows.multicast")

    def __init__(self, rec):
        self.rec, self.saved = rec, []

    def __enter__(self):
        rec = self.rec
        for mn in self.MODULES:
            try:
                mod = importlib.import_module(mn)
            except Exception:
                continue
            orig = getattr(mod, "asyncio_timeout", None)
            if orig is None:
                continue

            def wrapper(t, _orig=orig):
                rec.add(("timeout.armed", None, (t,), {}))
                return _orig(t)

            self.saved.append((mod, orig))
            mod.asyncio_timeout = wrapper
        return self

    def __exit__(self, *exc):
        for mod, orig in self.saved:
            mod.asyncio_timeout = orig
        return False


