"""Engine self-validation (DESIGN 2.10): CPython differential of the value model.

Every function of contracts/selftest_corpus.py is run natively on generated concrete inputs and through the PyVC
interpreter on *symbolic* inputs pinned to the same values (so terms, the solver-decided branches, the sequence /
integer / real encodings and the exception flow are exercised, not CPython).  The native outcome becomes the contract:
`result == <what CPython returned>` or `raises <the class CPython raised>`.  Anything but "every obligation proved" is a
disagreement: the check exits 3 (checker broken), never 0 and never a VIOLATION."""
from __future__ import annotations

import inspect
import random

from .contracts import Contract, T, Ty

INT_POOL = [-9, -8, -3, -2, -1, 0, 1, 2, 3, 4, 5, 7, 8, 9, 15, 16, 17, 0x7D, 0x7E, 0xFF, 0x100, 0x1234, 0xFFFF, 3200, 400, 1601]
IDX_POOL = [-7, -4, -3, -2, -1, 0, 1, 2, 3, 4, 5, 9]
BYTE_ALPHABET = [0x00, 0x01, 0x11, 0x13, 0x18, 0x1A, 0x20, 0x5E, 0x7D, 0x7E, 0xFF, 0x42]

KINDS = {"d": "bytes", "e": "bytes", "retx": "bool", "i": "index", "j": "index"}


class PinnedT(Ty):
    """a symbolic value of the base type, constrained to equal one concrete value"""

    def __init__(self, base, value):
        self.base, self.value = base, value

    def fresh(self, I, name):
        from .interp import _z

        v = self.base.fresh(I, name)
        f = I.eq(v, self.value)  # (eq returns a formula: z3 Bool or python bool)
        I.ctx.assume(_z(f) if not isinstance(f, bool) else f)
        return v


def _gen(kind, rnd):
    if kind == "bytes":
        return bytes(rnd.choice(BYTE_ALPHABET) for _ in range(rnd.choice([0, 1, 2, 3, 4, 6])))
    if kind == "bool":
        return rnd.random() < 0.5
    if kind == "index":
        return rnd.choice(IDX_POOL)
    if kind == "nat":
        return rnd.choice([v for v in INT_POOL if v >= 0])
    return rnd.choice(INT_POOL)


class LiteralT(Ty):
    """the concrete value wrapped as a term of the symbolic value model (decided by the simplifier, not the solver)"""

    def __init__(self, kind, value):
        self.kind, self.value = kind, value

    def fresh(self, I, name):
        import z3

        from .values import SBool, SBytes, SInt

        if self.kind == "bytes":
            from .interp import bytes_term

            return SBytes(bytes_term(self.value))
        if self.kind == "bool":
            return SBool(z3.BoolVal(self.value))
        return SInt(z3.IntVal(self.value))


def _ty(kind, value, mode="pinned"):
    if mode == "literal":
        return LiteralT(kind, value)
    base = {"bytes": T.bytes, "bool": T.bool}.get(kind, T.int)
    return PinnedT(base, value)


def run(seed=0, inputs_per_function=6):
    from . import engine
    from contracts import selftest_corpus as corpus

    rnd = random.Random(seed)
    programs = [(n, f) for n, f in sorted(vars(corpus).items()) if inspect.isfunction(f) and f.__module__ == corpus.__name__]
    agree, unsupported, disagreements, evaluations = 0, {}, [], 0
    for name, fn in programs:
        params = list(inspect.signature(fn).parameters)
        for _ in range(inputs_per_function):
            dom = getattr(corpus, "DOMAINS", {}).get(name, {})
            vals = {p: _gen(dom.get(p, KINDS.get(p, "int")), rnd) for p in params}
            try:
                expected, raised = fn(**vals), None
            except Exception as e:  # noqa: the object program may raise anything
                expected, raised = None, type(e)
            decided = False
            for mode in ("pinned", "literal"):
                con = Contract(f"{corpus.__name__}.{name}", props=["SELFTEST"])
                for p in params:
                    con.arg(p, _ty(KINDS.get(p, "int"), vals[p], mode))
                if raised is None:
                    con.ensures("post.same_result_as_cpython", (lambda exp: (lambda result: result == exp))(expected))
                else:
                    con.raises("same_exception_as_cpython", raised)
                    con.ensures("post.cpython_raised_here", lambda: False)
                rep = engine.verify(con, None).to_dict()
                evaluations += 1
                obs = {k: v["verdict"] for k, v in rep["obligations"].items() if not k.endswith("::__canary__")}
                bad = [k for k, v in obs.items() if v != "proved"]
                if rep["outside_reach"] and not rep["error"]:
                    # a construct outside the supported subset with these (symbolic) inputs: no verdict, not a disagreement
                    unsupported[f"{name}/{mode}"] = rep["outside_reach"][:120]
                    continue
                if rep["error"] or bad or not obs:
                    disagreements.append({"function": name, "mode": mode,
                                          "inputs": {k: (v.hex() if isinstance(v, bytes) else v) for k, v in vals.items()},
                                          "cpython": repr(expected) if raised is None else f"raises {raised.__name__}",
                                          "engine": (rep["error"] or (f"obligations not proved: {bad}" if obs else "no obligation generated (vacuous)"))[-400:]})
                else:
                    agree += 1
                    decided = True
            if not decided and not any(d["function"] == name for d in disagreements):
                unsupported[f"{name}/both"] = "no mode of this input was decidable"
    return {"programs": len(programs), "evaluations": evaluations, "agree": agree, "unsupported": unsupported,
            "disagreements": disagreements[:10], "seed": seed}


if __name__ == "__main__":
    import json
    import sys

    r = run(int(sys.argv[1]) if len(sys.argv) > 1 else 0, int(sys.argv[2]) if len(sys.argv) > 2 else 6)
    print(json.dumps(r, indent=1, default=str))
    sys.exit(0 if not r["disagreements"] else 3)
