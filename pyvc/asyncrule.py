"""Coroutines: atomic segments and the await rule (DESIGN 2.6).  Installed per verification run."""
from __future__ import annotations

from .ctx import Unsupported


def install(I, con, self_obj, bindings):
    I.await_handler = None
