"""Coroutines: atomic segments and the await rule (DESIGN 2.6).  Installed per verification run.

asyncio is cooperative: other callbacks / tasks run only while a coroutine is suspended.  At every
suspension point the rule

  1. asserts the class invariant of `self` (obligation  <qualname>::await.inv.<id>),
  2. havocs the interference frame: every field the ClassSpec lists under `interference` is replaced
     by a fresh value of its type; every asyncio.Future reachable on the path may have completed
     (monotone: a done future keeps its state), every external collaborator's fields are fresh,
  3. assumes the invariant and the class's rely predicates on the new state,
  4. continues once per outcome of the awaited thing: its result, each exception its (assumed or
     proved) contract allows, TimeoutError through an enclosing asyncio.timeout scope, and
     CancelledError (cancellation of the calling task) at every await.

The guarantee side (no other action of the class writes a field outside `interference`) is an
obligation checked by `guarantee_obligations` over the contracts and the live class AST.
"""
from __future__ import annotations

import ast
import asyncio

import z3

from . import values
from .calls import Coro
from .ctx import Infeasible, Unsupported
from .interp import PyRaise, _z, exc_class, mk_exc
from .values import ExtClass, SFuture, SInt, SObj, SOpt, SReal


class ExtAwait:
    """Awaitable returned by calling an async method of an external collaborator."""

    def __init__(self, method, self_obj, args, kwargs):
        self.method, self.self_obj, self.args, self.kwargs = method, self_obj, args, kwargs


class SleepAwait:
    def __init__(self, delay):
        self.delay = delay


class ShieldAwait:
    def __init__(self, inner):
        self.inner = inner


class GatherAwait:
    def __init__(self, aws, kwargs):
        self.aws, self.kwargs = list(aws), dict(kwargs)


class TaskAwait:
    """asyncio.Task wrapping a coroutine of the repo (create_task / create_eager_task)."""

    def __init__(self, coro):
        self.coro = coro


class WaitForAwait:
    def __init__(self, inner, timeout):
        self.inner, self.timeout = inner, timeout


def mk_cancelled(scope=None):
    e = mk_exc(asyncio.CancelledError)
    if scope is not None:
        e.fields["__timeout_scope__"] = scope
    return e


class AwaitCtl:
    def __init__(self, I, con, self_obj, bindings):
        self.I, self.con, self.self_obj, self.bindings = I, con, self_obj, bindings
        self.cancellable = getattr(con, "cancellable", True)

    # ------------------------------------------------------------------
    def handle(self, I, aw, node):
        ctx = I.ctx
        if isinstance(aw, SOpt):
            aw = I.unwrap_opt(aw, "awaitable")
        if isinstance(aw, ShieldAwait):
            # outer cancellation reaches the caller but not the shielded awaitable (assumed contract)
            ctx.assumptions_used.add("external:asyncio.shield")
            if self.cancellable and ctx.choose(2, "shield: outer cancel?") == 1:
                _log(ctx, {"kind": "shield", "outcome": "cancelled"})
                inner = aw.inner.coro if isinstance(aw.inner, TaskAwait) else aw.inner
                ctx.emit("shield.outer_cancel", getattr(inner, "qualname", None), tuple(getattr(inner, "args", None) or ()))
                raise PyRaise(mk_cancelled())
            prev = self.cancellable
            self.cancellable = False
            try:
                return self.handle(I, aw.inner, node)
            finally:
                self.cancellable = prev
        if isinstance(aw, TaskAwait):
            return self.handle(I, aw.coro, node)
        if isinstance(aw, SObj) and getattr(aw.cls, "__name__", "") == "gather_future":
            aw = GatherAwait(aw.fields["aws"], aw.fields["kwargs"])
        if isinstance(aw, GatherAwait):
            # asyncio.gather: the awaitables run CONCURRENTLY.  The engine follows one legal schedule (one after the
            # other, in order) and records that they were concurrent: ("asyncio.gather", None, (n,), kwargs) -- a
            # contract whose proof rests on the operations being sequential must exclude this record
            ctx.emit("asyncio.gather", None, (len(aw.aws),), dict(aw.kwargs))
            results = []
            for a in aw.aws:
                try:
                    results.append(self.handle(I, a, node))
                except PyRaise as pr:
                    from .interp import exc_class

                    if aw.kwargs.get("return_exceptions") and issubclass(exc_class(pr.exc), Exception):
                        results.append(pr.exc)
                        continue
                    raise
            return results
        if isinstance(aw, WaitForAwait):
            from .withs import TimeoutCM, _guarded

            cm = TimeoutCM(aw.timeout)
            cm.enter(I, True)
            out = []
            _guarded(I, lambda: out.append(self.handle(I, aw.inner, node)), lambda exc: cm.exit(I, exc, True))
            return out[0]
        if isinstance(aw, Coro):
            return self.await_coro(I, aw)
        if isinstance(aw, SFuture):
            return self.await_future(I, aw)
        if isinstance(aw, ExtAwait):
            return self.await_ext(I, aw)
        if isinstance(aw, SleepAwait):
            self.suspend(I, "sleep")
            try:
                self.maybe_interrupted(I, "sleep")
            except _Interrupt as it:
                raise PyRaise(it.exc)
            ctx.emit("asyncio.sleep", None, (aw.delay,), {})
            _log(ctx, {"kind": "sleep", "outcome": "return"})
            return None
        raise Unsupported(f"await on {type(aw).__name__}")

    # ------------------------------------------------------------------
    def suspend(self, I, what):
        """Steps 1-3 of the await rule."""
        ctx = I.ctx
        con = self.con
        qn = con.qualname
        so = self.self_obj
        spec = con.self_spec
        if spec is not None and so is not None and con.check_inv:
            for iid, f in spec.invariant_formulas(I, so):
                ctx.check_obligation(f"{qn}::await.inv.{iid}", f)
        for cid, lam in getattr(con, "await_asserts", []):
            from .contracts import eval_clause

            b = dict(self.bindings)
            b["fx"] = list(ctx.fx)
            ctx.check_obligation(f"{qn}::await.{cid}", eval_clause(I, lam, _sel(lam, b), old_view=I.entry_old_view))
        from .snapshot import snapshot as _snapshot

        drain_callbacks(I)
        pre_view = _snapshot([so]) if so is not None else None
        havoc_interference(I, spec, so, self.bindings)
        if spec is not None and so is not None:
            from .snapshot import clone_graph

            itf = spec.interference if spec.interference is not None else list(spec.fields)
            ctx.ghost["__last_suspend_state__"] = clone_graph({f_: so.fields.get(f_) for f_ in itf})
        if spec is not None and so is not None:
            spec.assume_invariants(I, so)
            for rid, lam in getattr(spec, "rely", []) or []:
                from .contracts import eval_clause

                ctx.assume(_z(eval_clause(I, lam, {"self": so}, old_view=pre_view)))
        from .modular import _observe

        _observe(I, "resume")
        for cid, lam in getattr(con, "stable_during", []):
            from .contracts import eval_clause

            b = dict(self.bindings)
            e_ = getattr(I, "_await_env", None)
            chain = []
            while e_ is not None:
                chain.append(e_.vars)
                e_ = e_.parent
            for vars_ in reversed(chain):
                b.update(vars_)
            names_ = lam.__code__.co_varnames[: lam.__code__.co_argcount]
            if any(n_ not in b and n_ != "old" for n_ in names_):
                continue  # speaks about a local that does not exist yet at this suspension
            ctx.assume(_z(eval_clause(I, lam, _sel(lam, b), old_view=pre_view)))

    def maybe_interrupted(self, I, what):
        """Outcomes that interrupt any suspended await: task cancellation and an enclosing timeout."""
        ctx = I.ctx
        n = 1 + (1 if self.cancellable else 0) + (1 if I.timeout_stack else 0)
        if n == 1:
            return
        opts = ["go"]
        if self.cancellable:
            opts.append("cancel")
        if I.timeout_stack:
            opts.append("timeout")
        k = ctx.choose(len(opts), f"{what}: interrupted?")
        if opts[k] == "cancel":
            _log(ctx, {"kind": what, "outcome": "cancelled"})
            raise _Interrupt(mk_cancelled())
        if opts[k] == "timeout":
            scope = I.timeout_stack[-1]
            _log(ctx, {"kind": what, "outcome": "timeout"})
            ctx.emit("timeout.expired", None, (scope.t,), {})
            raise _Interrupt(mk_cancelled(scope))

    # ------------------------------------------------------------------
    def await_future(self, I, fut):
        ctx = I.ctx
        st0 = z3.simplify(fut.state)
        already_done = z3.is_int_value(st0) and st0.as_long() != 0
        if not already_done:
            self.suspend(I, "future")
            try:
                self.maybe_interrupted(I, "future")
            except _Interrupt as it:
                # cancelling a task cancels the future it is waiting on (asyncio.Task.cancel)
                fut.state = z3.simplify(z3.If(fut.state == 0, z3.IntVal(3), fut.state))
                raise PyRaise(it.exc)
        # the await returns only once the future is done
        ctx.assume(fut.state != 0)
        k = ctx.choose_feasible([fut.state == 1, fut.state == 2, fut.state == 3])
        if k == 0:
            _log(ctx, {"kind": "future", "outcome": "result", "name": fut.ghost.get("name")})
            return fut.result
        if k == 1:
            exc = self.future_exception(I, fut)
            _log(ctx, {"kind": "future", "outcome": "exception:" + exc_class(exc).__name__,
                                  "name": fut.ghost.get("name")})
            raise PyRaise(exc)
        _log(ctx, {"kind": "future", "outcome": "future-cancelled", "name": fut.ghost.get("name")})
        raise PyRaise(mk_cancelled())

    def future_exception(self, I, fut):
        exc = fut.exc
        promise = fut.ghost.get("promise")
        if exc is not None and not (isinstance(exc, SObj) and exc.tag == "unknown-exception"):
            return exc
        if promise is None or not promise.get("excs"):
            return exc if exc is not None else mk_exc(Exception)
        makers = promise["excs"]
        k = I.ctx.choose(len(makers), "which exception")
        exc = makers[k](I)
        fut.exc = exc
        return exc

    # ------------------------------------------------------------------
    def await_ext(self, I, aw):
        ctx = I.ctx
        m = aw.method
        name = f"{aw.self_obj.cls.__name__}.{m.name}" if aw.self_obj is not None else m.name
        ctx.assumptions_used.add(f"external:{name}")
        if getattr(m, "suspends", True):
            self.suspend(I, name)
            try:
                self.maybe_interrupted(I, name)
            except _Interrupt as it:
                raise PyRaise(it.exc)
        raises = getattr(m, "raises", None) or []
        k = ctx.choose(1 + len(raises), f"{name}: outcome")
        if k > 0:
            exc = raises[k - 1](I) if not isinstance(raises[k - 1], type) else mk_exc(raises[k - 1])
            _log(ctx, {"kind": name, "outcome": "exception:" + exc_class(exc).__name__})
            ctx.emit(name + "!raise", aw.self_obj, tuple(aw.args), dict(aw.kwargs))
            raise PyRaise(exc)
        r = m.apply_now(I, aw.self_obj, aw.args, aw.kwargs)
        _log(ctx, {"kind": name, "outcome": "return"})
        return r

    # ------------------------------------------------------------------
    def await_coro(self, I, coro):
        reg = I.registry
        con = reg.contracts.get(coro.qualname) if reg is not None else None
        if con is not None and not con.inline and coro.qualname != I.current_target and coro.pyfunc is not None:
            from . import modular

            modular.announce_call(I, con, coro.args, coro.kwargs)
            self.suspend(I, coro.qualname)
            try:
                self.maybe_interrupted(I, coro.qualname)
            except _Interrupt as it:
                raise PyRaise(it.exc)
            try:
                r = modular.apply_contract(I, con, coro.pyfunc, coro.args, coro.kwargs, coro.bound_self, announced=True)
            except PyRaise as pr:
                # a failure the callee's contract declares: scripted for the native replay like any other outcome
                _log(I.ctx, {"kind": coro.qualname, "outcome": "exception:" + exc_class(pr.exc).__name__, "exc_sym": pr.exc})
                raise
            from .interp import UnpackableResult

            _log(I.ctx, {"kind": coro.qualname, "outcome": "return",
                         "value_sym": list(r.items) if isinstance(r, UnpackableResult) else r})
            return r
        # no contract (or inline): the callee's body runs in place; its awaits come back here
        return coro.runner(I)


def _log(ctx, rec):
    st = ctx.ghost.pop("__last_suspend_state__", None)
    if st is not None:
        rec["state"] = st
    ctx.await_log.append(rec)
    ctx.emit("await", rec.get("kind"), rec.get("outcome"))


class _Interrupt(Exception):
    def __init__(self, exc):
        self.exc = exc


def _sel(lam, b):
    code = lam.__code__
    names = code.co_varnames[: code.co_argcount + code.co_kwonlyargcount]
    return {n: b[n] for n in names if n in b}


# ---------------------------------------------------------------------------
# havoc
# ---------------------------------------------------------------------------
def evolve_future(I, f):
    """A future may have been completed by someone else while we were suspended; done is final."""
    ctx = I.ctx
    old = f.state
    s0 = z3.simplify(old)
    if z3.is_int_value(s0) and s0.as_long() != 0:
        return
    new = ctx.fresh_int((f.ghost.get("name") or f"fut{f.oid}") + ".state'")
    ctx.assume(z3.And(new >= 0, new <= 3))
    ctx.assume(z3.Implies(old != 0, new == old))
    promise = f.ghost.get("promise")
    if promise is not None and promise.get("no_cancel"):
        ctx.assume(z3.Implies(old == 0, new != 3))
    if promise is not None and promise.get("excs") == []:
        ctx.assume(z3.Implies(old == 0, new != 2))  # nobody completes such a future with an exception
    f.state = new
    if promise is not None and promise.get("result") is not None:
        res = promise["result"]
        newres = res.fresh(I, (f.ghost.get("name") or "fut") + ".result'") if hasattr(res, "fresh") else res
        if f.result is None or (z3.is_int_value(s0) and s0.as_long() == 0):
            f.result = newres
    elif f.result is None:
        from .values import Opaque, OpaqueSort

        f.result = Opaque(ctx.fresh_const("fut.result", OpaqueSort), "result")
    if f.exc is None:
        f.exc = SObj(Exception, {"args": ()}, tag="unknown-exception")


def drain_callbacks(I):
    """Done-callbacks of futures that are done run on the next loop iteration: before anything else
    happens at a suspension, and right after the coroutine finishes."""
    for f in list(values.LIVE_FUTURES):
        if not f.callbacks or f.ghost.get("callbacks_ran"):
            continue
        s = z3.simplify(f.state)
        done = (s.as_long() != 0) if z3.is_int_value(s) else I.ctx.branch(f.state != 0)
        if not done:
            continue
        f.ghost["callbacks_ran"] = True
        for cb in list(f.callbacks):
            I.call(cb, [f], {})


def havoc_interference(I, spec, so, bindings):
    ctx = I.ctx
    seen = set()
    if spec is not None and so is not None:
        itf = spec.interference
        if itf is None:
            itf = list(spec.fields)
        for fld in itf:
            ty = spec.fields.get(fld)
            if ty is None:
                raise Unsupported(f"interference names unknown field {fld}")
            cur = so.fields.get(fld)
            if fld in (getattr(spec, "identity_fields", None) or ()):
                # a reference whose identity matters: unchanged (the object itself may have evolved),
                # cleared, or replaced by another object -- each explored
                k = ctx.choose(3, f"{fld}: same/None/other")
                if k == 0:
                    continue
                if k == 1:
                    so.fields[fld] = None
                    continue
                inner = getattr(ty, "inner", ty)
                so.fields[fld] = inner.fresh(I, f"self.{fld}~")
                continue
            new = ty.fresh(I, f"self.{fld}~")
            if type(cur).__name__ in ("SMap", "SColl") and type(new) is type(cur):
                oid = cur.oid
                for attr, val in vars(new).items():
                    setattr(cur, attr, val)
                cur.oid = oid
            else:
                so.fields[fld] = new
    # futures and external collaborators everywhere on the path
    for f in list(values.LIVE_FUTURES):
        evolve_future(I, f)
    for o in list(values.LIVE_EXT):
        if isinstance(o.cls, ExtClass):
            for k, ty in o.cls.field_types.items():
                if k in getattr(o.cls, "stable_fields", ()):
                    continue
                o.fields[k] = ty.fresh(I, f"{o.tag or o.cls.__name__}.{k}~")


def install(I, con, self_obj, bindings):
    ctl = AwaitCtl(I, con, self_obj, bindings)
    I.await_ctl = ctl
    I.await_handler = ctl.handle


# ---------------------------------------------------------------------------
# guarantee side: nobody else writes the fields a suspended coroutine relies on
# ---------------------------------------------------------------------------
def class_writers(cls_qualname):
    """{method name: set of self fields syntactically assigned or mutated in place} from the live
    source of the class (all methods, with or without a contract)."""
    from . import source
    from .looprule import assigned_in

    node, modname, _h = source.find_function(cls_qualname)
    out = {}
    for item in node.body:
        if isinstance(item, (ast.FunctionDef, ast.AsyncFunctionDef)):
            _names, fields, calls = assigned_in(item.body)
            out[item.name] = (fields, calls)
    return out


def guarantee_obligations(spec, registry, owners=()):
    """One obligation per method of the class: the fields it may write (its proved frame if it has a
    contract, the syntactic write set of its body otherwise, closed under calls to other methods of the
    class) lie inside the interference set.  `owners`: methods that hold the exclusive permission
    (e.g. the semaphore holder) and are therefore exempt."""
    itf = set(spec.interference if spec.interference is not None else spec.fields)
    writers = class_writers(spec.qualname)
    frames = {}
    for name, (fields, calls) in writers.items():
        con = registry.contracts.get(f"{spec.qualname}.{name}")
        if con is not None and con.modifies_ is not None:
            frames[name] = {p.split(".", 1)[1] for p in con.modifies_ if p.startswith("self.") and not p.endswith(".*")}
            frames[name] = (frames[name], True)
        else:
            frames[name] = (set(fields), False)
    # close the syntactic write sets under self-calls
    changed = True
    while changed:
        changed = False
        for name, (fields, calls) in writers.items():
            fr, proved = frames[name]
            if proved:
                continue
            for c in calls:
                if c in owners:
                    continue  # the callee acquires the exclusive permission itself
                if c in frames and not frames[c][0] <= fr:
                    fr |= frames[c][0]
                    changed = True
    out = []
    for name in sorted(writers):
        if name in owners or name == "__init__":
            continue
        fr, proved = frames[name]
        bad = sorted(f for f in fr if f not in itf and f in spec.fields)
        out.append({
            "name": f"{spec.qualname}.{name}::guarantee.writes_only_interference_fields",
            "verdict": "proved" if not bad else "refuted",
            "backend": "frame" if proved else "syntactic-write-set",
            "t": 0.0,
            "detail": (f"writes {sorted(fr)}; " + ("frame proved by the method's own contract" if proved else
                       "no contract: write set computed from the live AST")) + (f"; OUTSIDE interference: {bad}" if bad else ""),
            "witness": None,
        })
    return out
