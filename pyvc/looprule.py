"""Loop rules (DESIGN 2.4).

* invariant rule: `while` / `for` over a symbolic sequence or range is cut at a contract-supplied
  inductive invariant: assert on entry, havoc what the body assigns (computed from the AST),
  assume the invariant, run the body once, assert the invariant at the back edge.
* fold rule: for `for x in seq` a ghost prefix `_pre` (with `_pre' = _pre ++ [x]`) and index `_i`
  are maintained; spec folds named by the loop contract are unfolded at (_pre, x) only.
* for-each rule: loops over the values of a symbolic map / collection whose iterations are
  independent: the body runs on every materialised element and once on an arbitrary element of
  the rest; independence (no shared state written) is checked.
* loops over concrete containers are executed exactly by the interpreter itself.
"""
from __future__ import annotations

import ast

import z3

from . import smap
from .calls import SymRange
from .contracts import eval_clause
from .ctx import PathEnd, Unsupported
from .interp import BreakSig, ContinueSig, Env, PyRaise, ReturnSig, _z, bv2int, int_term
from .snapshot import snapshot
from .values import ByteSeq, Opaque, OpaqueSort, SBool, SBytes, SEnum, SFuture, SInt, SObj, SOpt, SReal

MUTATORS = {"append", "extend", "pop", "clear", "add", "discard", "remove", "update", "insert", "setdefault"}


def loops_of(fnode):
    """Loops of the function in source order (nested function bodies excluded)."""
    out = []

    class V(ast.NodeVisitor):
        def visit_FunctionDef(self, n):
            if n is fnode:
                self.generic_visit(n)

        visit_AsyncFunctionDef = visit_FunctionDef

        def visit_Lambda(self, n):
            pass

        def visit_For(self, n):
            out.append(n)
            self.generic_visit(n)

        visit_While = visit_For
        visit_AsyncFor = visit_For

    V().visit(fnode)
    return out


def _chain(n):
    """'a.b.c' for a Name/Attribute chain, else None"""
    parts = []
    while isinstance(n, ast.Attribute):
        parts.append(n.attr)
        n = n.value
    if isinstance(n, ast.Name):
        parts.append(n.id)
        return ".".join(reversed(parts))
    return None


def deep_paths_in(body_nodes):
    """attribute chains of depth > 1 below a name (self.a.b, x.y.z ...) that the loop body assigns to, stores a
    subscript of, or calls a mutating method on: state the loop changes that is neither a local nor a field of self"""
    out = set()

    class V(ast.NodeVisitor):
        def visit_Lambda(self, n):
            pass

        def visit_Attribute(self, n):
            if isinstance(n.ctx, ast.Store):
                c = _chain(n)
                if c and c.count(".") >= 2:
                    out.add(c)
            self.generic_visit(n)

        def visit_Call(self, n):
            f = n.func
            if isinstance(f, ast.Attribute) and f.attr in MUTATORS:
                c = _chain(f.value)
                if c and c.count(".") >= 2:
                    out.add(c)
            self.generic_visit(n)

        def visit_Subscript(self, n):
            if isinstance(n.ctx, ast.Store):
                c = _chain(n.value)
                if c and c.count(".") >= 2:
                    out.add(c)
            self.generic_visit(n)

    for b in body_nodes:
        V().visit(b)
    return out


def assigned_in(body_nodes):
    """(local names, self fields, calls self methods?) assigned / mutated in the loop body."""
    names, fields, self_calls = set(), set(), set()

    class V(ast.NodeVisitor):
        def visit_FunctionDef(self, n):
            names.add(n.name)

        visit_AsyncFunctionDef = visit_FunctionDef

        def visit_Lambda(self, n):
            pass

        def visit_Name(self, n):
            if isinstance(n.ctx, (ast.Store, ast.Del)):
                names.add(n.id)

        def visit_Attribute(self, n):
            if isinstance(n.ctx, ast.Store) and isinstance(n.value, ast.Name) and n.value.id == "self":
                fields.add(n.attr)
            self.generic_visit(n)

        def visit_AugAssign(self, n):
            t = n.target
            if isinstance(t, ast.Name):
                names.add(t.id)
            elif isinstance(t, ast.Attribute) and isinstance(t.value, ast.Name) and t.value.id == "self":
                fields.add(t.attr)
            self.generic_visit(n)

        def visit_Call(self, n):
            f = n.func
            if isinstance(f, ast.Attribute):
                if f.attr in MUTATORS:
                    if isinstance(f.value, ast.Name):
                        names.add(f.value.id)
                    elif isinstance(f.value, ast.Attribute) and isinstance(f.value.value, ast.Name) and f.value.value.id == "self":
                        fields.add(f.value.attr)
                if isinstance(f.value, ast.Name) and f.value.id == "self":
                    self_calls.add(f.attr)
            self.generic_visit(n)

        def visit_Subscript(self, n):
            if isinstance(n.ctx, ast.Store):
                v = n.value
                if isinstance(v, ast.Name):
                    names.add(v.id)
                elif isinstance(v, ast.Attribute) and isinstance(v.value, ast.Name) and v.value.id == "self":
                    fields.add(v.attr)
            self.generic_visit(n)

    for b in body_nodes:
        V().visit(b)
    return names, fields, self_calls


def havoc_like(I, v, name):
    """Fresh value of the same kind as v."""
    c = I.ctx
    if isinstance(v, bool) or isinstance(v, SBool):
        return SBool(c.fresh_bool(name))
    if isinstance(v, SEnum):
        from .contracts import EnumT

        return EnumT(v.cls).fresh(I, name)
    if isinstance(v, SInt) or (isinstance(v, int) and not isinstance(v, bool)):
        return SInt(c.fresh_int(name))
    if isinstance(v, (SReal, float)):
        return SReal(c.fresh_real(name))
    if isinstance(v, SBytes):
        return SBytes(c.fresh_const(name, ByteSeq), v.mutable)
    if isinstance(v, (bytes, bytearray)):
        return SBytes(c.fresh_const(name, ByteSeq), isinstance(v, bytearray))
    if v is None:
        raise Unsupported(f"loop havoc of '{name}' (None before the loop): declare its type in the loop contract")
    if isinstance(v, Opaque):
        return Opaque(c.fresh_const(name, OpaqueSort), v.kind)
    raise Unsupported(f"loop havoc of '{name}' of kind {type(v).__name__}: declare its type in the loop contract")


class LoopCtl:
    def __init__(self, I, con, fnode, bindings):
        self.I, self.con, self.fnode, self.bindings = I, con, fnode, bindings
        self.loops = loops_of(fnode)

    def ordinal(self, node):
        for i, n in enumerate(self.loops):
            if n is node:
                return i
        return None

    def spec_for(self, node):
        """(label, spec) of a loop.  A loop contract is attached either by the loop's ordinal in the function, or --
        `where=<text>` -- to the innermost loop whose source contains that text (the command it issues, the call it
        makes): a loop added or removed elsewhere in the function then does not detach it."""
        if not hasattr(self, "_by_role"):
            self._by_role = {}
            for label, sp in self.con.loops.items():
                w = getattr(sp, "where", None)
                if not w:
                    continue
                cands = [n for n in self.loops if w in ast.unparse(n) or self._helper_contains(n, w)]
                # innermost: a candidate that contains no other candidate
                inner = [n for n in cands if not any(m is not n and any(x is m for x in ast.walk(n)) for m in cands)]
                if len(inner) == 1:
                    self._by_role[id(inner[0])] = (label, sp)
        if id(node) in self._by_role:
            return self._by_role[id(node)]
        if self.ordinal(node) is None:
            # a loop of a helper that runs in place (the loop was moved out of the function under contract): the
            # contract whose text it contains, if exactly one does and no loop of the function itself claimed it
            taken = {lab for lab, _sp in self._by_role.values()}
            hits = [(lab, sp) for lab, sp in self.con.loops.items()
                    if getattr(sp, "where", None) and lab not in taken and sp.where in ast.unparse(node)]
            if len(hits) == 1:
                self._by_role[id(node)] = hits[0]
                return hits[0]
        k = self.ordinal(node)
        sp = self.con.loops.get(k) if k is not None else None
        if sp is not None and getattr(sp, "where", None):
            sp = None  # that contract belongs to the loop its text names, wherever it is now
            k = f"{k}'"
        return k, sp

    def _helper_contains(self, loop, text):
        """the loop body hands the work to a method of the same class (`self.m(...)`) whose source contains `text`: a
        loop body moved into a private helper is still the loop that issues that command"""
        spec = getattr(self.con, "self_spec", None)
        if spec is None:
            return False
        if not hasattr(self, "_method_src"):
            from . import source

            self._method_src = {}
            try:
                cnode, _m, _h = source.find_function(spec.qualname)
                for item in cnode.body:
                    if isinstance(item, (ast.FunctionDef, ast.AsyncFunctionDef)):
                        self._method_src[item.name] = ast.unparse(item)
            except KeyError:
                pass
        for n in ast.walk(loop):
            if (isinstance(n, ast.Call) and isinstance(n.func, ast.Attribute) and isinstance(n.func.value, ast.Name)
                    and n.func.value.id in ("self", "cls") and text in self._method_src.get(n.func.attr, "")
                    and n.func.attr != getattr(self.fnode, "name", None)):
                return True
        return False

    def handle(self, I, node, env):
        k, spec = self.spec_for(node)
        if isinstance(node, ast.For):
            it = I.eval(node.iter, env)
            if isinstance(it, smap.View) or isinstance(it, smap.SColl):
                foreach(I, self, node, env, it, k)
                return None
            symbolic = (isinstance(it, SBytes) and not z3.is_int_value(z3.simplify(z3.Length(it.t)))) or isinstance(it, SymRange)
            if not symbolic:
                if spec is not None and (spec.each or spec.at_entry):
                    return per_iteration_for(I, self, node, env, it, k, spec)
                return run_concrete_for(I, node, env, it)
            if spec is None:
                raise Unsupported(f"loop #{k} of {self.con.qualname} iterates a symbolic sequence and has no loop contract")
            return invariant_for(I, self, node, env, it, k, spec)
        if isinstance(node, ast.While):
            if spec is None:
                return NotImplemented
            return invariant_while(I, self, node, env, k, spec)
        if isinstance(node, ast.AsyncFor):
            return async_for(I, self, node, env, k, spec)
        return NotImplemented


def run_concrete_for(I, node, env, it):
    items = I.iterate_concrete(it)
    for item in items:
        I.assign_target(node.target, item, env)
        try:
            I.exec_block(node.body, env)
        except BreakSig:
            return None
        except ContinueSig:
            continue
    I.exec_block(node.orelse, env)
    return None


def per_iteration_for(I, ctl, node, env, it, k, spec):
    """Iterations verified one at a time: for element i either (a) the body runs from an arbitrary state
    satisfying the invariants, the per-iteration clauses are checked on the effects of this iteration
    alone and the path ends, or (b) the iteration is summarised (variables it assigns are havocked, the
    invariants assumed) and the walk continues.  N+1 path families instead of a product."""
    c = I.ctx
    qn = ctl.con.qualname
    items = list(I.iterate_concrete(it))
    b0 = _inv_bindings(I, ctl, env, {"_items": list(items)}, spec)
    for cid, lam in spec.at_entry:
        f = eval_clause(I, lam, _select(lam, {**b0, "fx": list(c.fx)}), old_view=ctl.old_view())
        c.check_obligation(f"{qn}::loop{k}.at_entry.{cid}", f)
    _check_invs(I, ctl, spec, k, env, {}, "entry")
    if node.orelse:
        raise Unsupported("for-else in per-iteration mode")
    todo = list(enumerate(items))
    if spec.generic is not None and items:
        todo = [(-1, None)]
    for idx, item in todo:
        verify_here = c.choose(2, f"loop{k}[{idx}]: summarise / verify") == 1
        if verify_here and idx == -1:
            _havoc(I, ctl, node, env, spec, k)
            _assume_invs(I, ctl, spec, env, {})
            item = spec.generic.fresh(I, f"item@loop{k}")
        # state at the head of iteration idx: anything the earlier iterations may have produced
        if idx > 0 or not verify_here:
            pass
        if verify_here:
            if idx > 0:
                _havoc(I, ctl, node, env, spec, k)
                _assume_invs(I, ctl, spec, env, {})
            mark = len(c.fx)
            I.assign_target(node.target, item, env)
            raised = None
            try:
                I.exec_block(node.body, env)
            except (BreakSig, ContinueSig):
                pass
            except ReturnSig:
                raise Unsupported("return inside a per-iteration loop")
            except PyRaise as pr:
                from .interp import exc_class

                raised = pr.exc
                if not any(issubclass(exc_class(raised), e) for e in spec.iteration_raises):
                    c.check_obligation(f"{qn}::loop{k}.each.exc.undeclared:{exc_class(raised).__name__}", False)
                    raise PathEnd()
            fx_iter = list(c.fx[mark:])
            b = _inv_bindings(I, ctl, env, {"fx": fx_iter, "raised": raised, "_index": idx, "_item": item}, spec)
            for cid, lam in spec.each:
                f = eval_clause(I, lam, _select(lam, b), old_view=ctl.old_view())
                c.check_obligation(f"{qn}::loop{k}.each.{cid}", f)
            if raised is None:
                _check_invs(I, ctl, spec, k, env, {}, "preserved")
            c.check_obligation(f"{qn}::__canary__", False)
            raise PathEnd()
        # summarised iteration
    if items:
        _havoc(I, ctl, node, env, spec, k)
        _assume_invs(I, ctl, spec, env, {})
    c.fx.append(("loop.summary", k, len(items)))
    return None


def async_for(I, ctl, node, env, k, spec):
    """`async for x in <external async generator>`: cut at an invariant like any loop over a symbolic sequence.
    The state at the head of an iteration is whatever any number of earlier iterations left (havoc of everything
    the body changes + invariants); every `__anext__` is a suspension (await rule) whose outcomes are: an item of
    the generator's declared element type, exhaustion (the loop ends), or one of its declared failures (propagates).
    One iteration is verified from that state: per-iteration `each` clauses (old = state at the head) and the
    invariants at the back edge."""
    from .values import ExtClass

    c = I.ctx
    qn = ctl.con.qualname
    it = I.eval(node.iter, env)
    if not (isinstance(it, SObj) and isinstance(it.cls, ExtClass) and "__anext__" in it.cls.methods):
        raise Unsupported("async for over something that is not an assumed async generator")
    if spec is None:
        raise Unsupported(f"async for loop #{k} of {qn} has no loop contract")
    b0 = _inv_bindings(I, ctl, env, {"fx": list(c.fx)}, spec)
    for cid, lam in spec.at_entry:
        f = eval_clause(I, lam, _select(lam, b0), old_view=ctl.old_view())
        c.check_obligation(f"{qn}::loop{k}.at_entry.{cid}", f)
    _check_invs(I, ctl, spec, k, env, {}, "entry")
    _havoc(I, ctl, node, env, spec, k)
    _assume_invs(I, ctl, spec, env, {})
    head_view = snapshot([v for v in ctl.bindings.values()])
    mark = len(c.fx)
    try:
        aw = it.cls.methods["__anext__"].apply(I, it, [], {})
        item = I.await_handler(I, aw, node)
    except PyRaise as pr:
        from .interp import exc_class

        if issubclass(exc_class(pr.exc), StopAsyncIteration):
            I.exec_block(node.orelse, env)
            return None
        raise
    I.assign_target(node.target, item, env)
    broke = False
    try:
        I.exec_block(node.body, env)
    except BreakSig:
        broke = True
    except ContinueSig:
        pass
    b = _inv_bindings(I, ctl, env, {"fx": list(c.fx[mark:]), "broke": broke, "item": item, "_item": item}, spec)
    for cid, lam in spec.each:
        f = eval_clause(I, lam, _select(lam, b), old_view=head_view)
        c.check_obligation(f"{qn}::loop{k}.each.{cid}", f)
    c.check_obligation(f"{qn}::__canary__", False)
    if broke:
        return None
    _check_invs(I, ctl, spec, k, env, {}, "preserved")
    raise PathEnd()


def install(I, con, node, bindings):
    ctl = LoopCtl(I, con, node, bindings)
    I.loop_handler = ctl.handle


# ---------------------------------------------------------------------------
def _inv_bindings(I, ctl, env, extra, spec=None):
    b = dict(ctl.bindings)
    e = env
    chain = []
    while e is not None:
        chain.append(e.vars)
        e = e.parent
    for vars_ in reversed(chain):
        b.update(vars_)
    roles = getattr(spec, "roles", None)
    if roles:
        # decided once, when the loop is first reached (entry values), then fixed for the rest of the path
        memo = ctl.__dict__.setdefault("_role_map", {})
        key = id(spec)
        if key not in memo:
            m = {}
            locals_ = {}
            for vars_ in reversed(chain):
                locals_.update(vars_)
            for rname, pred in roles.items():
                if rname in locals_:
                    continue  # the code still spells it that way
                hits = []
                for lname, val in locals_.items():
                    if lname in ctl.bindings or lname in roles:
                        continue
                    try:
                        ok = pred(val)
                    except Exception:
                        ok = False
                    if ok is True:
                        hits.append(lname)
                if len(hits) == 1:
                    m[rname] = hits[0]
            memo[key] = m
        for rname, lname in memo[key].items():
            if lname in b:
                b[rname] = b[lname]
    b.update(extra)
    return b


def _check_invs(I, ctl, spec, k, env, extra, stage):
    qn = ctl.con.qualname
    b = _inv_bindings(I, ctl, env, extra, spec)
    for iid, lam in spec.invariants:
        f = eval_clause(I, lam, _select(lam, b), old_view=ctl.old_view())
        I.ctx.check_obligation(f"{qn}::loop{k}.{iid}.{stage}", f)


def _assume_invs(I, ctl, spec, env, extra):
    b = _inv_bindings(I, ctl, env, extra, spec)
    for iid, lam in spec.invariants:
        f = eval_clause(I, lam, _select(lam, b), old_view=ctl.old_view())
        I.ctx.assume(_z(f))


def _select(lam, b):
    code = lam.__code__
    names = code.co_varnames[: code.co_argcount + code.co_kwonlyargcount]
    missing = [n for n in names if n not in b and n != "old"]
    if missing:
        raise Unsupported(f"loop invariant refers to unknown names {missing}")
    return {n: b[n] for n in names if n in b}


def _old_view(ctl):
    return getattr(ctl.I, "entry_old_view", None)


LoopCtl.old_view = _old_view


def _method_write_set(cls, m, self_spec, registry, seen):
    """Fields of self that method `m` of the live class may write (syntactic write set of its body, closed under the
    methods of the class it calls; a contracted callee contributes its proved frame).  None = unknown (everything)."""
    from . import source

    if m in seen:
        return set()
    seen.add(m)
    qn = None
    for klass in cls.__mro__:
        if m in klass.__dict__:
            qn = f"{klass.__module__}.{klass.__qualname__}.{m}"
            break
    if qn is None:
        con = registry.contracts.get(f"{self_spec.qualname}._command")
        if con is None or con.modifies_ is None:
            return None
        return {p.split(".", 1)[1] for p in con.modifies_ if p.startswith("self.")}
    con = registry.contracts.get(qn)
    if con is not None:
        if con.self_spec is None:
            return set()
        if con.modifies_ is None:
            return None
        return {p.split(".", 1)[1] for p in con.modifies_ if p.startswith("self.")}
    try:
        node, _mod, _h = source.find_function(qn)
    except KeyError:
        return None
    _names, flds, calls = assigned_in(node.body)
    out = set(flds)
    for c in calls:
        sub = _method_write_set(cls, c, self_spec, registry, seen)
        if sub is None:
            return None
        out |= sub
    return out


def _havoc(I, ctl, node, env, spec, k):
    names, fields, self_calls = assigned_in(node.body + getattr(node, "orelse", []))
    if isinstance(node, ast.For):
        for n in ast.walk(node.target):
            if isinstance(n, ast.Name):
                names.discard(n.id)
    self_obj = ctl.bindings.get("self")
    if self_calls and self_obj is not None and ctl.con.self_spec is not None:
        from .contracts import REGISTRY

        cls = self_obj.cls
        for m in self_calls:
            qn = None
            for klass in cls.__mro__:
                if m in klass.__dict__:
                    qn = f"{klass.__module__}.{klass.__qualname__}.{m}"
                    break
            con = REGISTRY.contracts.get(qn) if qn else None
            if con is not None and con.self_spec is None:
                continue  # a static / pure helper: writes no field of self
            if qn is None:
                # not a method of the class: resolved by __getattr__ (an NCP command, dispatched through
                # _command) -- its frame is _command's
                con = REGISTRY.contracts.get(f"{ctl.con.self_spec.qualname}._command")
            if con is None and qn is not None:
                # a helper method without a contract (it runs in place): the fields its body -- and the methods of the
                # class it calls in turn -- can assign or mutate, computed from the live source
                ws = _method_write_set(cls, m, ctl.con.self_spec, REGISTRY, set())
                if ws is None:
                    fields |= set(ctl.con.self_spec.fields)
                else:
                    fields |= ws
                continue
            if con is None or con.modifies_ is None:
                fields |= set(ctl.con.self_spec.fields)
            else:
                fields |= {p.split(".", 1)[1] for p in con.modifies_ if p.startswith("self.")}
    declared = spec.ghost.get("types", {}) if spec.ghost else {}
    for path in sorted(deep_paths_in(node.body + getattr(node, "orelse", []))):
        ty = declared.get(path)
        if ty is None:
            raise Unsupported(f"loop #{k} changes {path}: its type must be declared in the loop contract (ghost types)")
        parts = path.split(".")
        try:
            obj = ctl.bindings["self"] if parts[0] == "self" and "self" in ctl.bindings else env.lookup(parts[0])
        except KeyError:
            raise Unsupported(f"loop #{k} changes {path}: unknown root")
        for a in parts[1:-1]:
            obj = I.getattr(obj, a)
        I.setattr(obj, parts[-1], ty.fresh(I, f"{path}@loop{k}"))
    for n in sorted(names):
        if n in declared:
            env.assign(n, declared[n].fresh(I, f"{n}@loop{k}"))
            continue
        try:
            cur = env.lookup(n)
        except KeyError:
            continue  # first assigned inside the loop: no value flows around the back edge unless read
        env.assign(n, havoc_like(I, cur, f"{n}@loop{k}"))
    if self_obj is not None and ctl.con.self_spec is not None:
        for f in sorted(fields):
            if f.endswith(".*"):
                # contents of a container of futures may change state; keys / identities do not
                from .asyncrule import evolve_future

                cur = self_obj.fields.get(f[:-2])
                vals = [s_.value for s_ in getattr(cur, "slots", [])] + [v for _p, v in getattr(cur, "members", [])]
                for v in vals:
                    if isinstance(v, SFuture):
                        evolve_future(I, v)
                continue
            ty = ctl.con.self_spec.fields.get(f)
            if ty is None:
                aux = ctl.con.self_spec.aux_fields().get(f)
                if aux is not None:
                    ty = aux[0]  # an attribute beside the declared state: any value of its inferred type
            if ty is None:
                raise Unsupported(f"loop assigns unknown field self.{f}")
            self_obj.fields[f] = ty.fresh(I, f"self.{f}@loop{k}")
    # effects inside proof-mode loops are summarised by ghost state named in the invariant
    I.ctx.fx.append(("loop.summary", k))


def invariant_while(I, ctl, node, env, k, spec):
    _check_invs(I, ctl, spec, k, env, {}, "entry")
    _havoc(I, ctl, node, env, spec, k)
    _assume_invs(I, ctl, spec, env, {})
    variant0 = None
    if spec.variant is not None:
        b = _inv_bindings(I, ctl, env, {}, spec)
        from .modular import _eval_value

        variant0 = _eval_value(I, spec.variant, b)
    if I.truth(I.eval(node.test, env)):
        mark = len(I.ctx.fx)
        head_view = snapshot([v for v in ctl.bindings.values()]) if spec.each else None
        broke = False
        try:
            I.exec_block(node.body, env)
        except BreakSig:
            broke = True
        except ContinueSig:
            pass
        if spec.each:
            b = _inv_bindings(I, ctl, env, {"fx": list(I.ctx.fx[mark:]), "broke": broke}, spec)
            for cid, lam in spec.each:
                names_ = lam.__code__.co_varnames[: lam.__code__.co_argcount]
                if any(n_ not in b and n_ != "old" for n_ in names_):
                    continue  # speaks about a local this path never assigned (the iteration ended before)
                f = eval_clause(I, lam, _select(lam, b), old_view=head_view)
                I.ctx.check_obligation(f"{ctl.con.qualname}::loop{k}.each.{cid}", f)
        if broke:
            return None
        _check_invs(I, ctl, spec, k, env, {}, "preserved")
        if spec.variant is not None:
            from .modular import _eval_value

            v1 = _eval_value(I, spec.variant, _inv_bindings(I, ctl, env, {}, spec))
            I.ctx.check_obligation(
                f"{ctl.con.qualname}::loop{k}.variant.decreases",
                z3.And(int_term(v1) < int_term(variant0), int_term(variant0) >= 0),
            )
        raise PathEnd()
    I.exec_block(node.orelse, env)
    return None


def invariant_for(I, ctl, node, env, it, k, spec):
    c = I.ctx
    if isinstance(it, SBytes):
        seq = it.t
        n = z3.Length(seq)
        ghosts0 = {"_i": SInt(z3.IntVal(0)), "_pre": SBytes(z3.Empty(ByteSeq)), "_seq": SBytes(seq)}
        _unfold(I, spec, z3.Empty(ByteSeq), None)
        _check_invs(I, ctl, spec, k, env, ghosts0, "entry")
        _havoc(I, ctl, node, env, spec, k)
        pre = c.fresh_const(f"pre@loop{k}", ByteSeq)
        rest = c.fresh_const(f"rest@loop{k}", ByteSeq)
        c.assume(seq == z3.Concat(pre, rest))
        i = z3.Length(pre)
        ghosts = {"_i": SInt(i), "_pre": SBytes(pre), "_seq": SBytes(seq)}
        _assume_invs(I, ctl, spec, env, ghosts)
        _unfold(I, spec, pre, None)
        if c.branch(z3.Length(rest) > 0):
            x = c.fresh_const(f"x@loop{k}", z3.BitVecSort(8))
            rest2 = c.fresh_const(f"rest2@loop{k}", ByteSeq)
            c.assume(rest == z3.Concat(z3.Unit(x), rest2))
            I.assign_target(node.target, SInt(bv2int(x)), env)
            _unfold(I, spec, pre, x)
            c.ghost["_pre"] = SBytes(pre)
            c.ghost["_x"] = SInt(bv2int(x))
            try:
                I.exec_block(node.body, env)
            except BreakSig:
                return None
            except ContinueSig:
                pass
            pre2 = z3.Concat(pre, z3.Unit(x))
            ghosts2 = {"_i": SInt(i + 1), "_pre": SBytes(pre2), "_seq": SBytes(seq)}
            _check_invs(I, ctl, spec, k, env, ghosts2, "preserved")
            raise PathEnd()
        c.assume(pre == seq)
        # after the loop the ghost prefix is the whole sequence and there is no current element
        c.ghost["_pre"] = SBytes(seq)
        c.ghost["_x"] = None
        I.exec_block(node.orelse, env)
        return None
    if isinstance(it, SymRange):
        if it.step != 1:
            raise Unsupported("symbolic range with step")
        lo, hi = int_term(it.start), int_term(it.stop)
        ghosts0 = {"_i": SInt(lo)}
        if spec.at_entry:
            # facts about the state when the loop is reached, and about the range it is going to walk
            b0 = _inv_bindings(I, ctl, env, {"_lo": SInt(lo), "_hi": SInt(hi), "fx": list(c.fx)}, spec)
            for cid, lam in spec.at_entry:
                f = eval_clause(I, lam, _select(lam, b0), old_view=ctl.old_view())
                c.check_obligation(f"{ctl.con.qualname}::loop{k}.at_entry.{cid}", f)
        _check_invs(I, ctl, spec, k, env, ghosts0, "entry")
        _havoc(I, ctl, node, env, spec, k)
        i = c.fresh_int(f"i@loop{k}")
        c.assume(z3.And(i >= lo, z3.Or(i <= hi, hi < lo)))
        ghosts = {"_i": SInt(i)}
        _assume_invs(I, ctl, spec, env, ghosts)
        if c.branch(i < hi):
            I.assign_target(node.target, SInt(i), env)
            mark = len(c.fx)
            broke = False
            head_view = snapshot([v for v in ctl.bindings.values()]) if (spec.each and spec.each_old == "head") else None
            try:
                I.exec_block(node.body, env)
            except BreakSig:
                broke = True
            except ContinueSig:
                pass
            if spec.each:
                b = _inv_bindings(I, ctl, env, {"fx": list(c.fx[mark:]), "broke": broke, "_i": SInt(i)}, spec)
                for cid, lam in spec.each:
                    names_ = lam.__code__.co_varnames[: lam.__code__.co_argcount]
                    if any(n_ not in b and n_ != "old" for n_ in names_):
                        continue
                    f = eval_clause(I, lam, _select(lam, b), old_view=head_view if head_view is not None else ctl.old_view())
                    c.check_obligation(f"{ctl.con.qualname}::loop{k}.each.{cid}", f)
                c.check_obligation(f"{ctl.con.qualname}::__canary__", False)
            if broke:
                return None
            _check_invs(I, ctl, spec, k, env, {"_i": SInt(i + 1)}, "preserved")
            raise PathEnd()
        c.assume(z3.Or(i == hi, z3.And(hi < lo, i == lo)))
        I.exec_block(node.orelse, env)
        return None
    raise Unsupported("invariant rule on this iterable")


def _unfold(I, spec, pre, x):
    for fold in spec.fold or []:
        for ax in fold.unfold_at(I, pre, x):
            I.ctx.assume(ax)


# ---------------------------------------------------------------------------
# for-each rule
# ---------------------------------------------------------------------------
def foreach(I, ctl, node, env, it, k):
    c = I.ctx
    if isinstance(it, smap.View):
        m = it.m
        elements = []
        for s in m.slots:
            elements.append((z3.Select(m.has, s.key), s, None))
        kind = it.kind
    else:
        m = it
        elements = [(p, None, v) for p, v in it.members]
        kind = "values"
    # arbitrary element of the rest
    order = c.choose(2, "rest element first/last") if elements else 0
    if order == 1:
        m.order_hint = "rest-first"

    def item_of(slot, value, key=None):
        if kind == "values":
            return value
        if kind == "keys":
            return SInt(key)
        return (SInt(key), value)

    def run_rest():
        if isinstance(m, smap.SMap):
            which = c.choose(2, "rest empty / arbitrary rest element")
            if which == 0:
                return True
            kt = c.fresh_int(f"{m.name}.anykey")
            for s in m.slots:
                c.assume(s.key != kt)
            c.assume(z3.Select(m.has, kt))
            s = smap.find_slot(I, m, kt)
            item = item_of(s, s.value, kt)
        else:
            if m.rest_nonempty is None or z3.is_false(z3.simplify(_z(m.rest_nonempty))):
                return True
            which = c.choose(2, "rest empty / arbitrary rest element")
            if which == 0:
                return True
            v = m.etype.fresh(I, f"{m.name}.any")
            m.members.append([True, v])
            from .snapshot import clone_graph

            m.entry_members.append(clone_graph({"v": v})["v"])
            item = v
        self_obj = ctl.bindings.get("self")
        before = dict(self_obj.fields) if isinstance(self_obj, SObj) else {}
        cont = run_body(item)
        # independence: the generic iteration must not write shared object state
        if isinstance(self_obj, SObj):
            for f, v0 in before.items():
                v1 = self_obj.fields.get(f)
                if v1 is not v0:
                    if not c.prove(_z(I.eq(v0, v1))):
                        raise Unsupported(f"for-each body writes shared field self.{f}: needs an invariant")
        return cont

    def run_body(item):
        I.assign_target(node.target, item, env)
        try:
            I.exec_block(node.body, env)
        except BreakSig:
            return False
        except ContinueSig:
            pass
        return True

    cont = True
    if order == 1 or not elements:
        cont = run_rest()
        if not cont:
            return
    for pres, slot, value in elements:
        if isinstance(pres, bool):
            here = pres
        else:
            here = c.branch(pres)
        if not here:
            continue
        item = item_of(slot, slot.value if slot is not None else value, slot.key if slot is not None else None)
        if not run_body(item):
            return
    if order == 0 and elements:
        if not run_rest():
            return
    I.exec_block(node.orelse, env)
