"""Loop rule: cut at a contract-supplied invariant (DESIGN 2.4)."""
from __future__ import annotations


def install(I, con, node, bindings):
    I.loop_handler = None
