"""Assumed contract of asyncio.Future (DESIGN 2.5): pending -> result | exception | cancelled;
set_result / set_exception on a done future raise InvalidStateError; done-callbacks do not run
inside set_result (they are scheduled)."""
from __future__ import annotations

import asyncio

import z3

from .ctx import Unsupported
from .interp import PyRaise, mk_exc
from .values import SBool, SFuture, SObj

PENDING, RESULT, EXCEPTION, CANCELLED = 0, 1, 2, 3


def _concrete_state(fut):
    s = z3.simplify(fut.state)
    return s.as_long() if z3.is_int_value(s) else None


def method(I, fut: SFuture, name, args, kwargs):
    I.ctx.assumptions_used.add("external:asyncio.Future")
    st = fut.state
    if I.in_old and I.old_view is not None and fut.oid in I.old_view:
        st = I.old_view[fut.oid]["state"]
        if name not in ("done", "cancelled"):
            raise Unsupported(f"Future.{name} inside old(...)")
    if name == "done":
        return I.as_bool_value(z3.simplify(st != PENDING))
    if name == "cancelled":
        return I.as_bool_value(z3.simplify(st == CANCELLED))
    if name in ("set_result", "set_exception"):
        (v,) = args
        if I.truth(I.as_bool_value(z3.simplify(st != PENDING))):
            raise PyRaise(mk_exc(asyncio.InvalidStateError, "invalid state"))
        if name == "set_result":
            fut.state = z3.IntVal(RESULT)
            fut.result = v
        else:
            if isinstance(v, type):
                v = I.call(v, [], {})
            fut.state = z3.IntVal(EXCEPTION)
            fut.exc = v
        I.ctx.emit("future." + name, fut, v)
        return None
    if name == "cancel":
        if I.truth(I.as_bool_value(z3.simplify(st != PENDING))):
            return False
        fut.state = z3.IntVal(CANCELLED)
        I.ctx.emit("future.cancel", fut)
        return True
    if name == "add_done_callback":
        (cb,) = args
        fut.callbacks.append(cb)
        I.ctx.emit("future.add_done_callback", fut, cb)
        return None
    if name == "remove_done_callback":
        (cb,) = args
        n = len(fut.callbacks)
        fut.callbacks[:] = [c for c in fut.callbacks if c is not cb]
        return n - len(fut.callbacks)
    if name == "result":
        k = I.ctx.choose_feasible([st == RESULT, st == EXCEPTION, st == CANCELLED, st == PENDING])
        if k == 0:
            return fut.result
        if k == 1:
            raise PyRaise(fut.exc)
        if k == 2:
            raise PyRaise(mk_exc(asyncio.CancelledError))
        raise PyRaise(mk_exc(asyncio.InvalidStateError, "Result is not set."))
    if name == "exception":
        k = I.ctx.choose_feasible([st == RESULT, st == EXCEPTION, st == CANCELLED, st == PENDING])
        if k == 0:
            return None
        if k == 1:
            return fut.exc
        if k == 2:
            raise PyRaise(mk_exc(asyncio.CancelledError))
        raise PyRaise(mk_exc(asyncio.InvalidStateError, "Exception is not set."))
    raise Unsupported(f"Future.{name}")
