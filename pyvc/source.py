"""Locates the real source of functions under contract in /repo's working tree.

Nothing is transcribed: every run parses the current files with `ast` and finds the function
by qualified name (nested functions by lexical path, e.g.
`bellows.thread.ThreadsafeProxy.__getattr__.func_wrapper`).
"""
from __future__ import annotations

import ast
import hashlib
import importlib
import os
import sys

REPO = os.environ.get("PYVC_REPO", "/repo")

_cache = {}


def module_file(modname):
    mod = importlib.import_module(modname)
    return mod.__file__


def module_ast(modname):
    path = module_file(modname)
    key = path
    if key not in _cache:
        with open(path, "r") as f:
            text = f.read()
        _cache[key] = (ast.parse(text, filename=path), text)
    return _cache[key]


def _find(body, name):
    for node in body:
        if isinstance(node, (ast.FunctionDef, ast.AsyncFunctionDef, ast.ClassDef)) and node.name == name:
            return node
        # functions defined under `if sys.version_info ...: ... else:` at module level
        if isinstance(node, (ast.If, ast.Try)):
            for sub in (getattr(node, "body", []), getattr(node, "orelse", []), getattr(node, "finalbody", [])):
                r = _find(sub, name)
                if r is not None:
                    return r
            for h in getattr(node, "handlers", []):
                r = _find(h.body, name)
                if r is not None:
                    return r
        if isinstance(node, (ast.With, ast.For, ast.While, ast.AsyncWith, ast.AsyncFor)):
            r = _find(node.body, name)
            if r is not None:
                return r
    return None


def split_qualname(qualname):
    """'bellows.ash.AshProtocol.data_received' -> ('bellows.ash', ['AshProtocol','data_received'])"""
    parts = qualname.split(".")
    for i in range(len(parts), 0, -1):
        modname = ".".join(parts[:i])
        try:
            importlib.import_module(modname)
            return modname, parts[i:]
        except ImportError:
            continue
    raise KeyError(qualname)


def find_function(qualname):
    """Returns (ast node, module name, source segment hash)."""
    modname, path = split_qualname(qualname)
    tree, text = module_ast(modname)
    node = tree
    body = tree.body
    for i, p in enumerate(path):
        if p == "<locals>":
            continue
        owner = node
        node = _find(body, p)
        if node is None:
            # not written lexically in that class: an attribute bound to a function defined elsewhere in the
            # repository (`to_bytes = AckFrame.to_bytes`, `from_bytes = classmethod(Other.from_bytes.__func__)`) or
            # inherited from a base class.  The live class says which function the attribute *is*; its source is then
            # located lexically as usual -- still the code that runs, nothing transcribed.
            if isinstance(owner, ast.ClassDef) and i == len(path) - 1:
                target = _live_attribute_target(modname, [q for q in path[:i] if q != "<locals>"], p)
                if target is not None and target != qualname:
                    return find_function(target)
            raise KeyError(f"{qualname}: '{p}' not found in {modname}")
        body = node.body
    seg = ast.get_source_segment(text, node) or ""
    return node, modname, hashlib.sha256(seg.encode()).hexdigest()[:16]


def _live_attribute_target(modname, owner_path, name):
    """Qualified name of the repository function that attribute `name` of the live class is (through classmethod /
    staticmethod wrappers and the MRO), or None."""
    import inspect
    try:
        obj = importlib.import_module(modname)
        for q in owner_path:
            obj = getattr(obj, q)
        raw = inspect.getattr_static(obj, name)
    except (AttributeError, ImportError):
        return None
    if isinstance(raw, (classmethod, staticmethod)):
        raw = raw.__func__
    if not inspect.isfunction(raw) or "<locals>" in raw.__qualname__ or "<lambda>" in raw.__qualname__:
        return None
    if not is_repo_module(raw.__module__ or ""):
        return None
    return raw.__module__ + "." + raw.__qualname__


def find_function_by_role(within, text):
    """The innermost function defined (at any depth: method, closure) inside `within` (a class or function, by
    qualified name) whose source contains `text` -- for a helper that a refactoring may turn from a closure into a
    method or rename.  Returns (node, module name, hash, is_method) or raises KeyError when there is not exactly one."""
    modname, path = split_qualname(within)
    tree, src = module_ast(modname)
    body = tree.body
    owner = tree
    for p in path:
        owner = _find(body, p)
        if owner is None:
            raise KeyError(f"{within}: '{p}' not found in {modname}")
        body = owner.body
    cands = [n for n in ast.walk(owner) if n is not owner and isinstance(n, (ast.FunctionDef, ast.AsyncFunctionDef))
             and text in (ast.get_source_segment(src, n) or "")]
    inner = [n for n in cands if not any(m is not n and any(x is m for x in ast.walk(n)) for m in cands)]
    if len(inner) != 1:
        raise KeyError(f"{within}: {len(inner)} functions contain {text!r}")
    node = inner[0]
    is_method = isinstance(owner, ast.ClassDef) and any(x is node for x in owner.body)
    seg = ast.get_source_segment(src, node) or ""
    return node, modname, hashlib.sha256(seg.encode()).hexdigest()[:16], is_method


def function_ast_of(pyfunc):
    """AST of a live python function object defined in an interpretable module."""
    qn = pyfunc.__module__ + "." + pyfunc.__qualname__
    return find_function(qn)


def lambda_ast(fn):
    """AST of a lambda / def used in a contract file: parse the defining file and find the
    Lambda/FunctionDef node at the function's first line with the right argument names."""
    code = fn.__code__
    path = code.co_filename
    if path not in _cache:
        with open(path) as f:
            text = f.read()
        _cache[path] = (ast.parse(text, filename=path), text)
    tree, text = _cache[path]
    key = (path, code.co_firstlineno, code.co_name, code.co_varnames[: code.co_argcount + code.co_kwonlyargcount])
    if key in _cache:
        return _cache[key]
    want = list(code.co_varnames[: code.co_argcount + code.co_kwonlyargcount])
    best = None
    for node in ast.walk(tree):
        if isinstance(node, ast.Lambda) and code.co_name == "<lambda>":
            names = [a.arg for a in node.args.posonlyargs + node.args.args + node.args.kwonlyargs]
            if node.lineno == code.co_firstlineno and names == want:
                best = node
                break
        elif isinstance(node, (ast.FunctionDef, ast.AsyncFunctionDef)) and node.name == code.co_name:
            # decorators shift co_firstlineno to the first decorator line
            first = min([node.lineno] + [d.lineno for d in node.decorator_list])
            if first == code.co_firstlineno:
                best = node
                break
    if best is None:
        raise KeyError(f"cannot locate source of {fn} at {path}:{code.co_firstlineno}")
    _cache[key] = best
    return best


def is_repo_module(modname):
    return modname == "bellows" or modname.startswith("bellows.")


def is_contract_module(modname):
    return modname.startswith("contracts") or modname.startswith("pyvc.spec")
