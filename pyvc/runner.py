"""`./check <property>`: runs every contract / lemma / table obligation registered for the
property against /repo's current working tree, replays refutations natively, applies the
known-findings file, writes evidence and prints VIOLATION / KNOWN-FINDING lines."""
from __future__ import annotations

import argparse
import concurrent.futures as cf
import importlib
import json
import multiprocessing as mp
import os
import sys
import time
import traceback

ROOT = os.path.dirname(os.path.dirname(os.path.abspath(__file__)))
sys.path.insert(0, ROOT)

# which contract modules each property needs (contracts of callees are needed at call sites)
PROPERTY_MODULES = {}
EXTRA_OBLIGATIONS = {}  # prop -> list of callables returning list of dict(name, verdict, backend, t, detail)
STANDINS = {}  # prop -> list of callables(seed, tier) -> dict(name, evaluations, distinct, failures:[...], bound)
NOTES = {}  # prop -> dict(level_note..)


def load_property(prop):
    import contracts.index as index

    index.load(prop)
    return index


def _verify_item(item):
    qn, case_idx, prop = item
    from pyvc import engine
    from pyvc.contracts import REGISTRY

    load_property(prop)
    con = REGISTRY.contracts[qn]
    cases = engine.cases_of(con)
    rep = engine.verify(con, cases[case_idx])
    return rep.to_dict()


def _path_task(task):
    qn, case_idx, prop, prefix, first = task
    from pyvc import engine
    from pyvc.contracts import REGISTRY

    load_property(prop)
    con = REGISTRY.contracts[qn]
    cases = engine.cases_of(con)
    d, new = engine.explore_one(con, cases[case_idx], prefix, first)
    return (qn, case_idx), d, new


MAX_PATHS_PER_FUNCTION = 60000
FUNCTION_BUDGET_S = 600


def verify_all(items, prop, jobs):
    """Path-level work distribution: every path of every (function, case) is one pool task; a task
    returns the decision prefixes of the sibling paths it discovered."""
    from pyvc import engine

    acc = {}
    counts = {}
    started = {}
    ctxm = mp.get_context("fork")
    with cf.ProcessPoolExecutor(max_workers=max(1, jobs), mp_context=ctxm) as ex:
        pending = set()
        key_of = {}

        def submit(key, pre, first):
            f_ = ex.submit(_path_task, (key[0], key[1], prop, pre, first))
            key_of[f_] = key
            pending.add(f_)

        def drop_queued(key, why):
            # paths of that function which are still waiting for a worker are not explored any more: the function
            # is outside reach on this tree (nothing about it is proved; exit 3), the check itself stays bounded in time
            acc[key]["outside_reach"] = acc[key].get("outside_reach") or why
            for f_ in [f_ for f_ in pending if key_of.get(f_) == key]:
                if f_.cancel():
                    pending.discard(f_)

        for qn, ci, _p in items:
            counts[(qn, ci)] = 1
            started[(qn, ci)] = time.time()
            submit((qn, ci), [], True)
        while pending:
            done, pending_ = cf.wait(pending, return_when=cf.FIRST_COMPLETED)
            pending.clear()
            pending.update(pending_)
            for fut in done:
                if fut.cancelled():
                    continue
                key, d, new = fut.result()
                acc[key] = engine.merge_reports(acc.get(key), d)
                if d["error"] or d["outside_reach"]:
                    continue
                if acc[key].get("outside_reach"):
                    continue
                for pre in new:
                    if counts[key] >= MAX_PATHS_PER_FUNCTION:
                        drop_queued(key, f"more than {MAX_PATHS_PER_FUNCTION} paths")
                        break
                    if time.time() - started[key] > FUNCTION_BUDGET_S:
                        drop_queued(key, f"time budget {FUNCTION_BUDGET_S}s exhausted")
                        break
                    counts[key] += 1
                    submit(key, pre, False)
    return [acc[(qn, ci)] for qn, ci, _p in items if (qn, ci) in acc]


def _replay_item(item, repeated=False):
    qn, inputs, only, prop, awaits = item
    from pyvc import replay
    from pyvc.contracts import REGISTRY

    load_property(prop)
    con = REGISTRY.contracts[qn]
    try:
        if repeated:
            r_ = replay.run_native_repeated(con, inputs, only=only, awaits=awaits)
            return r_ if r_ is not None else {"error": "no native history: the constructor's values of the undeclared attributes are not literals"}
        return replay.run_native(con, inputs, only=only, awaits=awaits)
    except Exception as e:
        return {"error": "".join(traceback.format_exception(type(e), e, e.__traceback__))[-2000:]}


def load_known_findings():
    p = os.path.join(ROOT, "known_findings.json")
    if not os.path.exists(p):
        return []
    with open(p) as f:
        return json.load(f).get("findings", [])


def load_baseline():
    p = os.path.join(ROOT, "baseline", "obligations.json")
    if not os.path.exists(p):
        return {}
    with open(p) as f:
        return json.load(f)


def main(argv=None):
    ap = argparse.ArgumentParser()
    ap.add_argument("prop")
    ap.add_argument("--tier", default=os.environ.get("VERIF_TIER", "quick"))
    ap.add_argument("--replay", default=None)
    ap.add_argument("--jobs", type=int, default=min(16, os.cpu_count() or 4))
    ap.add_argument("--write-baseline", action="store_true")
    ap.add_argument("--verbose", "-v", action="store_true")
    args = ap.parse_args(argv)
    seed = int(os.environ.get("VERIF_SEED", "0") or 0)
    tier = args.tier if args.tier in ("quick", "thorough") else "quick"
    if tier == "thorough":
        # thorough tier: every obligation z3 discharges is sent to cvc5 as well (agreement required: a `sat` from
        # cvc5 makes the obligation undecided); read at import time by the worker processes
        os.environ["PYVC_SECOND_OPINION"] = "1"
    prop = args.prop
    t0 = time.time()
    try:
        rc = run_property(prop, tier, seed, args)
    except SystemExit:
        raise
    except Exception:
        traceback.print_exc()
        print(f"CHECKER-ERROR property={prop}")
        rc = 3
    return rc


def run_property(prop, tier, seed, args):
    from pyvc import engine
    from pyvc.contracts import REGISTRY

    t0 = time.time()
    index = load_property(prop)
    if args.replay:
        return do_replay_file(prop, args.replay)
    items = []
    for qn, con in REGISTRY.contracts.items():
        if con.inline and not con.ensures_ and not con.raises_:
            continue  # a pure "execute the real body in place" marker: verified inside its callers
        if prop in con.props and not con.trusted:
            case_ok = (con.restrictions.get(prop) or (None, None))[0]
            for i, cs in enumerate(engine.cases_of(con)):
                if case_ok is not None and cs is not None and not case_ok(cs[0]):
                    continue
                items.append((qn, i, prop))
    reports = []
    if items:
        reports = verify_all(items, prop, args.jobs)
    extra = []
    for fn in index.EXTRA_OBLIGATIONS.get(prop, []):
        extra.extend(fn(tier))
    standins = []
    for fn in index.STANDINS.get(prop, []):
        standins.append(fn(seed, tier))
    selftest_res = None
    if tier == "thorough":
        # engine self-validation (DESIGN 2.10): CPython differential of the value model; a disagreement means the
        # checker is broken (exit 3), whatever the obligations said
        from pyvc import selftest

        selftest_res = selftest.run(seed, 3)

    known = [k for k in load_known_findings() if k["property"] == prop or prop in k.get("also", [])]
    baseline = load_baseline().get(prop, {})
    violations = []
    known_lines = []
    errors = []
    undecided = []
    ob_total = 0
    ob_proved = 0
    fn_rows = []
    backends = {}
    solver_s = 0.0
    assumptions = set()
    dropped = set()
    samples = []
    bounded_only = []
    healthy_reports = []
    for r in reports:
        ob_ok = (REGISTRY.contracts[r["qualname"]].restrictions.get(prop) or (None, None))[1]
        if ob_ok is not None:
            r["obligations"] = {k: v for k, v in r["obligations"].items() if k.endswith("::__canary__") or ob_ok(k)}
            r["refutations"] = [x for x in r["refutations"] if ob_ok(x["obligation"])]
        if r["error"]:
            errors.append((r["qualname"], r["case"], r["error"]))
            continue
        assumptions |= set(r["assumptions"])
        dropped |= set(r["dropped"])
        solver_s += r["solver_s"]
        label = r["qualname"] + (f"[{r['case']}]" if r["case"] else "")
        if r["outside_reach"]:
            bounded_only.append({"function": label, "reason": r["outside_reach"]})
            fn_rows.append({"function": label, "source_hash": r["source_hash"], "status": "outside reach",
                            "reason": r["outside_reach"]})
            # nothing is proved about this function on this tree; but a counterexample found on a path that *was*
            # explored and that fails natively on the real code is a violation all the same (bounded exploration:
            # only refutations that replay are believed)
            seen_ = set()
            for ref in r["refutations"]:
                key = ref["obligation"]
                if key in seen_:
                    continue
                seen_.add(key)
                res = _replay_item((r["qualname"], ref["inputs"], [key], prop, ref.get("awaits")))
                if "error" not in res and any(n_ == key and ok is False for n_, ok, _d in res["judgements"]):
                    ref = dict(ref)
                    ref["model"] = str(ref.get("model"))[:1500] + "\n-- found by bounded exploration of a function outside reach; confirmed natively"
                    handle_refutation(prop, r, ref, res, True, known, baseline, violations, known_lines, undecided)
            # bounded native search (pyvc/bounded.py): the real function on generated inputs of the contract's argument
            # types, judged by the contract's own clauses -- can only add a *confirmed* violation, proves nothing
            try:
                from pyvc import bounded

                con_b = REGISTRY.contracts[r["qualname"]]
                case_b = next((cs for cs in engine.cases_of(con_b) if cs is not None and cs[0] == r["case"]), None)
                found = bounded.search(con_b, case_b, None, seed=seed)
            except Exception as e_b:  # the search is best effort; a harness error is never a verdict
                found = f"error: {e_b!r}"
            if isinstance(found, tuple):
                inputs_b, res_b, names_b, runs_b = found
                for nm in names_b[:3]:
                    ref_b = {"obligation": nm, "case": r["case"], "inputs": inputs_b, "awaits": None,
                             "goal": "(no solver goal: function outside the verifier's reach on this tree)",
                             "model": f"failing input found by bounded native search after {runs_b} runs"}
                    handle_refutation(prop, r, ref_b, res_b, True, known, baseline, violations, known_lines, undecided)
            bounded_only[-1]["bounded_native_search"] = (
                "failing input found" if isinstance(found, tuple) else
                ("no failing input within the bound" if found is None else str(found)))
            continue
        if r["pre_satisfiable"] is False:
            errors.append((r["qualname"], r["case"], "vacuous: precondition unsatisfiable"))
        canary = [k for k in r["obligations"] if k.endswith("::__canary__")]
        missing_fn = any(k.endswith("::exists") and v["verdict"] == "refuted" for k, v in r["obligations"].items())
        if not missing_fn and (not canary or r["obligations"][canary[0]]["verdict"] != "refuted"):
            errors.append((r["qualname"], r["case"], "canary (planted false assertion) was not refuted"))
        n = 0
        for name, o in r["obligations"].items():
            if name.endswith("::__canary__"):
                continue
            n += 1
            ob_total += 1
            for b in o["backends"]:
                backends[b] = backends.get(b, 0) + 1
            if o["verdict"] == "proved":
                ob_proved += 1
            elif o["verdict"] == "undecided":
                undecided.append((label, name))
        # cover (DESIGN 2.10): a contract with postconditions for the normal return is vacuous on a tree where no
        # path returns normally any more; it is an obligation of its own, judged against the baseline (cases that
        # never return -- "always refused" cases -- are not in the baseline and are not reported)
        con_ = REGISTRY.contracts[r["qualname"]]
        if any(on == "return" for _c, _l, on in con_.ensures_):
            cname = r["qualname"] + "::cover.normal_return_reachable"
            ckey = cname + (f" [{r['case']}]" if r.get("case") else "")
            if "return" in r["exits"]:
                r["obligations"][cname] = {"verdict": "proved", "backends": ["path-cover"]}
                n += 1
                ob_total += 1
                ob_proved += 1
            elif baseline.get(ckey) == "proved":
                n += 1
                ob_total += 1
                e_ = {"name": cname, "verdict": "refuted", "witness": None,
                      "detail": f"case {r.get('case')!r}: no path of {r['qualname']} returns normally on this tree (exits: {r['exits']}), "
                                "although the contract states postconditions for the normal return and such a path existed at baseline"}
                handle_extra_refutation(prop, e_, known, violations, known_lines)
        healthy_reports.append((r["qualname"], r.get("case"), label, set(r["obligations"])))
        if n == 0:
            errors.append((r["qualname"], r["case"], "zero obligations generated"))
        fn_rows.append({"function": label, "source_hash": r["source_hash"], "paths": r["paths"], "obligations": n,
                        "exits": r["exits"], "solver_s": r["solver_s"], "wall_s": r["wall_s"]})
        if len(samples) < 8:
            for smp in r.get("samples", [])[:2]:
                samples.append({**smp, "case": r["case"]})
        # refutations -> replay
        seen = set()
        for ref in r["refutations"]:
            key = ref["obligation"]
            if key in seen:
                continue
            seen.add(key)
            if ref.get("aux_reads"):
                # the counter-model sits on a path that read attributes the contract's state does not declare: it is a
                # violation only if a short native history (the same call twice, from the constructor's values)
                # reproduces it on the real code; otherwise the obligation stays undecided (recorded as such already)
                hit = None
                for cand in [x for x in r["refutations"] if x["obligation"] == key and x.get("aux_reads")][:6]:
                    res_h = _replay_item((r["qualname"], cand["inputs"], [key], prop, cand.get("awaits")), repeated=True)
                    if "error" not in res_h and any(n_ == key and ok is False for n_, ok, _d in res_h["judgements"]):
                        hit = (cand, res_h)
                        break
                if hit is not None:
                    undecided[:] = [u for u in undecided if u != (label, key)]
                    handle_refutation(prop, r, hit[0], hit[1], True, known, baseline, violations, known_lines, undecided)
                continue
            res = _replay_item((r["qualname"], ref["inputs"], [key], prop, ref.get("awaits")))
            confirmed = False
            detail = res
            if "error" not in res:
                for n_, ok, d in res["judgements"]:
                    if n_ == key and ok is False:
                        confirmed = True
            if not confirmed:
                # DESIGN 2.9 step 4: the model came from a loop-invariant frontier (or used uninterpreted
                # spec functions freely): look for a real failing input in the contract's small search space
                con_ = REGISTRY.contracts[r["qualname"]]
                space = getattr(con_, "search_space", None)
                if space is not None:
                    for cand in space():
                        res2 = _replay_item((r["qualname"], cand, [key], prop, None))
                        if "error" not in res2 and any(n_ == key and ok is False for n_, ok, _d in res2["judgements"]):
                            ref = dict(ref)
                            ref["inputs"] = cand
                            ref["model"] = str(ref.get("model"))[:1500] + "\n-- concrete failing input found by bounded search of the contract's search space"
                            res, confirmed = res2, True
                            break
            handle_refutation(prop, r, ref, res, confirmed, known, baseline, violations, known_lines, undecided)
        # obligations the solvers left open: the bounded native search may still find a failing input (it can only add
        # a confirmed violation; the obligation stays undecided otherwise)
        und_names = [k for k, o in r["obligations"].items() if o["verdict"] == "undecided"
                     and not any(x["obligation"] == k for x in r["refutations"])]
        if und_names:
            try:
                from pyvc import bounded

                con_b = REGISTRY.contracts[r["qualname"]]
                case_b = next((cs for cs in engine.cases_of(con_b) if cs is not None and cs[0] == r["case"]), None)
                found = bounded.search(con_b, case_b, und_names, seed=seed)
            except Exception:
                found = None
            if isinstance(found, tuple):
                inputs_b, res_b, names_b, runs_b = found
                for nm in names_b[:3]:
                    undecided[:] = [u for u in undecided if u != (label, nm)]
                    ref_b = {"obligation": nm, "case": r["case"], "inputs": inputs_b, "awaits": None,
                             "goal": "(the solvers left this obligation undecided)",
                             "model": f"failing input found by bounded native search after {runs_b} runs"}
                    handle_refutation(prop, r, ref_b, res_b, True, known, baseline, violations, known_lines, undecided)
    if selftest_res is not None:
        for d in selftest_res["disagreements"]:
            errors.append(("engine self-test", d["function"], f"CPython: {d['cpython']}; engine: {d['engine']}; inputs {d['inputs']} ({d['mode']})"))
    # every obligation proved at baseline for a function / case verified in this run must be generated again: a clause
    # that is skipped on every path (it names a local the code no longer has, or its path is gone) would otherwise
    # silently stop being checked.  Not a verdict about the property: undecided (exit 3).
    extra_names = {e["name"] for e in extra}
    for qn_, case_, label_, present_ in healthy_reports:
        suffix_ = f" [{case_}]" if case_ else ""
        for bk, bv in baseline.items():
            if bv != "proved" or not bk.startswith(qn_ + "::") or bk in extra_names:
                continue
            if (bk.endswith("]") and " [" in bk) != bool(suffix_) or (suffix_ and not bk.endswith(suffix_)):
                continue
            name_ = bk[: len(bk) - len(suffix_)] if suffix_ else bk
            if name_ in present_ or name_ in extra_names or "::exc.undeclared" in name_ or name_.endswith("::cover.normal_return_reachable"):
                continue
            undecided.append((label_, name_ + " (proved at baseline, not generated on this tree: the clause no longer attaches to the code)"))
    extra.extend(enum_faithfulness(sorted(a for a in assumptions if a.startswith("enum:"))))
    assumptions = {a for a in assumptions if not a.startswith("enum:")}
    for e in extra:
        ob_total += 1
        backends[e.get("backend", "?")] = backends.get(e.get("backend", "?"), 0) + 1
        solver_s += e.get("t", 0.0)
        if e["verdict"] == "proved":
            ob_proved += 1
            if len(samples) < 8:
                samples.append({"obligation": e["name"], "verdict": "proved", "backends": [e.get("backend")],
                                "detail": e.get("detail", "")[:300]})
        elif e["verdict"] == "refuted":
            handle_extra_refutation(prop, e, known, violations, known_lines)
        elif e["verdict"] == "error":
            errors.append((e["name"], None, e.get("detail")))
        else:
            undecided.append(("table/lemma", e["name"]))
    for s in standins:
        for fail in s.get("failures", []):
            handle_standin_failure(prop, s, fail, known, violations, known_lines)
    # known findings that no longer fail are reported as such in evidence only
    wall = time.time() - t0
    ev = {
        "property_id": prop,
        "tier": tier,
        "seed": seed,
        "level": "proof",
        "coverage": {
            # obligations covered by a listed known finding are reported separately, not as discharged
            "obligations": ob_total - KNOWN_COUNT[0],
            "discharged": ob_proved,
            "obligations_refuted_by_known_findings": KNOWN_COUNT[0],
            "checker_cmd": f"./check {prop} --tier {tier}",
            "trusted_base": sorted(a for a in assumptions if a.startswith("external:") or a.startswith("record:"))
            + index.TRUSTED.get(prop, []),
            "samples": samples or [{"note": "no obligations"}],
            "functions_under_contract": fn_rows,
            "backends": backends,
            "solver_s": round(solver_s, 3),
            "undecided": [f"{a}: {b}" for a, b in undecided],
            "bounded_standins": [{k: v for k, v in s.items() if k != "failures"} for s in standins],
            "bounded_only_functions": bounded_only,
            "dropped_constructs": sorted(dropped),
            "contracts_used_at_call_sites": sorted(a for a in assumptions if a.startswith("contract:")),
            "known_findings": known_lines,
            "engine_selftest": selftest_res if selftest_res is not None else "thorough tier only",
            "explanation": _claim(prop).get("text", ""),
        },
        "assumptions": sorted(assumptions) + index.ASSUMPTIONS.get(prop, []) + ([_claim(prop)["note"]] if _claim(prop).get("note") else []),
        "wall_s": round(wall, 3),
        "violations": len(violations),
    }
    evdir = os.environ.get("PYVC_EVIDENCE_DIR") or os.path.join(ROOT, "evidence")  # scratch dir for trial runs
    os.makedirs(evdir, exist_ok=True)
    with open(os.path.join(evdir, f"{prop}.json"), "w") as f:
        json.dump(ev, f, indent=1, default=str)
    for line in known_lines:
        print(line)
    if args.verbose or errors or undecided:
        for e in errors:
            print("ENGINE-ERROR", e[0], e[1], str(e[2])[-1500:], file=sys.stderr)
        for u in undecided:
            print("UNDECIDED", u, file=sys.stderr)
        for b in bounded_only:
            print("OUTSIDE-REACH", b, file=sys.stderr)
    print(f"[{prop}] obligations={ob_total - KNOWN_COUNT[0]} discharged={ob_proved} functions={len(fn_rows)} "
          f"standins={sum(s.get('evaluations', 0) for s in standins)} violations={len(violations)} wall={wall:.1f}s")
    if args.write_baseline:
        write_baseline(prop, reports, extra)
    if violations:
        for v in violations:
            print(v)
        return 1
    if errors:
        return 3
    if undecided or bounded_only:
        # never a verdict: neither "held" nor a violation
        print(f"UNDECIDED property={prop}: {len(undecided)} obligation(s) undecided, {len(bounded_only)} function(s) outside reach"
              " (run with -v for the list)")
        return 3
    return 0


def _claim(prop):
    try:
        from contracts.claims import CLAIMS

        return CLAIMS.get(prop, {})
    except Exception:
        return {}


def enum_faithfulness(names):
    """The engine models `Cls(v)` for an integer enum as (Cls, v): the member or pseudo-member *keeps the value it was
    built from*.  That is a fact about the live class (its members and its `_missing_`), so it is an obligation, checked
    here for every enum class some path constructed from a symbolic value: exhaustively over the class's whole range
    when that has at most 2**16 values, else over all defined members, the range boundaries and 4096 fixed
    pseudo-random values (stated in the obligation's detail)."""
    import random

    from .values import enum_accepts_undefined, enum_range

    out = []
    for a in names:
        _tag, mod, qn = a.split(":", 2)
        t0 = time.time()
        try:
            cls = importlib.import_module(mod)
            for part in qn.split("."):
                cls = getattr(cls, part)
        except Exception as e:
            out.append({"name": f"{mod}.{qn}::enum.construction_keeps_the_value", "verdict": "error", "detail": repr(e)})
            continue
        rng = enum_range(cls)
        members = sorted({int(m) for m in cls.__members__.values()})
        if rng and rng[1] - rng[0] < (1 << 16):
            values, how = range(rng[0], rng[1] + 1), f"exhaustive over {rng[0]}..{rng[1]}"
        elif rng:
            r_ = random.Random(20260929)
            values = sorted(set(members) | {rng[0], rng[0] + 1, rng[1] - 1, rng[1]} | {r_.randint(rng[0], rng[1]) for _ in range(4096)})
            how = f"defined members, range boundaries and 4096 fixed pseudo-random values of {rng[0]}..{rng[1]} (sampled, not exhaustive)"
        else:
            values, how = members, "defined members"
        undefined_ok = enum_accepts_undefined(cls)
        bad = []
        for v in values:
            if not undefined_ok and v not in members:
                continue
            try:
                m = cls(v)
                if int(m) != v or type(m) is not cls:
                    bad.append((v, repr(m)))
            except Exception as e:  # the model says the value is accepted
                bad.append((v, repr(e)))
            if len(bad) >= 3:
                break
        out.append({"name": f"{mod}.{qn}::enum.construction_keeps_the_value", "verdict": "proved" if not bad else "refuted",
                    "backend": "live-table", "t": round(time.time() - t0, 3),
                    "detail": f"{qn}(v) is a (pseudo-)member of {qn} with value v: {how}",
                    "witness": {"class": f"{mod}.{qn}", "value -> constructed": bad} if bad else None})
    return out


def replay_path(prop, obligation):
    safe = obligation.replace("::", "-").replace("/", "_").replace(":", "_").replace("[", "_").replace("]", "_")
    base = os.environ.get("PYVC_EVIDENCE_DIR")  # trial runs (seeded changes) write beside their scratch evidence
    d = os.path.join(base, "replays") if base else os.path.join(ROOT, "replays")
    os.makedirs(d, exist_ok=True)
    return os.path.join(d if base else "replays", f"{prop}-{safe}.json")


def matches_known(k, obligation, case):
    """A listed finding covers exactly: this obligation, in the cases its `case` pattern names."""
    import re

    if k.get("status") != "known":
        return False
    if k["obligation"] != obligation:
        return False
    pat = k.get("case")
    if pat is not None and not re.search(pat, case or ""):
        return False
    return True


_witness_cache = {}
KNOWN_COUNT = [0]  # (case, obligation) pairs refuted on this run that a listed finding covers


def witness_still_fails(k):
    """Re-runs the finding's native witness against the real code (module:function returning True while the
    defect is present)."""
    w = k.get("witness_fn")
    if not w:
        return True
    if w not in _witness_cache:
        modname, fn = w.split(":")
        try:
            _witness_cache[w] = bool(getattr(importlib.import_module(modname), fn)())
        except Exception as e:  # the witness itself broke: do not hide anything behind it
            print(f"known-finding witness {w} raised {e!r}", file=sys.stderr)
            _witness_cache[w] = False
    return _witness_cache[w]


def handle_refutation(prop, r, ref, res, confirmed, known, baseline, violations, known_lines, undecided):
    ob = ref["obligation"]
    path = replay_path(prop, ob)
    doc = {"property": prop, "obligation": ob, "function": r["qualname"], "case": ref["case"],
           "inputs": ref["inputs"], "awaits": ref.get("awaits"), "solver_goal": ref["goal"],
           "solver_model": ref["model"], "native_replay": res, "confirmed_natively": confirmed}
    for k in known:
        if matches_known(k, ob, ref.get("case")) and witness_still_fails(k):
            line = f"KNOWN-FINDING: property={prop} {k['what']}"
            if line not in known_lines:
                known_lines.append(line)
            KNOWN_COUNT[0] += 1
            return
    if confirmed:
        with open(os.path.join(ROOT, path), "w") as f:
            json.dump(doc, f, indent=1, default=str)
        line = f"VIOLATION property={prop} replay={path}"
        if line not in violations:
            violations.append(line)
        return
    bkey = ob + (f" [{ref.get('case')}]" if ref.get("case") else "")
    was_proved = baseline.get(bkey) == "proved"
    if not was_proved and "::exc.undeclared:" in ob:
        # an exception class the contract does not allow: at baseline no path raised it (the obligation
        # only exists when violated); it counts as proved there if everything else of that function/case was
        pref = ob.split("::")[0] + "::"
        suffix = f" [{ref.get('case')}]" if ref.get("case") else ""
        mine = [v for k_, v in baseline.items() if k_.startswith(pref) and k_.endswith(suffix)]
        was_proved = bool(mine) and all(v == "proved" for v in mine)
    if was_proved:
        doc["note"] = ("obligation proved at baseline is refuted on this tree; the solver's counterexample "
                       "could not be realised natively (pre-state or interference not reachable by replay)")
        with open(os.path.join(ROOT, path), "w") as f:
            json.dump(doc, f, indent=1, default=str)
        line = f"VIOLATION property={prop} replay={path} no-failing-input-found"
        if line not in violations:
            violations.append(line)
    else:
        undecided.append((r["qualname"], ob + " (refuted, replay did not confirm, not in baseline)"))


def handle_extra_refutation(prop, e, known, violations, known_lines):
    for k in known:
        if k.get("status") == "known" and k["obligation"] == e["name"] and k.get("witness") == e.get("witness"):
            known_lines.append(f"KNOWN-FINDING: property={prop} {k['what']}")
            return
    path = replay_path(prop, e["name"])
    with open(os.path.join(ROOT, path), "w") as f:
        json.dump({"property": prop, "obligation": e["name"], "detail": e.get("detail"),
                   "witness": e.get("witness")}, f, indent=1, default=str)
    tail = "" if e.get("witness") is not None else " no-failing-input-found"
    line = f"VIOLATION property={prop} replay={path}{tail}"
    if line not in violations:
        violations.append(line)


def handle_standin_failure(prop, s, fail, known, violations, known_lines):
    for k in known:
        if k.get("status") == "known" and k["obligation"] == fail["obligation"] and _region_match(k, fail):
            line = f"KNOWN-FINDING: property={prop} {k['what']}"
            if line not in known_lines:
                known_lines.append(line)
            return
    path = replay_path(prop, "standin-" + fail["obligation"])
    with open(os.path.join(ROOT, path), "w") as f:
        json.dump({"property": prop, "bounded_standin": s.get("name"), **fail}, f, indent=1, default=str)
    line = f"VIOLATION property={prop} replay={path}"
    if line not in violations:
        violations.append(line)


def _region_match(k, fail):
    reg = k.get("region_match")
    if not reg:
        return True
    inp = json.dumps(fail.get("inputs"), sort_keys=True, default=str)
    return all(tok in inp for tok in reg)


def write_baseline(prop, reports, extra):
    p = os.path.join(ROOT, "baseline", "obligations.json")
    os.makedirs(os.path.dirname(p), exist_ok=True)
    data = {}
    if os.path.exists(p):
        with open(p) as f:
            data = json.load(f)
    cur = {}
    for r in reports:
        for name, o in r["obligations"].items():
            if name.endswith("::__canary__"):
                continue
            key = name + (f" [{r['case']}]" if r.get("case") else "")
            prev = cur.get(key, "proved")
            cur[key] = o["verdict"] if prev == "proved" else prev
    for e in extra:
        cur[e["name"]] = e["verdict"]
    data[prop] = cur
    with open(p, "w") as f:
        json.dump(data, f, indent=1, sort_keys=True)


def do_replay_file(prop, path):
    from pyvc.contracts import REGISTRY

    with open(os.path.join(ROOT, path) if not os.path.isabs(path) else path) as f:
        doc = json.load(f)
    if "function" not in doc:
        print(json.dumps(doc, indent=1)[:4000])
        return 0
    # a counter-model over undeclared attributes was confirmed by a two-call history: replayed the same way
    repeated = str((doc.get("native_replay") or {}).get("mode", "")).startswith("history of two identical calls")
    res = _replay_item((doc["function"], doc["inputs"], [doc["obligation"]], prop, doc.get("awaits")), repeated=repeated)
    print(json.dumps(res, indent=1, default=str))
    bad = [j for j in res.get("judgements", []) if j[1] is False]
    if bad:
        print(f"VIOLATION property={prop} replay={path}")
        return 1
    return 0


if __name__ == "__main__":
    sys.exit(main())
