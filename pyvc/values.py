"""Symbolic value model of PyVC.

Concrete Python values stay concrete and are operated on by CPython.  The
classes below are the symbolic counterparts; every one wraps z3 terms.  The
Python semantics each one assumes is stated in its docstring; these rules are
the trusted core validated by selftest.py (CPython differential).
"""
from __future__ import annotations

import enum
import itertools

import z3

BV8 = z3.BitVecSort(8)
ByteSeq = z3.SeqSort(BV8)
IntSeq = z3.SeqSort(z3.IntSort())


class Sym:
    """Base class of symbolic values."""

    __slots__ = ()


class SInt(Sym):
    """Python int -> mathematical Int (exact: Python ints are unbounded)."""

    __slots__ = ("t",)

    def __init__(self, t):
        if isinstance(t, int):
            t = z3.IntVal(t)
        self.t = t

    def __repr__(self):
        return f"SInt({self.t})"


class SReal(Sym):
    """Python float -> mathematical Real (assumption: float rounding ignored)."""

    __slots__ = ("t",)

    def __init__(self, t):
        self.t = t

    def __repr__(self):
        return f"SReal({self.t})"


class SBool(Sym):
    __slots__ = ("t",)

    def __init__(self, t):
        if isinstance(t, bool):
            t = z3.BoolVal(t)
        self.t = t

    def __repr__(self):
        return f"SBool({self.t})"


class SBytes(Sym):
    """bytes / bytearray content -> Seq(BitVec 8).  `mutable` marks bytearray."""

    __slots__ = ("t", "mutable")

    def __init__(self, t, mutable=False):
        self.t = t
        self.mutable = mutable

    def __repr__(self):
        return f"S{'ByteArray' if self.mutable else 'Bytes'}({self.t})"


class SEnum(Sym):
    """Member (defined or, where the live class admits it, undefined) of a live enum
    class.  `v` is the integer value for int-based enums, the member index otherwise."""

    __slots__ = ("cls", "v")

    def __init__(self, cls, v):
        self.cls = cls
        self.v = v if not isinstance(v, int) else z3.IntVal(v)

    def __repr__(self):
        return f"SEnum({self.cls.__name__},{self.v})"


def enum_is_int(cls):
    return issubclass(cls, int)


def enum_members(cls):
    return list(cls.__members__.values())


def enum_to_int(m):
    """Concrete member -> the integer SEnum uses for it."""
    if isinstance(m, int):
        return int(m)
    return list(type(m).__members__.values()).index(m)


def enum_accepts_undefined(cls):
    """Does the live class construct pseudo-members for undefined values?"""
    if not enum_is_int(cls):
        return False
    used = {int(m) for m in cls.__members__.values()}
    for cand in range(0, 300):
        if cand not in used:
            try:
                cls(cand)
                return True
            except Exception:
                return False
    return False


def enum_range(cls):
    """(lo, hi) inclusive bounds of values the class can hold, or None."""
    if not enum_is_int(cls):
        return (0, len(cls.__members__) - 1)
    for base in cls.__mro__:
        bits = getattr(base, "_bits", None) or getattr(base, "_size", None)
        if isinstance(getattr(base, "_bits", None), int):
            signed = getattr(base, "_signed", False)
            b = base._bits
            return (-(1 << (b - 1)), (1 << (b - 1)) - 1) if signed else (0, (1 << b) - 1)
    return None


class SOpt(Sym):
    """Optional[X]: `present` false means None."""

    __slots__ = ("present", "value")

    def __init__(self, present, value):
        self.present = present
        self.value = value

    def __repr__(self):
        return f"SOpt({self.present},{self.value})"


_obj_ids = itertools.count(1)

# per-path registries used by the await rule (reset by engine.run_path)
LIVE_FUTURES = []
LIVE_EXT = []


class SObj:
    """Engine-level record with identity.  `cls` is the live class (or an ExtClass)."""

    __slots__ = ("cls", "fields", "oid", "frozen", "tag")

    def __init__(self, cls, fields=None, frozen=False, tag=None):
        self.cls = cls
        self.fields = dict(fields or {})
        self.oid = next(_obj_ids)
        self.frozen = frozen
        self.tag = tag
        if isinstance(cls, ExtClass):
            LIVE_EXT.append(self)

    def __repr__(self):
        n = getattr(self.cls, "__name__", str(self.cls))
        return f"<{n}#{self.oid} {self.fields}>"


class ExtClass:
    """Class of an external collaborator (transport, gateway, application, ...).  Its
    methods are assumed contracts: `effects` are recorded in fx, `pure` return a field
    expression; anything else is outside reach."""

    def __init__(self, name, methods=None, fields=None):
        self.__name__ = name
        self.methods = methods or {}
        self.field_types = fields or {}
        self.dynamic = None  # callable(name) -> ExtMethod | None : attribute-driven dispatch (__getattr__)
        self.stable_fields = ()

    def __repr__(self):
        return f"Ext<{self.__name__}>"


class SFunc:
    """Closure created by a nested def / lambda in interpreted code."""

    __slots__ = ("node", "env", "module", "qualname", "defaults", "kwdefaults", "bound_self")

    def __init__(self, node, env, module, qualname, defaults=(), kwdefaults=None, bound_self=None):
        self.node = node
        self.env = env
        self.module = module
        self.qualname = qualname
        self.defaults = defaults
        self.kwdefaults = kwdefaults or {}
        self.bound_self = bound_self


class BoundMethod:
    __slots__ = ("func", "self", "qualname", "cls")

    def __init__(self, func, self_, qualname, cls=None):
        self.func = func
        self.self = self_
        self.qualname = qualname
        self.cls = cls

    def __repr__(self):
        return f"<bound {self.qualname}>"

    # the two attributes of a real bound method, so that a contract clause reads the same in both modes
    @property
    def __func__(self):
        return self.func

    @property
    def __self__(self):
        return self.self

    def __call__(self, *a, **k):  # only so that functools.partial accepts it; the engine dispatches calls
        raise TypeError("engine-level bound method called natively")


class SFuture:
    """asyncio.Future (assumed contract, DESIGN 2.5): state 0 pending, 1 result,
    2 exception, 3 cancelled.  `result` / `exc` hold engine values."""

    __slots__ = ("state", "result", "exc", "oid", "ghost", "callbacks", "fresh_in_call")

    def __init__(self, state=0, result=None, exc=None, ghost=None):
        self.state = state if not isinstance(state, int) else z3.IntVal(state)
        self.result = result
        self.exc = exc
        self.oid = next(_obj_ids)
        self.ghost = dict(ghost or {})
        self.callbacks = []
        self.fresh_in_call = False
        LIVE_FUTURES.append(self)

    def __repr__(self):
        return f"<Future#{self.oid} state={self.state}>"


class SDict:
    """dict with symbolic contents over integer-like keys.

    `has`: Array(Int -> Bool).  Values are described by `cols`: name -> Array(Int -> sort)
    (struct of arrays).  `vtype` tells how a row is presented to the program (see
    types.DictT).  Insertion order is not modelled here (OrderedSDict does that); code that
    iterates a plain SDict needs a loop contract phrased over the arrays."""

    __slots__ = ("has", "cols", "vtype", "oid", "keydom")

    def __init__(self, has, cols, vtype, keydom=None):
        self.has = has
        self.cols = dict(cols)
        self.vtype = vtype
        self.oid = next(_obj_ids)
        self.keydom = keydom


class SList:
    """list with concrete spine (python list of engine values)."""


class Opaque(Sym):
    """Uninterpreted value of a named sort (e.g. an f-string, a schema-typed payload).
    Equality only."""

    __slots__ = ("t", "kind")

    def __init__(self, t, kind="opaque"):
        self.t = t
        self.kind = kind

    def __repr__(self):
        return f"Opaque<{self.kind}>({self.t})"


OpaqueSort = z3.DeclareSort("Opaque")


def is_sym(v):
    return isinstance(v, Sym)


def any_sym(*vs):
    return any(isinstance(v, Sym) for v in vs)
