"""Bounded native search for a function that is *outside the verifier's reach* on the tree under analysis (a
rewrite into constructs the engine does not execute: a regular expression, a C extension call ...).

Nothing is proved by it and it never turns an exit 3 into an exit 0: the function stays "outside reach" in the evidence.
What it can do is turn an exit 3 into a *confirmed* violation: the real function is run on generated inputs of the
contract's argument types and every run is judged natively against the contract's own clauses (`replay.run_native`,
the same judge that confirms solver counterexamples).  "Trusting only refutations that replay on the real code."

Bound (stated in the evidence): synchronous functions without receiver state only; byte strings over a 20-symbol
alphabet (the reserved bytes of the ASH specification, their escaped counterparts, four ordinary bytes), exhaustive
up to length 3, eleven long strings (127 .. 1025 bytes) and random strings up to length 12; integers at the range ends and random inside; enums over
their members; at most MAX_RUNS runs and 60 s per function and case.
"""
from __future__ import annotations

import itertools
import random

from .contracts import BoolT, BytesT, ConstT, EnumT, IntT

N_RANDOM = 6000
MAX_RUNS = 12000
ALPHABET = [0x7E, 0x7D, 0x11, 0x13, 0x18, 0x1A, 0x5E, 0x5D, 0x31, 0x33, 0x38, 0x3A, 0x00, 0x42, 0x80, 0xFF, 0x20, 0x5C, 0x99, 0x7F]


def _enum_values(cls):
    import enum

    return [m for m in cls.__members__.values() if isinstance(m, enum.Enum)]


def samples(ty, rng):
    """An iterator factory over JSON-form inputs of the type (the replay builder's input language), or None."""
    if isinstance(ty, BoolT):
        return lambda: iter([False, True])
    if isinstance(ty, IntT) and ty.cls is None:
        lo = ty.lo if ty.lo is not None else -3
        hi = ty.hi if ty.hi is not None else 70000
        edge = sorted({lo, min(lo + 1, hi), (lo + hi) // 2, max(hi - 1, lo), hi})

        def gen():
            yield from edge
            while True:
                yield rng.randint(lo, hi)
        return gen
    if isinstance(ty, BytesT):
        lo = ty.minlen or 0
        hi = ty.maxlen if ty.maxlen is not None else 12

        def gen():
            for n in range(lo, min(hi, 3) + 1):
                for tup in itertools.product(ALPHABET, repeat=n):
                    yield {"__bytes__": bytes(tup).hex(), "mutable": ty.mutable}
                if n == 2 and ty.maxlen is None:
                    # a few long strings around the sizes the link layer knows (data field 256, receive buffer 1024)
                    for ln in (127, 128, 129, 200, 255, 256, 257, 300, 1023, 1024, 1025):
                        yield {"__bytes__": bytes(rng.choice(ALPHABET) for _ in range(ln)).hex(), "mutable": ty.mutable}
            while True:
                n = rng.randint(lo, hi)
                yield {"__bytes__": bytes(rng.choice(ALPHABET) for _ in range(n)).hex(), "mutable": ty.mutable}
        return gen
    if isinstance(ty, EnumT):
        vals = _enum_values(ty.cls)
        if not vals:
            return None
        q = f"{ty.cls.__module__}.{ty.cls.__qualname__}"

        def gen():
            while True:
                for m in vals:
                    yield {"__enum__": q, "value": m.name if not isinstance(m.value, int) else int(m.value)}
        return gen
    if isinstance(ty, ConstT):
        v = ty.value
        if isinstance(v, type):
            return lambda: itertools.repeat({"__class__": f"{v.__module__}.{v.__qualname__}"})
        if v is None or isinstance(v, (bool, int, str)):
            return lambda: itertools.repeat(v)
    return None


def search(con, case, only, seed=0, max_runs=MAX_RUNS, budget_s=60.0):
    """First generated input on which the real function violates one of the obligations in `only` (names), as
    (inputs, native result), or None.  Returns "not-applicable" when the function is not within the stated bound."""
    import ast

    from . import replay, source

    try:
        node, _m, _h = source.find_function(con.qualname)
    except KeyError:
        return "not-applicable"
    if isinstance(node, ast.AsyncFunctionDef) or con.self_spec is not None:
        return "not-applicable"
    types = dict(con.args)
    if case is not None:
        types.update(case[1])
    rng = random.Random(seed)
    gens = {}
    for name, ty in types.items():
        g = samples(ty, rng)
        if g is None:
            return "not-applicable"
        gens[name] = g()
    if not gens:
        return "not-applicable"
    only = list(only) if only else None
    runs = 0
    exhausted = False
    import time as _time

    t_end = _time.time() + budget_s
    while runs < max_runs and not exhausted and _time.time() < t_end:
        inputs = {}
        for name, it in gens.items():
            try:
                inputs[name] = next(it)
            except StopIteration:
                exhausted = True
                break
        if exhausted:
            break
        if con.requires_ and not _requires_hold(con, inputs):
            continue
        runs += 1
        try:
            res = replay.run_native(con, inputs, only=None)
        except Exception:
            continue
        if "error" in res:
            continue
        bad = [(n, d) for n, ok, d in res["judgements"] if ok is False and (only is None or n in only)]
        if bad:
            res["mode"] = (f"bounded native search of a function outside the verifier's reach (run {runs}, seed {seed}; "
                           "see pyvc/bounded.py for the bound); " + res.get("mode", ""))
            return inputs, res, [n for n, _d in bad], runs
    return None


def _requires_hold(con, inputs):
    from . import replay
    from .contracts import REGISTRY, eval_clause
    from .ctx import Ctx
    from .interp import Interp

    try:
        b = {k: replay.Builder(replay.Recorder()).build(v) for k, v in inputs.items()}
        I = Interp(Ctx(), REGISTRY)
        I.native = True
        for _cid, lam in con.requires_:
            names = lam.__code__.co_varnames[: lam.__code__.co_argcount]
            if not bool(eval_clause(I, lam, {n: b[n] for n in names if n in b})):
                return False
        return True
    except Exception:
        return False
