/-
C02, specification-level lemma (independent of /repo): ANY scanner whose iterations obey the per-iteration
clauses proved on the real loop of `AshProtocol.data_received` (relation `Step`), and which stops under the
proved exit conditions (`Final`), computes exactly the byte-at-a-time reference decoder `run` (UG101: flag,
cancel, substitute, XON/XOFF handling) -- for every buffer content and every chunk, no length bound
(`callback_refines`); and the reference decoder over a stream does not depend on how the stream is cut into
reads (`run_append`, `runChunks_eq`).  Events are the raw runs terminated by a FLAG (what is then decoded by
`_unstuff_bytes` / `parse_frame`, a function of the run alone, proved separately on the real code).
-/
set_option linter.unusedSimpArgs false

namespace Ash

abbrev Byte := Nat
def FLAG : Byte := 0x7E
def XON : Byte := 0x11
def XOFF : Byte := 0x13
def SUB : Byte := 0x18
def CAN : Byte := 0x1A

def isRWE (b : Byte) : Bool := b == FLAG || b == XON || b == XOFF || b == SUB || b == CAN

structure St where
  buf : List Byte
  disc : Bool
deriving DecidableEq, Repr

/-- reference decoder, one byte at a time: new state and the runs terminated by this byte -/
def step (s : St) (b : Byte) : St × List (List Byte) :=
  if b == XON || b == XOFF then (s, [])
  else if b == SUB then (⟨[], true⟩, [])
  else if b == CAN then ((if s.disc then s else ⟨[], false⟩), [])
  else if b == FLAG then
    (if s.disc then (⟨[], false⟩, [])
     else if s.buf = [] then (⟨[], false⟩, []) else (⟨[], false⟩, [s.buf]))
  else (if s.disc then (s, []) else (⟨s.buf ++ [b], false⟩, []))

def run : St → List Byte → St × List (List Byte)
  | s, [] => (s, [])
  | s, b :: l => ((run (step s b).1 l).1, (step s b).2 ++ (run (step s b).1 l).2)

def noRWE (x : List Byte) : Prop := ∀ b ∈ x, isRWE b = false
def noFLAG (x : List Byte) : Prop := ∀ b ∈ x, b ≠ FLAG

/-- cutting the stream anywhere does not matter -/
theorem run_append (s : St) (x y : List Byte) :
    run s (x ++ y) = ((run (run s x).1 y).1, (run s x).2 ++ (run (run s x).1 y).2) := by
  induction x generalizing s with
  | nil => simp [run]
  | cons b l ih => simp [run, ih, List.append_assoc]

/-- a run of ordinary bytes is just accumulated -/
theorem run_noRWE (buf x : List Byte) (h : noRWE x) :
    run ⟨buf, false⟩ x = (⟨buf ++ x, false⟩, []) := by
  induction x generalizing buf with
  | nil => simp [run]
  | cons b l ih =>
    have hb : isRWE b = false := h b (by simp)
    have hl : noRWE l := fun c hc => h c (by simp [hc])
    simp only [isRWE, Bool.or_eq_false_iff] at hb
    obtain ⟨⟨⟨⟨h1, h2⟩, h3⟩, h4⟩, h5⟩ := hb
    have : step ⟨buf, false⟩ b = (⟨buf ++ [b], false⟩, []) := by
      simp [step, h1, h2, h3, h4, h5]
    simp [run, this, ih (buf ++ [b]) hl, List.append_assoc]

/-- while discarding, nothing but a FLAG changes anything -/
theorem run_disc_noFLAG (x : List Byte) (h : noFLAG x) :
    run ⟨[], true⟩ x = (⟨[], true⟩, []) := by
  induction x with
  | nil => simp [run]
  | cons b l ih =>
    have hb : b ≠ FLAG := h b (by simp)
    have hl : noFLAG l := fun c hc => h c (by simp [hc])
    have : step ⟨[], true⟩ b = (⟨[], true⟩, []) := by
      unfold step
      have : (b == FLAG) = false := by simpa using hb
      by_cases c1 : (b == XON || b == XOFF) = true
      · simp [c1]
      · by_cases c2 : (b == SUB) = true
        · simp [c1, c2]
        · by_cases c3 : (b == CAN) = true
          · simp [c1, c2, c3]
          · simp [c1, c2, c3, this]
    simp [run, this, ih hl]

/-- one step of the scanner, as proved clause by clause on the real loop (`x` = the bytes in front of the first
    reserved byte; `rest` = what follows it) -/
inductive Step : List Byte × Bool → List Byte × Bool × List (List Byte) → Prop
  | flag (x rest : List Byte) : noRWE x →
      Step (x ++ FLAG :: rest, false) (rest, false, if x = [] then [] else [x])
  | cancel (x rest : List Byte) : noRWE x → Step (x ++ CAN :: rest, false) (rest, false, [])
  | substitute (x rest : List Byte) : noRWE x → Step (x ++ SUB :: rest, false) (rest, true, [])
  | xonxoff (x rest : List Byte) (c : Byte) : noRWE x → (c = XON ∨ c = XOFF) →
      Step (x ++ c :: rest, false) (x ++ rest, false, [])
  | resync (y rest : List Byte) : noFLAG y → Step (y ++ FLAG :: rest, true) (rest, false, [])

/-- exit conditions of the scanner and the residue it keeps -/
inductive Final : List Byte × Bool → List Byte → Prop
  | idle (p : List Byte) : noRWE p → Final (p, false) p
  | discarding (p : List Byte) : noFLAG p → Final (p, true) []

theorem step_sound {p : List Byte} {d : Bool} {p' : List Byte} {d' : Bool} {e : List (List Byte)}
    (h : Step (p, d) (p', d', e)) :
    run ⟨[], d⟩ p = ((run ⟨[], d'⟩ p').1, e ++ (run ⟨[], d'⟩ p').2) := by
  cases h with
  | flag x rest hx =>
    rw [run_append, run_noRWE [] x hx]
    by_cases hxe : x = []
    · subst hxe; simp [run, step, FLAG, XON, XOFF, SUB, CAN]
    · simp [run, step, FLAG, XON, XOFF, SUB, CAN, hxe]
  | cancel x rest hx =>
    rw [run_append, run_noRWE [] x hx]
    simp [run, step, FLAG, XON, XOFF, SUB, CAN]
  | substitute x rest hx =>
    rw [run_append, run_noRWE [] x hx]
    simp [run, step, FLAG, XON, XOFF, SUB, CAN]
  | xonxoff x rest c hx hc =>
    rw [run_append, run_noRWE [] x hx, run_append, run_noRWE [] x hx]
    rcases hc with hc | hc <;> subst hc <;> simp [run, step, FLAG, XON, XOFF, SUB, CAN]
  | resync y rest hy =>
    rw [run_append, run_disc_noFLAG y hy]
    simp [run, step, FLAG, XON, XOFF, SUB, CAN]

/-- any number of scanner steps, with the runs handed up on the way -/
inductive Steps : List Byte × Bool → List Byte × Bool × List (List Byte) → Prop
  | refl (p : List Byte) (d : Bool) : Steps (p, d) (p, d, [])
  | cons {p d p1 d1 e1 p2 d2 e2} : Step (p, d) (p1, d1, e1) → Steps (p1, d1) (p2, d2, e2) →
      Steps (p, d) (p2, d2, e1 ++ e2)

theorem final_sound {p : List Byte} {d : Bool} {b : List Byte} (h : Final (p, d) b) :
    run ⟨[], d⟩ p = (⟨b, d⟩, []) := by
  cases h with
  | idle p hp => simpa using run_noRWE [] p hp
  | discarding p hp => exact run_disc_noFLAG p hp

theorem steps_sound {c : List Byte × Bool} {r : List Byte × Bool × List (List Byte)} {b : List Byte}
    (h : Steps c r) (hf : Final (r.1, r.2.1) b) :
    run ⟨[], c.2⟩ c.1 = (⟨b, r.2.1⟩, r.2.2) := by
  induction h with
  | refl p d => simpa using final_sound hf
  | cons hs _ ih =>
    have := step_sound hs
    simp only at ih
    rw [this, ih hf]

/-- state invariant between callbacks: the residue holds no reserved byte, and nothing while discarding -/
def Inv (b : List Byte) (d : Bool) : Prop := noRWE b ∧ (d = true → b = [])

theorem final_inv {p : List Byte} {d : Bool} {b : List Byte} (h : Final (p, d) b) : Inv b d := by
  cases h with
  | idle p hp => exact ⟨hp, by simp⟩
  | discarding p hp => exact ⟨(fun c hc => by cases hc), (fun _ => rfl)⟩

/-- MAIN: one call of the receive callback, whatever the residue `b`, discard flag `d` and chunk: if the scanner
    makes steps allowed by `Step` from the buffer `b ++ chunk` and stops in a `Final` configuration, then the runs
    it handed up and the state it leaves are those of the byte-at-a-time reference decoder continuing from
    (`b`, `d`) over the chunk. -/
theorem callback_refines (b chunk : List Byte) (d : Bool) (hinv : Inv b d)
    {p' : List Byte} {d' : Bool} {evs : List (List Byte)} {b' : List Byte}
    (hs : Steps (b ++ chunk, d) (p', d', evs)) (hf : Final (p', d') b') :
    run ⟨b, d⟩ chunk = (⟨b', d'⟩, evs) ∧ Inv b' d' := by
  refine ⟨?_, final_inv hf⟩
  have h := steps_sound hs hf
  simp only at h
  rw [run_append] at h
  cases d with
  | false =>
    rw [run_noRWE [] b hinv.1] at h
    simp only [List.nil_append] at h
    exact Prod.ext (by simpa using congrArg Prod.fst h) (by simpa using congrArg Prod.snd h)
  | true =>
    have hb : b = [] := hinv.2 rfl
    subst hb
    simp only [run, List.nil_append] at h
    exact Prod.ext (by simpa using congrArg Prod.fst h) (by simpa using congrArg Prod.snd h)

/-- the reference decoder fed read by read -/
def runChunks : St → List (List Byte) → St × List (List Byte)
  | s, [] => (s, [])
  | s, c :: cs => ((runChunks (run s c).1 cs).1, (run s c).2 ++ (runChunks (run s c).1 cs).2)

/-- independence of the chunking: feeding the reads one by one is feeding their concatenation -/
theorem runChunks_eq (s : St) (cs : List (List Byte)) : runChunks s cs = run s cs.flatten := by
  induction cs generalizing s with
  | nil => simp [runChunks, run]
  | cons c cs ih => simp [runChunks, ih, run_append]

end Ash

#print axioms Ash.callback_refines
#print axioms Ash.runChunks_eq
#print axioms Ash.run_append
