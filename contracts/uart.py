"""Contracts on bellows/uart.py: Gateway (C11 reset handshake, C10 failure reporting, C09 bring-up)."""
import asyncio

import bellows.ash as ash
import bellows.types as t
import bellows.uart as uart

from pyvc.calls import ExtMethod
from pyvc.contracts import ClassSpec, T, contract
from pyvc.ext import effect, ext_class, field

# the EZSP object above the gateway (external here; its own contracts are in contracts/ezsp.py)
APPLICATION = ext_class(
    "application",
    frame_received=effect(),
    enter_failed_state=effect(),
    connection_lost=effect(),
)
# the AshProtocol below the gateway
def _link_closed(I):
    from pyvc.values import SObj

    return SObj(ash.NcpFailure, {"args": ("Transport is closed, cannot send frame",), "code": None})


ASH_TRANSPORT = ext_class(
    "ash",
    # AshProtocol.send_reset raises NcpFailure when the serial transport is gone or closing (its own contract in
    # contracts/ash.py: raises.closed)
    send_reset=effect(raises=[_link_closed]),
    close=effect(),
    send_data=ExtMethod("send_data", effect=True, is_async=True),
)


def _conn_error(I):
    from pyvc.values import SObj

    return SObj(ConnectionResetError, {"args": ("Remote server closed connection",)})


def _some_error(I):
    from pyvc.values import SObj

    return SObj(OSError, {"args": ("serial error",)})


# who completes the waiter futures of the gateway: reset_received(RESET_SOFTWARE) with True,
# connection_lost with the connection error (guarantee: the contracts below + the class scan)
RESET_PROMISE = {"result": T.const(True), "excs": [_conn_error, _some_error]}

GW = ClassSpec(
    "bellows.uart.Gateway",
    fields=dict(
        _application=T.ext(APPLICATION),
        _reset_future=T.opt(T.future(promise=RESET_PROMISE)),
        _startup_reset_future=T.opt(T.future(promise=RESET_PROMISE)),
        _connected_future=T.opt(T.future()),
        _connection_done_future=T.opt(T.future()),
        _transport=T.ext(ASH_TRANSPORT),
    ),
    invariants=[
        # the "connection done" future is completed only by connection_lost, which unregisters it at once
        (
            "connection_done_registered_implies_pending",
            lambda self: self._connection_done_future is None or not fut_done(self._connection_done_future),
        ),
    ],
    interference=["_reset_future", "_startup_reset_future", "_connected_future", "_connection_done_future"],
    identity_fields=["_reset_future", "_startup_reset_future"],
    # what a suspended coroutine of the class may rely on: a waiter future that is no longer the
    # registered one has been completed (handshake done, connection lost) -- never silently replaced
    rely=[
        (
            "reset_future_replaced_only_when_done",
            lambda self: implies(
                old(self._reset_future) is not None and not (self._reset_future is old(self._reset_future)),
                fut_done(old(self._reset_future)),
            ),
        ),
        (
            "startup_future_replaced_only_when_done",
            lambda self: implies(
                old(self._startup_reset_future) is not None
                and not (self._startup_reset_future is old(self._startup_reset_future)),
                fut_done(old(self._startup_reset_future)),
            ),
        ),
    ],
)


def app_calls(fx, name):
    return [r[2] for r in fx if r[0] == "application." + name]


def results_set(fx):
    return [r for r in fx if r[0] == "future.set_result"]


def exceptions_set(fx):
    return [r for r in fx if r[0] == "future.set_exception"]


def _rely_as_guarantee(c):
    """every action of the class keeps the rely predicates of suspended coroutines"""
    c.ensures(
        "guarantee.reset_future_replaced_only_when_done",
        lambda self: implies(
            old(self._reset_future) is not None and not (self._reset_future is old(self._reset_future)),
            fut_done(old(self._reset_future)),
        ),
        on="any",
    )
    c.ensures(
        "guarantee.startup_future_replaced_only_when_done",
        lambda self: implies(
            old(self._startup_reset_future) is not None
            and not (self._startup_reset_future is old(self._startup_reset_future)),
            fut_done(old(self._startup_reset_future)),
        ),
        on="any",
    )


@contract("bellows.uart.Gateway.reset_received", props=["C11", "C10", "C09"])
def _(c):
    c.self(GW)
    c.arg("code", T.enum(t.NcpResetCode))
    # "an RSTACK carrying any other code, or an ERROR frame with an error code, is handled as an NCP
    #  failure, not as completion" -- for all 256 codes
    c.ensures(
        "post.other_code_is_failure",
        lambda code, fx: implies(
            code != t.NcpResetCode.RESET_SOFTWARE,
            app_calls(fx, "enter_failed_state") == [(code,)] and results_set(fx) == [] and exceptions_set(fx) == [],
        ),
    )
    # "completes only when an RSTACK with the software-reset code arrives": the pending reset waiter
    # first, else the pending start-up waiter, else nothing (arrival before the request / twice)
    c.ensures(
        "post.software_reset_completes_waiter",
        lambda self, code, fx: implies(
            code == t.NcpResetCode.RESET_SOFTWARE,
            app_calls(fx, "enter_failed_state") == []
            and exceptions_set(fx) == []
            and len(results_set(fx)) <= 1
            and all(r[2] is True for r in results_set(fx)),
        ),
    )
    c.ensures(
        "post.reset_waiter_first",
        lambda self, code, fx: implies(
            code == t.NcpResetCode.RESET_SOFTWARE
            and old(self._reset_future) is not None
            and not old(fut_done(self._reset_future)),
            len(results_set(fx)) == 1 and results_set(fx)[0][1] is old(self._reset_future),
        ),
    )
    c.ensures(
        "post.else_startup_waiter",
        lambda self, code, fx: implies(
            code == t.NcpResetCode.RESET_SOFTWARE
            and not (old(self._reset_future) is not None and not old(fut_done(self._reset_future)))
            and old(self._startup_reset_future) is not None
            and not old(fut_done(self._startup_reset_future)),
            len(results_set(fx)) == 1 and results_set(fx)[0][1] is old(self._startup_reset_future),
        ),
    )
    c.ensures(
        "post.else_nothing",
        lambda self, code, fx: implies(
            code == t.NcpResetCode.RESET_SOFTWARE
            and not (old(self._reset_future) is not None and not old(fut_done(self._reset_future)))
            and not (old(self._startup_reset_future) is not None and not old(fut_done(self._startup_reset_future))),
            results_set(fx) == [],
        ),
    )
    c.ensures("post.no_connection_lost", lambda fx: app_calls(fx, "connection_lost") == [])
    _rely_as_guarantee(c)
    c.modifies()


@contract("bellows.uart.Gateway.error_received", props=["C10"])
def _(c):
    c.self(GW)
    c.arg("code", T.enum(t.NcpResetCode))
    c.ensures("post.reported_once", lambda code, fx: app_calls(fx, "enter_failed_state") == [(code,)] and len(fx) == 1)
    c.modifies()


ExcT = T.record(OSError, frozen=False, args=T.const(("boom",)))


@contract("bellows.uart.Gateway.connection_lost", props=["C10", "C11"])
def _(c):
    c.self(GW)
    c.cases(("error", {"exc": ExcT}), ("deliberate_close", {"exc": T.none}))
    # no raises clause: "every pending reset or start-up-reset waiter is released with the connection error
    # instead of being left pending", whatever state those futures are in -- an escaping exception
    # (InvalidStateError on an already completed waiter) would leave the rest unreleased
    c.ensures(
        "post.reset_waiter_released",
        lambda self: implies(
            old(self._reset_future) is not None and not old(fut_done(self._reset_future)),
            fut_state(old(self._reset_future)) == 2,
        ),
        on="any",
    )
    c.ensures(
        "post.startup_waiter_released",
        lambda self: implies(
            old(self._startup_reset_future) is not None and not old(fut_done(self._startup_reset_future)),
            fut_state(old(self._startup_reset_future)) == 2,
        ),
        on="any",
    )
    # "the application receives a controller-reset request" on loss; "A deliberate close produces no such request"
    c.ensures(
        "post.application_told_iff_error",
        lambda exc, fx: app_calls(fx, "connection_lost") == ([(exc,)] if exc is not None else []),
        on="any",
    )
    c.ensures("post.no_failed_state_call", lambda fx: app_calls(fx, "enter_failed_state") == [], on="any")
    c.ensures("post.reset_future_cleared", lambda self: self._reset_future is None)
    _rely_as_guarantee(c)
    c.modifies("self._reset_future", "self._connection_done_future")


@contract("bellows.uart.Gateway.eof_received", props=["C10"])
def _(c):
    c.self(GW)
    c.ensures(
        "post.handled_as_connection_loss",
        lambda fx: len(calls(fx, "bellows.uart.Gateway.connection_lost")) == 1
        and type(calls(fx, "bellows.uart.Gateway.connection_lost")[0][2][0]) is ConnectionResetError,
    )
    c.modifies("self._reset_future", "self._connection_done_future")


def calls(fx, name):
    return [r for r in fx if r[0] == name]


def awaits_of(fx):
    return [r for r in fx if r[0] == "await"]


def created_futures(fx):
    return [r[1] for r in fx if r[0] == "loop.create_future"]


@contract("bellows.uart.Gateway.data_received", props=["C10"])
def _(c):
    c.self(GW)
    c.arg("data", T.bytes)
    c.ensures("post.handed_up_once", lambda data, fx: app_calls(fx, "frame_received") == [(data,)] and len(fx) == 1)
    c.modifies()


@contract("bellows.uart.Gateway._reset_cleanup", props=["C11"])
def _(c):
    c.self(GW)
    c.inline = True
    c.arg("future", T.future())


@contract("bellows.uart.Gateway.reset", props=["C11", "C09", "C10"])
def _(c):
    c.self(GW)
    c.raises("timeout", TimeoutError)
    c.raises("cancelled", asyncio.CancelledError)
    c.raises("connection_error", OSError)  # released by connection_lost with the connection error
    c.raises("link_closed", ash.NcpFailure)  # the RST could not be written: the serial transport is gone or closing
    # "A reset request writes a CANCEL-prefixed RST frame": one send_reset (the ASH contract of
    # send_reset gives the wire image), unless a reset is already in progress, and before anything is awaited
    c.ensures(
        "post.one_rst_unless_in_progress",
        lambda self, fx: len([r for r in fx if r[0] in ("ash.send_reset", "ash.send_reset!raise")])
        == (0 if old(self._reset_future) is not None else 1),
        on="any",
    )
    c.ensures(
        "post.rst_written_before_waiting",
        lambda fx: implies(
            len([r for r in fx if r[0] == "ash.send_reset"]) > 0,
            [r[0] for r in fx if r[0] in ("ash.send_reset", "await")][0] == "ash.send_reset",
        ),
        on="any",
    )
    # "and completes only when an RSTACK with the software-reset code arrives": a normal return happens
    # only after the awaited waiter future got a result (RESET_PROMISE: only reset_received(RESET_SOFTWARE)
    # sets results on the waiters)
    c.ensures(
        "post.returns_only_on_completion",
        lambda fx: len(awaits_of(fx)) == 1 and awaits_of(fx)[0][1] == "future" and awaits_of(fx)[0][2] == "result",
    )
    # "raising a timeout after the reset timeout otherwise": the wait of a fresh request is bounded by
    # RESET_TIMEOUT
    c.ensures(
        "post.wait_bounded_by_reset_timeout",
        lambda self, fx: implies(
            old(self._reset_future) is None and len(awaits_of(fx)) > 0,
            [r[2][0] for r in fx if r[0] == "timeout.armed"] == [uart.RESET_TIMEOUT],
        ),
        on="any",
    )
    # a request that ends (success, timeout, cancellation, connection error) leaves no pending waiter of
    # its own behind: a later request must start a new handshake, not join a dead one
    c.ensures(
        "post.own_waiter_not_left_pending",
        lambda fx: all(fut_done(f) for f in created_futures(fx)),
        on="any",
    )
    c.ensures(
        "post.own_waiter_unregistered",
        lambda self, fx: all(not (self._reset_future is f) for f in created_futures(fx)),
        on="any",
    )
    _rely_as_guarantee(c)
    c.modifies()


@contract("bellows.uart.Gateway.wait_for_startup_reset", props=["C11", "C09"])
def _(c):
    c.self(GW)
    c.raises("assertion", AssertionError, when=lambda self: self._startup_reset_future is not None)
    c.raises("cancelled", asyncio.CancelledError)
    c.raises("timeout", TimeoutError)
    c.raises("connection_error", OSError)
    c.ensures(
        "post.returns_only_on_completion",
        lambda fx: len(awaits_of(fx)) == 1 and awaits_of(fx)[0][2] == "result",
    )
    c.ensures("post.no_rst_written", lambda fx: [r for r in fx if r[0] == "ash.send_reset"] == [], on="any")
    c.ensures(
        "post.own_waiter_unregistered",
        lambda self, fx: all(not (self._startup_reset_future is f) for f in created_futures(fx)),
        on="any",
    )
    c.modifies()


@contract("bellows.uart.Gateway.send_data", props=["C10"])
def _(c):
    c.self(GW)
    c.arg("data", T.bytes)
    c.raises("cancelled", asyncio.CancelledError)
    c.ensures("post.passed_down_unchanged", lambda data, fx: [r[2] for r in fx if r[0] == "ash.send_data"] == [(data,)])
    c.modifies()


@contract("bellows.uart.Gateway.close", props=["C10"])
def _(c):
    c.self(GW)
    c.ensures("post.closes_transport", lambda fx: [r[0] for r in fx] == ["ash.close"])
    c.modifies()
