"""Corpus of the engine self-test (DESIGN 2.10, thorough tier): small functions over the Python subset the functions
under contract use.  Each is run by CPython and by the PyVC interpreter on the same (pinned symbolic) inputs; any
difference in result or raised exception class means the value model is wrong and the check exits 3.

Nothing here is about bellows; the corpus only pins down the semantics the encoding assumes (integer division and
modulo with negative operands, shifts and masks, bytes slicing with negative / out-of-range indices, bytearray
mutation, insertion-ordered dicts, exception flow through try / except / else / finally, loops with break / continue /
else, short-circuit evaluation, chained comparisons, conditional expressions)."""
import bellows.types as t

# input domains (default: any integer of the pool): bit operations are only modelled on non-negative integers, division
# only by a non-negative divisor (the engine refuses anything else as outside reach rather than guessing)
DOMAINS = {
    "i_bits": {"a": "nat", "b": "nat"}, "i_ctrl_byte": {"frm": "nat", "ack": "nat"}, "b_to_bytes": {"a": "nat"},
    "e_flags": {"a": "nat"}, "e_enum": {"a": "nat"}, "i_divmod_by_arg": {"b": "nat"}, "x_try_flow": {"b": "nat"},
    "i_bool_short_circuit": {"a": "nat"}, "i_augassign": {"a": "nat", "b": "nat"}, "ba_mutation": {"x": "nat"},
    "b_contains": {"x": "any"},
}


def i_arith(a, b, c):
    return (a + b * c - (a - c)) * 3 + (-a)


def i_floordiv_mod(a, b):
    return (a // 7, a % 7, b // 3, b % 3, (a + b) % 8, (a - b) % 256)


def i_divmod_by_arg(a, b):
    return (a // b, a % b)


def i_bits(a, b):
    return (a & 0xFF, (a | b) & 0xFFFF, (a ^ b) & 0xFF, (a << 3) & 0xFFFF, a >> 2, (a & 0x07) << 4 | (b & 0x07))


def i_ctrl_byte(frm, retx, ack):
    return ((frm & 7) << 4) | ((1 if retx else 0) << 3) | (ack & 7)


def i_compare_chain(a, b, c):
    return (a < b < c, a <= b <= c, a == b or b == c, not (a > b), a != c and b != c)


def i_cond_expr(a, b):
    x = a if a > b else b
    y = (a - b) if a >= b else (b - a)
    return x * 2 + y


def i_minmax_abs(a, b, c):
    return (min(a, b), max(a, b, c), abs(a - b), max(0.5, min(3.0, a * 0.5)))


def i_clamp(a):
    return max(400, min(3200, a))


def i_augassign(a, b):
    x = a
    x += b
    x *= 2
    x -= 1
    x //= 3
    x %= 100
    x |= 1
    x &= 0x7F
    x ^= 0x55
    x <<= 1
    x >>= 2
    return x


def i_bool_short_circuit(a, b):
    out = []
    if a > 0 and 10 // a > 2:
        out.append(1)
    if a == 0 or 10 // a > 2:
        out.append(2)
    if not a or not b:
        out.append(3)
    return out


def b_slices(d, i, j):
    return (d[:i], d[i:], d[i:j], d[-1:], d[:-2], d[-i:], d[1:-1], d[j:i])


def b_index(d, i):
    return d[i]


def b_concat_len(d, e):
    x = d + e + b"\x7e"
    return (len(x), x[0] if len(x) > 0 else -1, x[-1], bytes([len(d) & 0xFF]) + e)


def b_contains(d, x):
    return (x in d, x not in d, b"\x7e" in d, d[:1] in d)


def b_partition(d):
    head, sep, tail = d.partition(b"\x7e")
    return (head, sep, tail, len(head) + len(sep) + len(tail) == len(d))


def b_to_bytes(a):
    return ((a & 0xFFFF).to_bytes(2, "big"), (a & 0xFFFF).to_bytes(2, "little"), bytes([a & 0xFF, (a >> 8) & 0xFF]))


def b_from_iter(d):
    return bytes(x ^ 0x20 for x in d)


def b_endswith(d):
    return (d.endswith(b"\x7d"), d[-1:] == b"\x7d")


def ba_mutation(d, x):
    buf = bytearray(d)
    buf.append(x & 0xFF)
    buf.extend(b"\x01\x02")
    last = buf.pop()
    first = buf.pop(0) if len(buf) > 0 else -1
    buf += b"\x09"
    return (bytes(buf), last, first, len(buf))


def ba_clear(d):
    buf = bytearray(d)
    n = len(buf)
    buf.clear()
    buf.extend(d[:1])
    return (n, len(buf), bytes(buf))


def ba_stuff(d):
    out = bytearray()
    for c in d:
        if c in (0x7E, 0x7D, 0x11, 0x13, 0x18, 0x1A):
            out.append(0x7D)
            out.append(c ^ 0x20)
        else:
            out.append(c)
    return bytes(out)


def ba_unstuff(d):
    out = bytearray()
    escaped = False
    for c in d:
        if escaped:
            out.append(c ^ 0x20)
            escaped = False
        elif c == 0x7D:
            escaped = True
        else:
            out.append(c)
    return (bytes(out), escaped)


def d_order(a, b):
    d = {"x": a, "y": b}
    d["z"] = a + b
    d["x"] = 0
    e = {**d, "y": 5, "w": 1}
    popped = e.pop("z")
    e["z"] = popped
    return (list(d.keys()), list(e.keys()), list(e.values()), d.get("q"), d.get("q", 7), "x" in d, "q" not in d)


def d_pop_missing(a):
    d = {1: a}
    return d.pop(2)


def d_setdefault_iter(a, b):
    d = {}
    d.setdefault("k", []).append(a)
    d.setdefault("k", []).append(b)
    total = 0
    for k, v in d.items():
        total += len(k) + sum(v)
    return (d["k"], total, len(d))


def d_key_moved_last(a):
    cfg = {"a": 1, "count": a, "b": 2}
    cfg["count"] = cfg.pop("count")
    return list(cfg.items())


def l_ops(a, b, c):
    xs = [a, b]
    xs.append(c)
    ys = xs + [a]
    xs.remove(b)
    zs = [x * 2 for x in ys if x != c]
    return (xs, ys, zs, len(ys), ys[-1], ys[1:3], any(x > 5 for x in ys), all(x > -100 for x in ys))


def l_unpack_zip_enumerate(a, b, c):
    x, y, z = (a, b, c)
    pairs = list(zip([x, y], [y, z]))
    idx = [(i, v) for i, v in enumerate([z, y, x])]
    return (pairs, idx, dict(zip(["p", "q"], [x, z])))


def x_try_flow(a, b):
    log = []
    try:
        log.append("try")
        r = a // b
        log.append("after")
    except ZeroDivisionError:
        log.append("zde")
        r = -1
    else:
        log.append("else")
    finally:
        log.append("finally")
    return (r, log)


def x_nested_finally(a):
    log = []
    try:
        try:
            if a > 3:
                raise ValueError("big")
            log.append("ok")
        finally:
            log.append("inner")
    except ValueError:
        log.append("caught")
    except Exception:
        log.append("other")
    return log


def x_raise_through(a):
    try:
        if a % 2:
            raise KeyError(a)
        return "even"
    finally:
        a += 1


def x_reraise(a):
    try:
        {}[a]
    except KeyError:
        if a > 2:
            raise
        return "small"


def x_assert(a):
    assert a != 3, "three"
    return a


def x_isinstance_order(a):
    try:
        if a == 0:
            raise IndexError("i")
        if a == 1:
            raise KeyError("k")
        if a == 2:
            raise TypeError("t")
        return "none"
    except LookupError:
        return "lookup"
    except Exception:
        return "exception"


def c_for_break_else(d, x):
    for i, c in enumerate(d):
        if c == x:
            found = i
            break
    else:
        found = -1
    return found


def c_while_continue(a):
    n = 0
    i = 0
    while i < 10:
        i += 1
        if i % 3 == 0:
            continue
        if i > a:
            break
        n += i
    return (n, i)


def c_range_loops(a):
    acc = []
    for i in range(3):
        for j in range(i, 3):
            if (i + j + a) % 2:
                acc.append((i, j))
    for k in range(6, 0, -2):
        acc.append(k)
    return acc


def c_closure(a, b):
    def add(x):
        return x + a

    def twice(f, x):
        return f(f(x))

    return twice(add, b)


def e_enum(a):
    s = t.EmberStatus(a & 0xFF)
    return (s == t.EmberStatus.SUCCESS, s is t.EmberStatus.SUCCESS, int(s), s != t.EmberStatus.ERR_FATAL,
            t.sl_Status.from_ember_status(s) == t.sl_Status.OK)


def e_flags(a):
    f = t.EmberKeyStructBitmask(a & 0x0F)
    return (t.EmberKeyStructBitmask.KEY_HAS_SEQUENCE_NUMBER in f, int(f | t.EmberKeyStructBitmask.KEY_HAS_PARTNER_EUI64))


def e_typed_int(a):
    x = t.uint8_t(a)
    return (x + 1, int(x), x == a, x.serialize() if 0 <= a < 256 else b"")


def n_none_flow(a):
    x = None
    if a > 1:
        x = a
    y = x if x is not None else -5
    return (x is None, y, (x or 9))


def f_reals(a, b):
    t0 = a * 0.5
    t1 = (7 / 8) * t0 + 0.5 * b
    return (t1 > 1.6, max(0.4, min(3.2, t1)) == t1, t0 + t1 <= 100.0)


def d_del_statement(a, b):
    d = {1: a, 2: b, 3: a + b}
    del d[2]
    l = [a, b, a]
    del l[1]
    r = []
    try:
        del d[7]
    except KeyError:
        r.append("missing")
    tmp = a
    del tmp
    return (list(d.items()), l, r)


def s_set_truth(a):
    s = set()
    r = [bool(s), not s]
    s.add(3)
    r.append(bool(s))
    s.discard(3)
    r.append(1 if s else 0)
    return r



def c_search_loop(d, x):
    for i, c in enumerate(d):
        if c == x % 256:
            return (i, c)
    return None


def c_search_loop_plain(d):
    for c in d:
        if c in (0x7E, 0x11, 0x13):
            return c
    return -1
