"""C15: bellows/multicast.py -- the host's mirror of the NCP multicast table."""
import asyncio

import z3

import bellows.ezsp.v14 as v14
import bellows.ezsp.v4 as v4
import bellows.multicast as multicast
import bellows.types as t
from bellows.exception import EzspError

from contracts import index as _index
from pyvc.calls import ExtMethod
from pyvc.contracts import ClassSpec, T, contract
from pyvc.ext import ext_class


def _ncp(cls):
    """the EZSP object as seen from Multicast: NCP commands shaped by the live tables of one family"""

    def dyn(name):
        if not isinstance(name, str) or name not in cls.COMMANDS:
            return None
        from pyvc import ncp

        def ret(I, s, a, k):
            ncp.check_request(I, cls, name, list(a), dict(k))
            return ncp.response_of(I, cls, name)

        return ExtMethod(name, effect=True, is_async=True, raises=[asyncio.TimeoutError, EzspError], returns=ret)

    e = ext_class("ncp_" + cls.__name__, dynamic=dyn)
    return e


NCP_LEGACY, NCP_UNIFIED = _ncp(v4.EZSPv4), _ncp(v14.EZSPv14)

EntryT = T.record(t.EmberMulticastTableEntry, frozen=False, multicastId=T.typed_int(t.EmberMulticastId),
                  endpoint=T.typed_int(t.uint8_t), networkIndex=T.typed_int(t.uint8_t))


def _entry_inv(I, kt, value):
    # representation invariant, per group: its index is not free (indices of different groups differ: checked
    # pairwise on the ghost groups below)
    return True


def spec_for(ncp):
    return ClassSpec(
        "bellows.multicast.Multicast",
        fields=dict(
            _ezsp=T.ext(ncp),
            _multicast=T.map(T.tuple(EntryT, T.range(0, 255)), card=False),
            _available=T.set_(lo=0, hi=255),
        ),
        invariants=[],
        # "sequential histories, as quantified": no other operation on the table runs while one is suspended
        interference=[],
    )


MC_LEGACY, MC_UNIFIED = spec_for(NCP_LEGACY), spec_for(NCP_UNIFIED)
FAMILIES = (("legacy", MC_LEGACY, "ncp_EZSPv4"), ("unified", MC_UNIFIED, "ncp_EZSPv14"))


def _ghost_groups(I, b):
    """two arbitrary groups g0 != g1, materialised, with the representation invariant assumed at entry:
    a used index is not free, and two groups never share an index"""
    from pyvc import smap

    so = b["self"]
    m, av = so.fields["_multicast"], so.fields["_available"]
    g0, g1 = T.range(0, 0xFFFF).fresh(I, "g0"), T.range(0, 0xFFFF).fresh(I, "g1")
    b["g0"], b["g1"] = g0, g1
    I.ctx.assume(g0.t != g1.t)
    s0, s1 = smap.find_slot(I, m, g0.t), smap.find_slot(I, m, g1.t)
    _assume_rep(I, so, b.get("group_id"))


def _assume_rep(I, so, group_id):
    from pyvc import smap
    from pyvc.interp import int_term

    m, av = so.fields["_multicast"], so.fields["_available"]
    if group_id is not None:
        smap.find_slot(I, m, int_term(group_id))
    for s in m.slots:
        idx = int_term(s.value[1])
        I.ctx.assume(z3.Implies(z3.Select(m.has, s.key), z3.Not(z3.Select(av.has, idx))))
    for i, a in enumerate(m.slots):
        for bb in m.slots[i + 1:]:
            I.ctx.assume(z3.Implies(z3.And(z3.Select(m.has, a.key), z3.Select(m.has, bb.key), a.key != bb.key),
                                    int_term(a.value[1]) != int_term(bb.value[1])))


def rep_ok(self, g0, g1, group_id):
    """'Every table index is always either free or used by exactly one group' on the ghost groups and the
    operation's own group"""
    return (
        implies(g0 in self._multicast, self._multicast[g0][1] not in self._available)
        and implies(g1 in self._multicast, self._multicast[g1][1] not in self._available)
        and implies(group_id in self._multicast, self._multicast[group_id][1] not in self._available)
        and implies(g0 in self._multicast and g1 in self._multicast, self._multicast[g0][1] != self._multicast[g1][1])
        and implies(
            g0 in self._multicast and group_id in self._multicast and g0 != group_id,
            self._multicast[g0][1] != self._multicast[group_id][1],
        )
    )


def table_writes(fx, ncp):
    return [r for r in fx if r[0] in (ncp + ".setMulticastTableEntry", ncp + ".setMulticastTableEntry!raise")]


def _sub_contract(label, spec, ncp):
    pass


@contract("bellows.multicast.Multicast.subscribe", props=["C15"])
def _(c):
    c.self(MC_LEGACY)
    c.cases(("legacy", {"__self__": {"_ezsp": T.ext(NCP_LEGACY)}}), ("unified", {"__self__": {"_ezsp": T.ext(NCP_UNIFIED)}}))
    c.arg("group_id", T.range(0, 0xFFFF))
    c.setup = _ghost_groups
    c.returns(T.oneof(T.enum(t.sl_Status), T.enum(t.EmberStatus)))  # at call sites: a status of either family
    c.raises("timeout", TimeoutError)
    c.raises("ezsp", EzspError)
    c.raises("cancelled", asyncio.CancelledError)
    # "subscribing to an already subscribed group succeeds without a table write"
    c.ensures(
        "post.already_subscribed",
        lambda self, group_id, result, fx: implies(
            old(group_id in self._multicast), result == t.sl_Status.OK and writes(fx) == []
        ),
    )
    # "subscribing with no free index reports failure"
    c.ensures(
        "post.no_free_index",
        lambda self, group_id, result, fx: implies(
            not old(group_id in self._multicast) and old(len(self._available)) == 0,
            result == t.sl_Status.INVALID_INDEX and writes(fx) == [] and group_id not in self._multicast,
        ),
    )
    # otherwise exactly one table write: a free index, endpoint 1, this group
    c.ensures(
        "post.one_write_of_this_group_at_a_free_index",
        lambda self, group_id, fx: implies(
            not old(group_id in self._multicast) and old(len(self._available)) > 0,
            len(writes(fx)) == 1
            and old(writes(fx)[0][2][0] in self._available)
            and writes(fx)[0][2][1].endpoint == 1
            and writes(fx)[0][2][1].multicastId == group_id,
        ),
        on="any",
    )
    # the host's view changes exactly when the NCP accepted the write
    c.ensures(
        "post.subscribed_iff_accepted",
        lambda self, group_id, result, fx: implies(
            not old(group_id in self._multicast) and old(len(self._available)) > 0,
            (group_id in self._multicast) == (t.sl_Status.from_ember_status(result) == t.sl_Status.OK)
            and implies(
                group_id in self._multicast,
                len(writes(fx)) == 1
                and self._multicast[group_id][1] == writes(fx)[0][2][0]
                and len(self._available) == old(len(self._available)) - 1,
            ),
        ),
    )
    # "a call that fails - by rejection or by a command timeout - leaves the number of free indices unchanged"
    c.ensures(
        "post.rejection_keeps_free_indices",
        lambda self, group_id, result: implies(
            t.sl_Status.from_ember_status(result) != t.sl_Status.OK,
            len(self._available) == old(len(self._available)) and group_id not in self._multicast or old(group_id in self._multicast),
        ),
    )
    c.ensures(
        "post.exception_keeps_free_indices",
        lambda self, group_id: len(self._available) == old(len(self._available))
        and (group_id in self._multicast) == old(group_id in self._multicast),
        on="raise",
    )
    c.ensures("post.other_groups_untouched", lambda self, group_id: unchanged_except(self._multicast, old(self._multicast), [group_id]), on="any")
    c.ensures("inv.index_free_xor_used_by_one_group", lambda self, g0, g1, group_id: rep_ok(self, g0, g1, group_id), on="any")
    c.modifies("self._multicast", "self._available")


def writes(fx):
    """table writes requested (whatever became of them: accepted, rejected, timed out, cancelled)"""
    return [r for r in fx if r[0] == "call" and r[1].endswith(".setMulticastTableEntry")]


@contract("bellows.multicast.Multicast.unsubscribe", props=["C15"])
def _(c):
    c.self(MC_LEGACY)
    c.cases(("legacy", {"__self__": {"_ezsp": T.ext(NCP_LEGACY)}}), ("unified", {"__self__": {"_ezsp": T.ext(NCP_UNIFIED)}}))
    c.arg("group_id", T.range(0, 0xFFFF))
    c.setup = _ghost_groups
    c.returns(T.oneof(T.enum(t.sl_Status), T.enum(t.EmberStatus)))  # at call sites: a status of either family
    c.raises("timeout", TimeoutError)
    c.raises("ezsp", EzspError)
    c.raises("cancelled", asyncio.CancelledError)
    c.ensures(
        "post.not_subscribed",
        lambda self, group_id, result, fx: implies(
            not old(group_id in self._multicast), result == t.sl_Status.INVALID_INDEX and writes(fx) == []
        ),
    )
    c.ensures(
        "post.one_write_clearing_this_group_at_its_index",
        lambda self, group_id, fx: implies(
            old(group_id in self._multicast),
            len(writes(fx)) == 1
            and writes(fx)[0][2][0] == old(self._multicast[group_id][1])
            and writes(fx)[0][2][1].endpoint == 0,
        ),
        on="any",
    )
    c.ensures(
        "post.unsubscribed_iff_accepted",
        lambda self, group_id, result: implies(
            old(group_id in self._multicast),
            (group_id not in self._multicast) == (t.sl_Status.from_ember_status(result) == t.sl_Status.OK)
            and len(self._available)
            == old(len(self._available)) + (1 if t.sl_Status.from_ember_status(result) == t.sl_Status.OK else 0),
        ),
    )
    c.ensures(
        "post.freed_index_is_the_groups_index",
        lambda self, group_id, result: implies(
            old(group_id in self._multicast) and t.sl_Status.from_ember_status(result) == t.sl_Status.OK,
            old(self._multicast[group_id][1]) in self._available,
        ),
    )
    c.ensures(
        "post.exception_changes_nothing",
        lambda self, group_id: len(self._available) == old(len(self._available))
        and (group_id in self._multicast) == old(group_id in self._multicast),
        on="raise",
    )
    c.ensures("post.other_groups_untouched", lambda self, group_id: unchanged_except(self._multicast, old(self._multicast), [group_id]), on="any")
    c.ensures("inv.index_free_xor_used_by_one_group", lambda self, g0, g1, group_id: rep_ok(self, g0, g1, group_id), on="any")
    c.modifies("self._multicast", "self._available")


# ---------------------------------------------------------------------------
# start-up: the table scan (C15 "after any sequence of start-up, subscribe and unsubscribe calls")
# ---------------------------------------------------------------------------
def _init_ghosts(I, b):
    """arbitrary ghost groups g0 != g1 and an arbitrary ghost table index j, fixed before the scan: the loop
    invariants are stated pointwise at them, i.e. for every group / index"""
    g0, g1 = T.range(0, 0xFFFF).fresh(I, "g0"), T.range(0, 0xFFFF).fresh(I, "g1")
    b["g0"], b["g1"] = g0, g1
    I.ctx.assume(g0.t != g1.t)
    b["j"] = T.int.fresh(I, "j")


def table_reads(fx):
    return [r for r in fx if r[0] == "call" and r[1].endswith(".getMulticastTableEntry")]


def read_results(fx):
    return [r[2] for r in fx if r[0] == "ret" and r[1].endswith(".getMulticastTableEntry")]


def config_reads(fx):
    return [r for r in fx if r[0] == "call" and r[1].endswith(".getConfigurationValue")]


def config_results(fx):
    return [r[2] for r in fx if r[0] == "ret" and r[1].endswith(".getConfigurationValue")]


def any_ncp_write(fx):
    return [r for r in fx if r[0] == "call" and ".set" in r[1]]


@contract("bellows.multicast.Multicast._initialize", props=["C15"])
def _(c):
    c.self(MC_LEGACY)
    c.cases(("legacy", {"__self__": {"_ezsp": T.ext(NCP_LEGACY)}}), ("unified", {"__self__": {"_ezsp": T.ext(NCP_UNIFIED)}}))
    c.setup = _init_ghosts
    c.raises("timeout", TimeoutError)
    c.raises("ezsp", EzspError)
    c.raises("cancelled", asyncio.CancelledError)
    c.loop(
        0,
        each_old="head",
        at_entry=[
            # every index of the table the NCP reports is scanned: 0 .. size-1, size being the value just read
            ("scans_the_whole_table", lambda _lo, _hi, fx: _lo == 0 and len(config_results(fx)) == 1 and _hi == config_results(fx)[0].items[1]),
        ],
        invariants=[
            # what is recorded so far comes from the indices already scanned (so the scan starts from an empty view)
            ("free_indices_come_from_scanned_entries", lambda self, _i: forall(lambda k: implies(k in self._available, 0 <= k and k < _i))),
            ("used_indices_come_from_scanned_entries",
             lambda self, g0, g1, _i: implies(g0 in self._multicast, 0 <= self._multicast[g0][1] and self._multicast[g0][1] < _i)
             and implies(g1 in self._multicast, 0 <= self._multicast[g1][1] and self._multicast[g1][1] < _i)),
            # "Every table index is always either free or used by exactly one group"
            ("index_free_xor_used_by_one_group", lambda self, g0, g1: rep_ok(self, g0, g1, g0)),
            ("recorded_under_its_own_group_id",
             lambda self, g0: implies(g0 in self._multicast, self._multicast[g0][0].multicastId == g0 and self._multicast[g0][0].endpoint != 0)),
        ],
        each=[
            # the scan reads exactly the entry of this index, and writes nothing to the NCP
            ("reads_this_index_only", lambda _i, fx: len(table_reads(fx)) == 1 and table_reads(fx)[0][2][0] == _i and any_ncp_write(fx) == []),
            # "the groups the host reports as subscribed are exactly those programmed with a non-zero endpoint"
            (
                "programmed_entry_is_recorded_with_its_index",
                lambda self, _i, fx: implies(
                    len(read_results(fx)) == 1
                    and t.sl_Status.from_ember_status(read_results(fx)[0].items[0]) == t.sl_Status.OK
                    and read_results(fx)[0].items[1].endpoint != 0,
                    read_results(fx)[0].items[1].multicastId in self._multicast
                    and self._multicast[read_results(fx)[0].items[1].multicastId][1] == _i
                    and self._multicast[read_results(fx)[0].items[1].multicastId][0].multicastId == read_results(fx)[0].items[1].multicastId
                    and (_i in self._available) == old(_i in self._available)
                    and unchanged_except(self._multicast, old(self._multicast), [read_results(fx)[0].items[1].multicastId]),
                ),
            ),
            (
                "unprogrammed_entry_is_free",
                lambda self, _i, fx: implies(
                    len(read_results(fx)) == 1
                    and t.sl_Status.from_ember_status(read_results(fx)[0].items[0]) == t.sl_Status.OK
                    and read_results(fx)[0].items[1].endpoint == 0,
                    _i in self._available and unchanged_except(self._multicast, old(self._multicast), []),
                ),
            ),
            (
                "unreadable_entry_changes_nothing",
                lambda self, _i, fx: implies(
                    len(read_results(fx)) == 1 and t.sl_Status.from_ember_status(read_results(fx)[0].items[0]) != t.sl_Status.OK,
                    (_i in self._available) == old(_i in self._available) and unchanged_except(self._multicast, old(self._multicast), []),
                ),
            ),
            ("other_free_indices_untouched", lambda self, j, _i: implies(j != _i, (j in self._available) == old(j in self._available))),
        ],
    )
    # the table size is asked once, before anything else; an unreadable size leaves an empty view and reads no entry
    c.ensures("post.size_asked_once", lambda fx: len(config_reads(fx)) == 1
              and config_reads(fx)[0][2][0] == t.EzspConfigId.CONFIG_MULTICAST_TABLE_SIZE, on="any")
    c.ensures("post.view_consistent", lambda self, g0, g1: rep_ok(self, g0, g1, g0))
    c.ensures("post.nothing_written_to_the_ncp", lambda fx: any_ncp_write(fx) == [], on="any")
    c.modifies("self._multicast", "self._available")


# ---- Multicast.startup: the scan first, then one subscribe per group of every application endpoint ------------
EP = ext_class("endpoint", fields={"member_of": T.list(T.range(0, 0xFFFF), T.range(0, 0xFFFF))}, stable_fields=("member_of",))
EP0 = ext_class("zdo_endpoint", fields={"member_of": T.list(T.range(0, 0xFFFF))}, stable_fields=("member_of",))


def _coordinator_type():
    from pyvc.contracts import Ty

    class EndpointsT(Ty):
        """{0: <zdo endpoint>, 1: <endpoint with two groups>, 242: <endpoint with two groups>}: concrete spine,
        symbolic group ids"""

        def fresh(self, I, name):
            return {0: T.ext(EP0).fresh(I, name + "[0]"), 1: T.ext(EP).fresh(I, name + "[1]"), 242: T.ext(EP).fresh(I, name + "[242]")}

    return ext_class("coordinator", fields={"endpoints": EndpointsT()}, stable_fields=("endpoints",))


COORD = _coordinator_type()


def sub_calls(fx):
    return [r for r in fx if r[0] == "call" and r[1].endswith("Multicast.subscribe")]


def init_calls(fx):
    return [r for r in fx if r[0] == "call" and r[1].endswith("Multicast._initialize")]


@contract("bellows.multicast.Multicast.startup", props=["C15"])
def _(c):
    c.self(MC_LEGACY)
    c.arg("coordinator", T.ext(COORD))
    c.raises("timeout", TimeoutError)
    c.raises("ezsp", EzspError)
    c.raises("cancelled", asyncio.CancelledError)
    # start-up = table scan, then the groups of every endpoint but the ZDO endpoint are subscribed, in order,
    # nothing else
    c.ensures(
        "post.scan_then_subscribe_every_group_of_every_application_endpoint",
        lambda coordinator, fx: len(init_calls(fx)) == 1
        and [r[2][0] for r in sub_calls(fx)]
        == coordinator.endpoints[1].member_of + coordinator.endpoints[242].member_of
        and [r[1] for r in fx if r[0] == "call"][0].endswith("Multicast._initialize"),
    )
    # subscribe / unsubscribe are proved for sequential histories (no other table operation runs while one is
    # suspended): bellows itself must not start table operations concurrently
    c.ensures("post.table_operations_one_at_a_time", lambda fx: [r for r in fx if r[0] == "asyncio.gather"] == [], on="any")
    c.ensures("post.scan_comes_first", lambda fx: implies(len([r for r in fx if r[0] == "call"]) > 0,
                                                          [r[1] for r in fx if r[0] == "call"][0].endswith("Multicast._initialize")), on="any")
