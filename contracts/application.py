"""Contracts on bellows/zigbee/application.py (C19 watchdog, C17 bring-up of the network, C12 sending,
C13 incoming callbacks).  ControllerApplication cannot be constructed with the installed zigpy (no
zigpy.util.Requests); the functions are verified on a ClassSpec of the fields they use and replayed unbound."""
import asyncio

import bellows.types as t
import bellows.zigbee.application as app
from bellows.exception import ControllerError, EzspError, InvalidCommandError

from contracts import index as _index
from pyvc.calls import ExtMethod
from pyvc.contracts import ClassSpec, T, contract
from pyvc.ext import effect, ext_class, field
from pyvc.values import SObj

# ---------------------------------------------------------------------------
# collaborators
# ---------------------------------------------------------------------------
COUNTER = ext_class("counter", update=effect(), increment=effect(), reset=effect())


def _counter_group_getitem(I, self_obj, args, kwargs):
    return SObj(COUNTER, {}, tag="counter")


COUNTER_GROUP = ext_class("counter_group", reset=effect())
COUNTER_GROUP.methods["__getitem__"] = ExtMethod("__getitem__", fn=_counter_group_getitem)


def _counters_getitem(I, self_obj, args, kwargs):
    I.ctx.emit("counters.group", self_obj, tuple(args), {})
    return SObj(COUNTER_GROUP, {}, tag="counter_group")


COUNTERS = ext_class("counters")
COUNTERS.methods["__getitem__"] = ExtMethod("__getitem__", fn=_counters_getitem)
STATE = ext_class("state", fields={"counters": T.ext(COUNTERS)}, stable_fields=("counters",))

# how a keep-alive command can fail "by timeout or EZSP error": the command timeout, the stopped / failed layer
# (EzspError) and the NCP answering with an invalidCommand frame (InvalidCommandError, set on the command's future by
# ProtocolHandler.__call__) -- all of them EZSP-level failures in the property's sense, whatever their class hierarchy
KEEPALIVE_FAILURES = [asyncio.TimeoutError, EzspError, InvalidCommandError]


def _counters_answer(I, s, a, k):
    # one counter of an arbitrary value (the loop over the answer is then exact)
    return {t.EmberCounterType.COUNTER_MAC_RX_BROADCAST: T.range(0, 0xFFFF).fresh(I, "counter_value")}


EZSP_WD = ext_class(
    "ezsp",
    fields={"ezsp_version": T.range(4, 255)},
    stable_fields=("ezsp_version",),
    nop=ExtMethod("nop", effect=True, is_async=True, raises=KEEPALIVE_FAILURES + [ConnectionResetError]),
    read_counters=ExtMethod("read_counters", effect=True, is_async=True, raises=KEEPALIVE_FAILURES + [ConnectionResetError],
                            returns=_counters_answer),
    read_and_clear_counters=ExtMethod("read_and_clear_counters", effect=True, is_async=True,
                                      raises=KEEPALIVE_FAILURES + [ConnectionResetError], returns=_counters_answer),
    getValue=ExtMethod("getValue", effect=True, is_async=True, raises=KEEPALIVE_FAILURES + [ConnectionResetError],
                       returns=lambda I, s, a, k: (T.enum(t.EzspStatus).fresh(I, "status"), T.bytes.fresh(I, "value"))),
)

APP_WD = ClassSpec(
    "bellows.zigbee.application.ControllerApplication",
    fields=dict(
        _ezsp=T.ext(EZSP_WD),
        state=T.ext(STATE),
        _watchdog_failures=T.nat,
        _watchdog_feed_counter=T.nat,
    ),
    invariants=[],
    interference=[],  # one watchdog task; the counters are written by it alone
)


def awaits_of(fx):
    return [r for r in fx if r[0] == "await"]


def keepalive_failed(fx):
    """some keep-alive command of this feed ended in a timeout or an EZSP error"""
    return any(r[2] in ("exception:TimeoutError", "exception:EzspError", "exception:InvalidCommandError") for r in awaits_of(fx))


def commands(fx):
    return [r[1] for r in fx if r[0] == "call" and r[1].startswith("ezsp.")]


@contract("bellows.zigbee.application.ControllerApplication._get_free_buffers", props=["C19"])
def _(c):
    c.self(APP_WD)
    c.inline = True


@contract("bellows.zigbee.application.ControllerApplication._watchdog_feed", props=["C19"])
def _(c):
    c.self(APP_WD)
    c.raises("keepalive_timeout", TimeoutError)
    c.raises("keepalive_error", EzspError)
    c.raises("other", ConnectionResetError)  # anything that is not a keep-alive failure propagates uncounted
    c.raises("cancelled", asyncio.CancelledError)
    # "any successful feed clears the count"
    c.ensures("post.success_clears_count", lambda self, fx: implies(not keepalive_failed(fx), self._watchdog_failures == 0))
    # "a watchdog feed raises ... exactly when the keep-alive has failed by timeout or EZSP error more times
    #  in a row than the tolerated maximum": a failed feed counts one, and raises iff the run now exceeds it
    c.ensures(
        "post.failed_feed_counts_one",
        lambda self, fx: implies(keepalive_failed(fx), self._watchdog_failures == old(self._watchdog_failures) + 1),
        on="any",
    )
    c.ensures(
        "post.tolerated_failure_does_not_raise",
        lambda self, fx: implies(keepalive_failed(fx), old(self._watchdog_failures) + 1 <= app.MAX_WATCHDOG_FAILURES),
    )
    c.ensures(
        "post.raises_exactly_beyond_tolerated_run",
        lambda self, raised, fx: implies(
            isinstance(raised, (asyncio.TimeoutError, EzspError)),
            keepalive_failed(fx) and old(self._watchdog_failures) + 1 > app.MAX_WATCHDOG_FAILURES,
        ),
        on="raise",
    )
    c.ensures(
        "post.other_exceptions_not_counted",
        lambda self, raised: implies(
            not isinstance(raised, (asyncio.TimeoutError, EzspError)),
            self._watchdog_failures == old(self._watchdog_failures),
        ),
        on="raise",
    )
    # "The keep-alive is a no-op command on protocol version 4 and a counter read otherwise, with the
    #  periodic read-and-clear on the configured period"
    c.ensures(
        "post.v4_keepalive_is_nop",
        lambda self, fx: implies(self._ezsp.ezsp_version == 4, commands(fx) == ["ezsp.nop"]),
        on="any",
    )
    c.ensures(
        "post.counter_read_with_periodic_clear",
        lambda self, fx: implies(
            self._ezsp.ezsp_version != 4,
            self._watchdog_feed_counter == old(self._watchdog_feed_counter) + 1
            and len(commands(fx)) >= 1
            and (commands(fx)[0] == "ezsp.read_and_clear_counters")
            == (self._watchdog_feed_counter % app.EZSP_COUNTERS_CLEAR_IN_WATCHDOG_PERIODS == 0)
            and commands(fx)[0] in ("ezsp.read_and_clear_counters", "ezsp.read_counters"),
        ),
        on="any",
    )
    c.modifies("self._watchdog_failures", "self._watchdog_feed_counter")


@contract("bellows.zigbee.application.ControllerApplication._watchdog_loop", props=["C19"])
def _(c):
    c.self(APP_WD)
    c.super_async = ("_watchdog_loop",)
    c.must_exist = "zigpy restarts the watchdog through this override; the consecutive-failure run starts at zero with it"
    c.raises("cancelled", asyncio.CancelledError)
    # every (re)start of the watchdog loop starts a new run: both counters are zero when zigpy's loop takes over
    c.at_effect(
        "super._watchdog_loop", "run_starts_at_zero",
        lambda self: self._watchdog_failures == 0 and self._watchdog_feed_counter == 0,
    )
    c.ensures("post.delegates_to_zigpy_loop", lambda fx: len([r for r in fx if r[0] == "call" and r[1] == "super._watchdog_loop"]) == 1, on="any")
    c.modifies("self._watchdog_failures", "self._watchdog_feed_counter")
