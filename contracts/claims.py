"""Per-property claims that go into MANIFEST.json (tools/gen_manifest.py)."""

CLAIMS = {
    "C01": {
        "text": "Host side of the ASH link: every obligation generated from the current source of send_data, _send_data_frame, _handle_ack, frame_received, data_frame_received, nak_frame_received and _cancel_pending_data_frames is discharged for all inputs, all states allowed by the class invariant and all interleavings at awaits (await rule): payload passed unchanged and sent behind a shield, same frame number/payload on every repeat, completion only by a covering ackNum, accept iff in sequence, one ACK/NAK per DATA frame.",
        "note": "PARTIAL: the two-endpoint composition with a conforming NCP over a faulty FIFO line (DESIGN 3 C01 / 4) is a written lemma over these contracts, not mechanised. Assumed: asyncio.Future / shield / timeout / Semaphore contracts, TX_K semantics of the semaphore; floats as reals.",
    },
    "C04": {
        "text": "Every obligation generated from the receiver callbacks of AshProtocol (frame_received dispatch, data/ack/nak/rst/rstack/error handlers, _enter_failed_state, _write_frame gate) is discharged for all frames, all 3-bit counter states and all reset codes; the history claim follows from the class invariant preserved by every callback.",
        "note": "Trusts the PyVC value model and z3; transport, upper protocol and asyncio.Future enter as assumed contracts; precondition: transport open (observation in DESIGN 5.1).",
    },
    "C05": {
        "text": "Retry budget, same number/payload, retransmit flag, clamped timeout, failed-state gate, single upward failure report and bookkeeping of _send_data_frame proved over all await outcomes (ACK, NAK, timeout, failure, close, cancellation) with arbitrary interference at every await; helper callbacks proved against the same class invariant; guarantee side (who may write the fields the sender relies on) checked over the live class.",
        "note": "Assumed: asyncio.timeout fires after exactly t, Semaphore admits TX_K holders, Future semantics; peer RST frames also clear the failed state (outside the quantifier); ghost time bound argued from the per-attempt timeout clause, floats as reals.",
    },
    "C06": {
        "text": "ProtocolHandler.command, __call__, _get_command_priority and EZSP.handle_callback proved for every command table (the table is symbolic, so all eleven versions at once), every frame and every interleaving at awaits: the request is registered under its own sequence number before it is handed to the link, the counter advances by one mod 256, only a frame with the registered sequence and id completes a call, everything else goes to the callbacks exactly once, the send slot is requested with the command's priority class and released on every exit.",
        "note": "Assumed: zigpy PriorityDynamicBoundedSemaphore (one holder, priority then FIFO), asyncio.timeout/Future, deserialize outcome shape (proved as part of C07). Header reader / frame builder enter through contracts proved in C07. Stale _awaiting entry after a timed-out command is discussed in DESIGN 5 (F11).",
    },
    "C07": {
        "text": "Header writers and readers of the three layouts proved against UG100 for all sequence numbers and ids, their round trip as a lemma over the two contracts; serialize_dict / deserialize_dict proved against the declared-order specification for every schema length occurring in the live tables (positional, keyword and reversed-keyword forms) over an abstract per-type codec, round trip as a lemma; table obligations evaluated exhaustively on the eleven live tables (ids unique, ids fit the header field, every schema entry is a wire type, greedy types only last in responses, reader/writer resolution by MRO, COMMANDS_BY_ID inverse).",
        "note": "ASSUMED and only validated by a bounded stand-in (labelled bounded in evidence): per-type codec of zigpy.types / bellows.types, T.deserialize(T(v).serialize() + r) == (v, r). zigpy FixedIntType little-endian codec assumed.",
    },
    "C08": {
        "text": "EZSP.frame_received never raises and hands the frame to the handler at most once; ProtocolHandler.__call__ proved for every table and frame: raises only Exception subclasses, touches only the entry registered under the frame's own sequence byte, completes a future only on matching id with the decoded values, invokes the callback only for a known frame that decoded fully and answers no pending call; the three header readers refuse truncated headers.",
        "note": "Payload decoding per type is the assumed codec of C07; 'commands issued afterwards still complete' is carried by the frame condition (nothing but the addressed entry changes).",
    },
    "C10": {
        "text": "Every callback of the failure chain proved from an arbitrary invariant-satisfying state: ERROR frame / retry exhaustion -> one upward reset_received; Gateway.reset_received(non-software) -> one enter_failed_state and no waiter completed; connection_lost / eof -> one application.connection_lost with no exception escaping (none for a deliberate close); EZSP.enter_failed_state with an application callback -> closed, then exactly one controller-reset request; stopped layer refuses commands with no effect; closed transport writes nothing.",
        "note": "The bound for commands still queued at the semaphore is argued (DESIGN 4), not mechanised; per-command bound follows from the command timeout clause (C06) and the retry budget (C05). zigpy application side is external.",
    },
    "C11": {
        "text": "Gateway.reset, wait_for_startup_reset, reset_received (all 256 codes), connection_lost, AshProtocol.send_reset and rstack_frame_received proved with interference at every await: one CANCEL-prefixed RST unless a reset is in progress, completion only through the waiter future (completed only by a software-reset RSTACK), TimeoutError after RESET_TIMEOUT, no pending or registered waiter left behind on any exit, counters zero after RSTACK, waiters released on connection loss from every future state.",
        "note": "Assumed: asyncio.timeout cancels the awaited future, done-callbacks run on the next loop iteration. F4 (InvalidStateError in connection_lost) was found here and fixed in /repo.",
    },
    "C09": {
        "text": "EZSP.reset, version, _switch_protocol_version, startup_reset and write_config (every version 4..14 and a newer one) proved with interference at awaits: after any reset the handler is the legacy (v4) one with version 4 and the layer running; the first version query asks for the currently assumed version, the handler for the reported version (own tables, newest for unknown newer) is installed between the two queries and the second query asks for exactly the reported version; every normal bring-up went through reset-or-spontaneous-reset then version, with the start-up wait bounded; the default configuration write raises no KeyError for any version.",
        "note": "Assumed: the NCP honours the version handshake; ASH-level faults are C01/C05; is_tcp_serial_port (urllib parsing) trusted; startup_reset is verified under the precondition of its call sites (freshly connected object), see DESIGN 5 (F3 is not reachable from the call sites).",
    },
    "C15": {
        "text": "Multicast.subscribe / unsubscribe proved for both status families (legacy and unified tables), all group ids, all table contents satisfying the representation invariant (on two ghost groups and the operation's group: a used index is not free, two groups never share an index), all NCP answers (accept, any rejection status) and all exceptions at the table write: already-subscribed succeeds without a write, no free index reports INVALID_INDEX without a write, otherwise exactly one write of this group at a free index; the host view changes iff the NCP accepted; a failing call (rejection or exception) leaves the number of free indices and the subscribed set unchanged; the invariant is preserved.",
        "note": "Sequential histories as quantified by the property: no other table operation runs while one is suspended (interference frame empty), so overlapping subscribe calls are outside this check (seeded change C15-m2 needs them and is not detected). _initialize / startup are not under contract yet. NCP table content is an assumed model (responses shaped by the live tables).",
    },
    "C19": {
        "text": "_watchdog_feed proved for every counter state, protocol version and every outcome of each keep-alive await: success clears the count; a failed feed (timeout / EZSP error at any keep-alive command of the feed) counts exactly one and raises iff the run now exceeds MAX_WATCHDOG_FAILURES; other exceptions propagate uncounted; version 4 sends one nop, later versions advance the feed counter and read-and-clear exactly on the configured period. _watchdog_loop starts every run at zero before delegating to zigpy's loop.",
        "note": "zigpy's base _watchdog_loop, the counters objects and the EZSP object are external (assumed effects); int.from_bytes on the free-buffer value is an uninterpreted non-negative function. The unused max_watchdog_failures config key is an observation (DESIGN 3 C19).",
    },
    "C16": {
        "text": "EZSP.write_config proved for every protocol version 4..14 and a newer one: the table of settings about to be written (user values exactly, disabled settings absent, untouched defaults with their grow-only marker, capacity settings not supplied by the user grow-only, one entry per setting, packet-buffer count last) is asserted when the write loop is reached; the loop body is proved for an arbitrary table entry and arbitrary NCP answers (read then at most one exact set; a grow-only entry is never written when the NCP's readable value is not smaller; a rejected set is not an exception). Table obligation: every capacity default is grow-only in every version.",
        "note": "BOUNDED DIMENSION (stated, not hidden): user override sets of size <= 2 over the four key categories the code distinguishes (grow-only default, plain default, no default, buffer count), both insertion orders, each value symbolic or None; larger override sets follow from the per-key independence of the merge loop (argued). voluptuous validation assumed to return user entries plus schema defaults. Known finding F8 (v7 schema default for the key table) is listed in known_findings.json.",
    },
    "C17": {
        "text": "stack_status_callback (both status families), formNetwork, leaveNetwork, _list_command, add/remove_callback and ControllerApplication._ensure_network_running proved with interference at every await: the listener / collecting callback is registered when the command is issued; normal completion only after the command was accepted and the waiter future got a result; refusal raises without waiting; the event wait is under the operation timeout; on every exit (success, failure, timeout, cancellation) no listener or callback of the operation remains; a status event completes exactly the pending listeners of its status and never raises.",
        "note": "The collecting callback of _list_command is a closure invoked by other tasks while the operation is suspended; the content / order of the collected results ('every result callback between issue and completion, none from before') is argued from registration-before-issue + removal-on-exit, not mechanised (would need re-entrant callback interference). wait_for_stack_status is verified inlined in its users. F9 found here and fixed.",
    },
    "C18": {
        "text": "Every obligation generated from the current source of sl_Status.from_ember_status (with the live SL_STATUS_MAP as data) is discharged by z3 for all values of each status family, no bound.",
        "note": "Trusts the PyVC value model (enum identity/equality, dict lookup by (type, value) key) and z3; logging calls are dropped; decorators other than classmethod make the function outside reach.",
    },
}

NOT_APPLICABLE = {}
