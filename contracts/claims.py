"""Per-property claims that go into MANIFEST.json (tools/gen_manifest.py)."""

CLAIMS = {
    "C01": {
        "text": "Host side of the ASH link: every obligation generated from the current source of send_data, _send_data_frame, _handle_ack, frame_received, data_frame_received, nak_frame_received and _cancel_pending_data_frames is discharged for all inputs, all states allowed by the class invariant and all interleavings at awaits (await rule): payload passed unchanged and sent behind a shield, same frame number/payload on every repeat, completion only by a covering ackNum, accept iff in sequence, one ACK/NAK per DATA frame.",
        "note": "PARTIAL: the two-endpoint composition with a conforming NCP over a faulty FIFO line (DESIGN 3 C01 / 4) is a written lemma over these contracts, not mechanised. Assumed: asyncio.Future / shield / timeout / Semaphore contracts, TX_K semantics of the semaphore; floats as reals.",
    },
    "C04": {
        "text": "Every obligation generated from the receiver callbacks of AshProtocol (frame_received dispatch, data/ack/nak/rst/rstack/error handlers, _enter_failed_state, _write_frame gate) is discharged for all frames, all 3-bit counter states and all reset codes; the history claim follows from the class invariant preserved by every callback.",
        "note": "Trusts the PyVC value model and z3; transport, upper protocol and asyncio.Future enter as assumed contracts; precondition: transport open (observation in DESIGN 5.1).",
    },
    "C05": {
        "text": "Retry budget, same number/payload, retransmit flag, clamped timeout, failed-state gate, single upward failure report and bookkeeping of _send_data_frame proved over all await outcomes (ACK, NAK, timeout, failure, close, cancellation) with arbitrary interference at every await; helper callbacks proved against the same class invariant; guarantee side (who may write the fields the sender relies on) checked over the live class.",
        "note": "Assumed: asyncio.timeout fires after exactly t, Semaphore admits TX_K holders, Future semantics; peer RST frames also clear the failed state (outside the quantifier); ghost time bound argued from the per-attempt timeout clause, floats as reals.",
    },
    "C18": {
        "text": "Every obligation generated from the current source of sl_Status.from_ember_status (with the live SL_STATUS_MAP as data) is discharged by z3 for all values of each status family, no bound.",
        "note": "Trusts the PyVC value model (enum identity/equality, dict lookup by (type, value) key) and z3; logging calls are dropped; decorators other than classmethod make the function outside reach.",
    },
}

NOT_APPLICABLE = {}
