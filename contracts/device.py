"""C15 (anchor bellows/zigbee/device.py): the coordinator endpoint's group membership follows the multicast table --
a group is added to / removed from the endpoint only when the table write was accepted."""
import asyncio

import bellows.types as t
import bellows.zigbee.device as device
from bellows.exception import EzspError

from pyvc.calls import ExtMethod
from pyvc.contracts import ClassSpec, T, contract
from pyvc.ext import effect, ext_class, field

StatusT = T.oneof(T.enum(t.sl_Status), T.enum(t.EmberStatus))

# Multicast as seen from the endpoint: its own contracts are in contracts/multicast.py (a status of either family, or
# the failure of the table write)
MULTICAST = ext_class(
    "multicast",
    subscribe=ExtMethod("subscribe", effect=True, is_async=True, raises=[asyncio.TimeoutError, EzspError],
                        returns=lambda I, s, a, k: StatusT.fresh(I, "subscribe_status")),
    unsubscribe=ExtMethod("unsubscribe", effect=True, is_async=True, raises=[asyncio.TimeoutError, EzspError],
                          returns=lambda I, s, a, k: StatusT.fresh(I, "unsubscribe_status")),
)
GROUP = ext_class("group", add_member=effect(), remove_member=effect())
GROUPS = ext_class(
    "groups",
    add_group=ExtMethod("add_group", effect=True, returns=lambda I, s, a, k: T.ext(GROUP).fresh(I, "group")),
    __getitem__=ExtMethod("__getitem__", effect=True, returns=lambda I, s, a, k: T.ext(GROUP).fresh(I, "group")),
)
APPLICATION = ext_class("application", fields={"multicast": T.ext(MULTICAST), "groups": T.ext(GROUPS)}, stable_fields=("multicast", "groups"))
DEVICE = ext_class("device", fields={"application": T.ext(APPLICATION)}, stable_fields=("application",))

ENDPOINT = ClassSpec(
    "bellows.zigbee.device.EZSPEndpoint",
    fields=dict(device=T.ext(DEVICE), member_of=T.set_(lo=0, hi=0xFFFF)),
    interference=[],
)


def table_calls(fx, which):
    """arguments of the table operations requested (recorded when the request is made, whatever its outcome)"""
    return [r[2] for r in fx if r[0] == "call" and r[1] == "multicast." + which]


def membership_changes(fx):
    return [r[0] for r in fx if r[0] in ("group.add_member", "group.remove_member", "groups.add_group")]


def accepted(status):
    return status == t.sl_Status.OK


@contract("bellows.zigbee.device.EZSPEndpoint.add_to_group", props=["C15"])
def _(c):
    c.self(ENDPOINT)
    c.arg("grp_id", T.range(0, 0xFFFF))
    c.arg("name", T.opaque)
    c.raises("rejected", ValueError)
    c.raises("timeout", asyncio.TimeoutError)
    c.raises("ezsp", EzspError)
    c.raises("cancelled", asyncio.CancelledError)
    # a group the endpoint is already a member of needs no table write
    c.ensures(
        "post.member_already_no_table_write",
        lambda self, grp_id, fx: implies(old(grp_id in self.member_of), table_calls(fx, "subscribe") == [] and membership_changes(fx) == []),
        on="any",
    )
    # otherwise exactly one subscription of this group is requested ...
    c.ensures(
        "post.one_subscription_of_this_group",
        lambda self, grp_id, fx: implies(not old(grp_id in self.member_of), table_calls(fx, "subscribe") == [(grp_id,)]),
        on="any",
    )
    # ... and the endpoint joins the group only when the table write was accepted: a rejected or failed write raises and
    # leaves the membership alone ("the groups the host reports as subscribed are exactly those programmed")
    c.ensures(
        "post.membership_only_after_an_accepted_write",
        lambda fx: implies(
            membership_changes(fx) != [],
            membership_changes(fx) == ["groups.add_group", "group.add_member"]
            and [accepted(r[2]) for r in fx if r[0] == "ret" and r[1] == "multicast.subscribe"] == [True],
        ),
        on="any",
    )
    c.ensures(
        "post.returns_only_as_member_or_after_accepted_write",
        lambda self, grp_id, fx: old(grp_id in self.member_of) or membership_changes(fx) == ["groups.add_group", "group.add_member"],
    )
    c.modifies()


@contract("bellows.zigbee.device.EZSPEndpoint.remove_from_group", props=["C15"])
def _(c):
    c.self(ENDPOINT)
    c.arg("grp_id", T.range(0, 0xFFFF))
    c.raises("rejected", ValueError)
    c.raises("timeout", asyncio.TimeoutError)
    c.raises("ezsp", EzspError)
    c.raises("cancelled", asyncio.CancelledError)
    c.ensures(
        "post.not_a_member_no_table_write",
        lambda self, grp_id, fx: implies(not old(grp_id in self.member_of), table_calls(fx, "unsubscribe") == [] and membership_changes(fx) == []),
        on="any",
    )
    c.ensures(
        "post.one_unsubscription_of_this_group",
        lambda self, grp_id, fx: implies(old(grp_id in self.member_of), table_calls(fx, "unsubscribe") == [(grp_id,)]),
        on="any",
    )
    c.ensures(
        "post.membership_dropped_only_after_an_accepted_write",
        lambda fx: implies(
            membership_changes(fx) != [],
            membership_changes(fx) == ["group.remove_member"]
            and [accepted(r[2]) for r in fx if r[0] == "ret" and r[1] == "multicast.unsubscribe"] == [True],
        ),
        on="any",
    )
    c.ensures(
        "post.returns_only_as_non_member_or_after_accepted_write",
        lambda self, grp_id, fx: not old(grp_id in self.member_of) or membership_changes(fx) == ["group.remove_member"],
    )
    c.modifies()
