"""C14: ControllerApplication.write_network_info -- what is written to the NCP carries the given settings."""
import asyncio

import zigpy.exceptions
import zigpy.state
import zigpy.types as zigpy_t

import bellows.types as t
import bellows.zigbee.application as app
import bellows.zigbee.util as util
import bellows.exception
from bellows.exception import EzspError

from contracts import index as _index
from pyvc.calls import ExtMethod
from pyvc.contracts import ClassSpec, REGISTRY, T, contract, external
from pyvc.ext import effect, ext_class, field
from pyvc.values import SObj

NCP_FAILS = [asyncio.TimeoutError, EzspError]


def _a(name, returns=None):
    return ExtMethod(name, effect=True, is_async=True, raises=NCP_FAILS, returns=returns)


EZSP_NI = ext_class(
    "ezsp",
    fields={"ezsp_version": T.range(4, 255)},
    stable_fields=("ezsp_version",),
    getEui64=_a("getEui64", lambda I, s, a, k: (T.opaque.fresh(I, "current_eui64"),)),
    can_rewrite_custom_eui64=_a("can_rewrite_custom_eui64", lambda I, s, a, k: T.bool.fresh(I, "can_rewrite")),
    can_burn_userdata_custom_eui64=_a("can_burn_userdata_custom_eui64", lambda I, s, a, k: T.bool.fresh(I, "can_burn")),
    write_custom_eui64=_a("write_custom_eui64"),
    write_nwk_frame_counter=_a("write_nwk_frame_counter"),
    write_aps_frame_counter=_a("write_aps_frame_counter"),
    setInitialSecurityState=_a("setInitialSecurityState", lambda I, s, a, k: (T.enum(t.sl_Status).fresh(I, "sec_status"),)),
    write_link_keys=_a("write_link_keys"),
    write_child_data=_a("write_child_data"),
    formNetwork=_a("formNetwork"),
    factory_reset=_a("factory_reset"),
    reset_custom_eui64=_a("reset_custom_eui64"),
    leaveNetwork=_a("leaveNetwork"),
)

APP_NI = ClassSpec("bellows.zigbee.application.ControllerApplication", fields=dict(_ezsp=T.ext(EZSP_NI)), interference=[])


@external("posix.urandom")
def _(I, args, kwargs):
    return T.bytes.fresh(I, "random_bytes")


@contract("bellows.zigbee.application.ControllerApplication.reset_network_info", props=["C14"])
def _(c):
    # restore sequence, first step ("restore sequence: write_network_info / reset_network_info"): whatever an earlier
    # network -- or an earlier, failed restore -- left on the NCP is wiped before anything new is written, whether or
    # not the NCP is on a network at that moment; only then can what is read back equal what was written
    c.self(APP_NI)
    c.effect_name = "app.reset_network_info"
    c.raises("command_failed", EzspError)
    c.raises("timeout", asyncio.TimeoutError)
    c.raises("failed", zigpy.exceptions.RadioException)
    c.raises("not_running", bellows.exception.ControllerError)  # propagated from _ensure_network_running (C17)
    c.raises("cancelled", asyncio.CancelledError)
    c.ensures(
        "post.ncp_wiped_on_every_normal_return",
        lambda fx: len(calls(fx, "ezsp.factory_reset")) == 1 and len(calls(fx, "ezsp.reset_custom_eui64")) == 1
        and len(calls(fx, "app._reset")) == 1,
    )
    # the NCP is restarted after the wipe (a changed token store takes effect at start-up)
    c.ensures(
        "post.restart_follows_the_wipe",
        lambda fx: [r[1] for r in fx if r[0] == "call" and r[1] in ("ezsp.factory_reset", "ezsp.reset_custom_eui64", "app._reset")]
        == ["ezsp.factory_reset", "ezsp.reset_custom_eui64", "app._reset"],
    )
    # a network that is up is left (exactly once, after it was found running); none is left when none is formed
    c.ensures(
        "post.leaves_iff_a_network_is_up",
        lambda fx: len(calls(fx, "ezsp.leaveNetwork"))
        == len([r for r in fx if r[0] == "await" and r[1].endswith("_ensure_network_running") and r[2] == "return"]),
    )
    c.modifies()


for _name in ("_reset", "_ensure_network_running"):
    @contract(f"bellows.zigbee.application.ControllerApplication.{_name}", props=["C14"])
    def _(c, _name=_name):
        c.self(APP_NI)
        c.trusted = True  # their own contracts: C17 (_ensure_network_running); reset paths are outside C14
        c.effect_name = "app." + _name
        c.raises("command_failed", EzspError)
        c.raises("timeout", asyncio.TimeoutError)
        c.raises("failed", zigpy.exceptions.RadioException)  # NetworkNotFormed, start-up failure
        c.raises("cancelled", asyncio.CancelledError)
        c.modifies()

# zha_security at this call site: its proved contract (contracts/ezsp_accessors.py) as a record of its result
_zs = REGISTRY.contracts["bellows.zigbee.util.zha_security"]
_zs.effect_name = "util.zha_security"
_zs.returns(T.record(t.EmberInitialSecurityState, frozen=False, bitmask=T.enum(t.EmberInitialSecurityBitmask),
                     preconfiguredKey=T.opaque, networkKey=T.opaque, networkKeySequenceNumber=T.range(0, 255),
                     preconfiguredTrustCenterEui64=T.opaque))
_zs.proof_only = set(cid for cid, _l, _o in _zs.ensures_ if cid == "post.link_key_plain_or_hashed_as_requested")

KeyRec = lambda: T.record(zigpy.state.Key, frozen=False, key=T.opaque, tx_counter=T.range(0, 0xFFFFFFFF),  # noqa: E731
                          rx_counter=T.range(0, 0xFFFFFFFF), seq=T.range(0, 255), partner_ieee=T.opaque)


class _ChildrenT:
    def fresh(self, I, name):
        c0, c1 = T.opaque.fresh(I, "child0"), T.opaque.fresh(I, "child1")
        import z3

        I.ctx.assume(c0.t != c1.t)
        return [c0, c1]


class _NwkAddressesT:
    """NWK addresses known for the first child only (and for a device that is no child)"""

    def fresh(self, I, name):
        return {"<filled by setup>": None}


def _children_setup(I, b):
    ni = b["network_info"]
    c0, c1 = ni.fields["children"]
    other = T.opaque.fresh(I, "not_a_child")
    I.ctx.assume(other.t != c0.t)
    I.ctx.assume(other.t != c1.t)
    ni.fields["nwk_addresses"] = {c0: T.typed_int(t.EmberNodeId).fresh(I, "nwk_of_child0"), other: T.typed_int(t.EmberNodeId).fresh(I, "nwk_of_other")}
    b["child0"], b["child1"] = c0, c1


def _network_info(stack_specific):
    return T.record(
        zigpy.state.NetworkInfo, frozen=False,
        network_key=KeyRec(), tc_link_key=KeyRec(), key_table=T.const(["<link key table>"]),
        children=_ChildrenT(), nwk_addresses=_NwkAddressesT(),
        pan_id=T.range(0, 0xFFFF), extended_pan_id=T.opaque, channel=T.range(11, 26), channel_mask=T.enum(t.Channels),
        nwk_manager_id=T.range(0, 0xFFFF), nwk_update_id=T.range(0, 255),
        stack_specific=T.const(stack_specific),
    )


NodeInfoT = T.record(zigpy.state.NodeInfo, frozen=False, ieee=T.opaque, nwk=T.range(0, 0xFFFF))


def calls(fx, name):
    return [r for r in fx if r[0] == "call" and r[1] == name]


def rets(fx, name):
    return [r[2] for r in fx if r[0] == "ret" and r[1] == name]


@contract("bellows.zigbee.application.ControllerApplication.write_network_info", props=["C14"])
def _(c):
    c.self(APP_NI)
    c.cases(
        ("backup with hashed link key", {"network_info": _network_info({"ezsp": {"hashed_tclk": "00" * 16}}), "node_info": NodeInfoT}),
        ("backup without ezsp data", {"network_info": _network_info({}), "node_info": NodeInfoT}),
        ("opted into burning the EUI64",
         {"network_info": _network_info({"ezsp": {"i_understand_i_can_update_eui64_only_once_and_i_still_want_to_do_it": True}}),
          "node_info": NodeInfoT}),
    )
    c.setup = _children_setup
    c.raises("failed", Exception)
    c.raises("cancelled", asyncio.CancelledError)
    # the factory reset comes first, and the address the NCP "really has" is read after it: the reset clears a
    # rewritable EUI64 token and restarts the NCP, so an address sampled before it may no longer be the NCP's
    c.ensures(
        "post.own_address_read_after_the_reset",
        lambda fx: [r[1] for r in fx if r[0] == "call" and r[1] in ("app.reset_network_info", "ezsp.getEui64")]
        == ["app.reset_network_info", "ezsp.getEui64"],
    )
    # "the child table": exactly the children whose NWK address is known, each with its address
    c.ensures(
        "post.children_with_known_addresses_written",
        lambda network_info, child0, fx: len(calls(fx, "ezsp.write_child_data")) == 1
        and list(calls(fx, "ezsp.write_child_data")[0][2][0].keys()) == [child0]
        and calls(fx, "ezsp.write_child_data")[0][2][0][child0] == network_info.nwk_addresses[child0],
    )
    # frame counters ("where the protocol version can store them": the per-version accessors decide)
    c.ensures(
        "post.frame_counters_written",
        lambda network_info, fx: [r[2] for r in calls(fx, "ezsp.write_nwk_frame_counter")] == [(network_info.network_key.tx_counter,)]
        and [r[2] for r in calls(fx, "ezsp.write_aps_frame_counter")] == [(network_info.tc_link_key.tx_counter,)],
    )
    # "The security state sent to the NCP carries exactly these keys": it is zha_security of these settings,
    # hashed link key on every version that supports it
    c.ensures(
        "post.security_state_is_zha_security_of_the_settings",
        lambda self, network_info, fx: len(calls(fx, "util.zha_security")) == 1
        and calls(fx, "util.zha_security")[0][3]["network_info"] is network_info
        and calls(fx, "util.zha_security")[0][3]["use_hashed_tclk"] == (self._ezsp.ezsp_version > 4)
        and [r[3] for r in calls(fx, "ezsp.setInitialSecurityState")] == [{"state": rets(fx, "util.zha_security")[0]}],
    )
    c.ensures(
        "post.hashed_link_key_present_when_used",
        lambda self, network_info: implies(
            self._ezsp.ezsp_version > 4,
            "ezsp" in network_info.stack_specific and "hashed_tclk" in network_info.stack_specific.get("ezsp", {}),
        ),
    )
    # when the backup's EUI64 was not written to this NCP, the keys are tied to the NCP's own address: the trust
    # centre recorded in the security state is the address the NCP really has
    c.ensures(
        "post.trust_centre_is_the_ncps_own_address_unless_eui64_written",
        lambda network_info, node_info, fx: implies(
            calls(fx, "ezsp.write_custom_eui64") == [],
            network_info.tc_link_key.partner_ieee == rets(fx, "ezsp.getEui64")[0][0]
            and node_info.ieee == rets(fx, "ezsp.getEui64")[0][0],
        ),
    )
    # "with presence flags that match the fields supplied": when the backup's EUI64 WAS written, the trust-centre
    # address that goes into the security state is the one the backup supplied (known or unknown), nothing invented
    c.ensures(
        "post.supplied_trust_centre_kept_when_eui64_written",
        lambda network_info, node_info, fx: implies(
            calls(fx, "ezsp.write_custom_eui64") != [],
            network_info.tc_link_key.partner_ieee == old(network_info.tc_link_key.partner_ieee)
            and node_info.ieee == old(node_info.ieee),
        ),
    )
    c.ensures(
        "post.eui64_written_only_when_it_differs_and_is_allowed",
        lambda node_info, fx: all(r[2][0] == old(node_info.ieee) for r in calls(fx, "ezsp.write_custom_eui64"))
        and len(calls(fx, "ezsp.write_custom_eui64")) <= 1,
    )
    c.ensures(
        "post.link_key_table_written",
        lambda network_info, fx: [r[2] for r in calls(fx, "ezsp.write_link_keys")] == [(network_info.key_table,)],
    )
    # PAN ID, extended PAN ID, channel and channel mask, update ID, manager
    c.ensures(
        "post.network_parameters",
        lambda network_info, fx: len(calls(fx, "ezsp.formNetwork")) == 1
        and calls(fx, "ezsp.formNetwork")[0][3]["parameters"].panId == network_info.pan_id
        and calls(fx, "ezsp.formNetwork")[0][3]["parameters"].extendedPanId == network_info.extended_pan_id
        and calls(fx, "ezsp.formNetwork")[0][3]["parameters"].radioChannel == network_info.channel
        and calls(fx, "ezsp.formNetwork")[0][3]["parameters"].channels == network_info.channel_mask
        and calls(fx, "ezsp.formNetwork")[0][3]["parameters"].nwkManagerId == network_info.nwk_manager_id
        and calls(fx, "ezsp.formNetwork")[0][3]["parameters"].nwkUpdateId == network_info.nwk_update_id,
    )
    c.ensures(
        "post.security_before_forming",
        lambda fx: [r[1] for r in fx if r[0] == "call" and r[1] in ("ezsp.setInitialSecurityState", "ezsp.formNetwork")]
        == ["ezsp.setInitialSecurityState", "ezsp.formNetwork"],
    )


# ---------------------------------------------------------------------------
# the read half: ControllerApplication.load_network_info (C14 "reading them back returns the same ...")
# ---------------------------------------------------------------------------
import bellows.ezsp.v14 as _v14  # noqa: E402
import bellows.ezsp.v4 as _v4  # noqa: E402
import bellows.ezsp.v13 as _v13  # noqa: E402
import zigpy.zdo.types as zdo_t  # noqa: E402

constructor_ = __import__("pyvc.contracts", fromlist=["constructor"]).constructor
from contracts.externals import _value_wrapper  # noqa: E402

for _w in (zigpy_t.ExtendedPanId,):
    constructor_(_w)(_value_wrapper)

ReadKeyT = T.record(zigpy.state.Key, frozen=False, key=T.opaque, tx_counter=T.range(0, 0xFFFFFFFF),
                    rx_counter=T.range(0, 0xFFFFFFFF), seq=T.range(0, 255), partner_ieee=T.opaque)


def _async_gen(name, item_type):
    """an async generator of the EZSP object (its own contract: contracts/ezsp_accessors.py): any number of items of
    the declared type, a command failure at any step"""
    gen = ext_class("gen_" + name)
    gen.methods["__anext__"] = ExtMethod("__anext__", effect=True, is_async=True,
                                         raises=[StopAsyncIteration, asyncio.TimeoutError, EzspError],
                                         returns=lambda I, s, a, k: item_type.fresh(I, name + ".item"))

    def make(I, self_obj, args, kwargs):
        I.ctx.emit("call", "ezsp." + name, tuple(args), dict(kwargs))
        return SObj(gen, {}, tag="gen_" + name)

    return ExtMethod(name, fn=make)


def _ezsp_for_load(cls):
    def dyn(name):
        if not isinstance(name, str) or name not in cls.COMMANDS:
            return None
        from pyvc import ncp

        def ret(I, s, a, k):
            ncp.check_request(I, cls, name, list(a), dict(k))
            return ncp.response_of(I, cls, name)

        return ExtMethod(name, effect=True, is_async=True, raises=NCP_FAILS, returns=ret)

    return ext_class(
        "ezsp", fields={"ezsp_version": T.const(cls.VERSION)}, stable_fields=("ezsp_version",), dynamic=dyn,
        get_network_key=_a("get_network_key", lambda I, s, a, k: ReadKeyT.fresh(I, "network_key")),
        get_tc_link_key=_a("get_tc_link_key", lambda I, s, a, k: ReadKeyT.fresh(I, "tc_link_key")),
        can_rewrite_custom_eui64=_a("can_rewrite_custom_eui64", lambda I, s, a, k: T.bool.fresh(I, "can_rewrite")),
        can_burn_userdata_custom_eui64=_a("can_burn_userdata_custom_eui64", lambda I, s, a, k: T.bool.fresh(I, "can_burn")),
        read_link_keys=_async_gen("read_link_keys", ReadKeyT),
        read_child_data=_async_gen("read_child_data", T.tuple(T.typed_int(t.EmberNodeId), T.opaque, T.enum(t.EmberNodeType))),
        read_address_table=_async_gen("read_address_table", T.tuple(T.typed_int(t.EmberNodeId), T.opaque)),
    )


# zigpy's State object: only this operation writes it while it runs (sequential use, as for the other C14 operations)
STATE = ext_class("state", fields={"node_info": T.opaque, "network_info": T.opaque}, stable_fields=("node_info", "network_info"))


def _load_spec(cls):
    return ClassSpec("bellows.zigbee.application.ControllerApplication",
                     fields=dict(_ezsp=T.ext(_ezsp_for_load(cls)), state=T.ext(STATE)), interference=[])


_LOAD_SPECS = {cls.VERSION: _load_spec(cls) for cls in (_v4.EZSPv4, _v13.EZSPv13, _v14.EZSPv14)}

_bi = REGISTRY.contracts.get("bellows.zigbee.application.ControllerApplication._get_board_info")
if _bi is None:
    @contract("bellows.zigbee.application.ControllerApplication._get_board_info", props=["C14"])
    def _(c):
        c.self(APP_NI)
        c.trusted = True  # board strings are not part of the network settings
        c.effect_name = "app._get_board_info"
        c.returns(T.tuple(T.opaque, T.opaque, T.opaque))
        c.raises("timeout", asyncio.TimeoutError)  # (EzspError is absorbed by the function itself)
        c.raises("cancelled", asyncio.CancelledError)
        c.modifies()


def rsp(fx, name, i=0):
    return [r[2] for r in fx if r[0] == "ret" and r[1] == "ezsp." + name][i]


def params(fx):
    return ncp_field(rsp(fx, "getNetworkParameters"), "parameters")


def ncp_field(r, name):
    return r.items[r.field_names.index(name)]


@contract("bellows.zigbee.application.ControllerApplication.load_network_info", props=["C14"])
def _(c):
    c.self(_LOAD_SPECS[4])
    c.cases(*[(f"v{v}, {'with' if ld else 'without'} devices", {"__selfspec__": sp, "load_devices": T.const(ld)})
              for v, sp in _LOAD_SPECS.items() for ld in (False, True)])
    c.raises("not_a_coordinator", zigpy.exceptions.NetworkNotFormed)
    c.raises("unexpected_status", AssertionError)
    c.raises("security_level_does_not_fit_a_byte", ValueError)  # the NCP reports it as a 16-bit configuration value
    c.raises("command_failed", EzspError)
    c.raises("timeout", asyncio.TimeoutError)
    c.raises("failed", zigpy.exceptions.RadioException)
    c.raises("bring_up_refused", zigpy.exceptions.ControllerException)  # _ensure_network_running: networkInit refused
    c.raises("cancelled", asyncio.CancelledError)
    # node address pair: what the NCP reports for itself
    c.ensures(
        "post.node_addresses_are_the_ncps",
        lambda self, fx: self.state.node_info.nwk == ncp_field(rsp(fx, "getNodeId"), "nodeId")
        and self.state.node_info.ieee == ncp_field(rsp(fx, "getEui64"), "eui64"),
    )
    # "returns the same PAN ID, extended PAN ID, channel and channel mask, update ID": each setting comes from the
    # field of that name of the NCP's network parameters
    c.ensures(
        "post.network_parameters_by_field",
        lambda self, fx: self.state.network_info.pan_id == params(fx).panId
        and self.state.network_info.extended_pan_id == params(fx).extendedPanId
        and self.state.network_info.channel == params(fx).radioChannel
        and self.state.network_info.channel_mask == params(fx).channels
        and self.state.network_info.nwk_update_id == params(fx).nwkUpdateId
        and self.state.network_info.nwk_manager_id == params(fx).nwkManagerId,
    )
    c.ensures(
        "post.only_a_coordinator_with_good_statuses",
        lambda fx: ncp_field(rsp(fx, "getNetworkParameters"), "nodeType") == t.EmberNodeType.COORDINATOR
        and t.sl_Status.from_ember_status(ncp_field(rsp(fx, "getNetworkParameters"), "status")) == t.sl_Status.OK
        and t.sl_Status.from_ember_status(ncp_field(rsp(fx, "getCurrentSecurityState"), "status")) == t.sl_Status.OK,
    )
    # "network key with its sequence number, trust-centre link key": the objects the accessors returned
    c.ensures(
        "post.keys_are_the_accessors_results",
        lambda self, fx: self.state.network_info.network_key is rsp(fx, "get_network_key")
        and self.state.network_info.tc_link_key is rsp(fx, "get_tc_link_key"),
    )
    # "(including the hashed form kept in stack-specific data)"
    c.ensures(
        "post.hashed_link_key_moved_to_stack_specific_data",
        lambda self, fx: (
            "ezsp" in self.state.network_info.stack_specific
            and self.state.network_info.tc_link_key.key == zigpy_t.KeyData(b"ZigBeeAlliance09")
        ) if t.EmberCurrentSecurityBitmask.TRUST_CENTER_USES_HASHED_LINK_KEY in ncp_field(rsp(fx, "getCurrentSecurityState"), "state").bitmask
        else self.state.network_info.stack_specific == {},
    )
    # the coordinator is its own trust centre: the link key's partner is the NCP's own address
    c.ensures(
        "post.trust_centre_is_this_node",
        lambda self, fx: self.state.network_info.tc_link_key.partner_ieee == ncp_field(rsp(fx, "getEui64"), "eui64"),
    )
    c.ensures(
        "post.tables_empty_without_devices",
        lambda self, load_devices: implies(
            not load_devices,
            self.state.network_info.key_table == [] and self.state.network_info.children == []
            and self.state.network_info.nwk_addresses == {},
        ),
    )
    AnyMap = T.map(T.typed_int(t.EmberNodeId))
    ghost = {"types": {"self.state.network_info.key_table": T.any_list(), "self.state.network_info.children": T.any_list(),
                       "self.state.network_info.nwk_addresses": AnyMap}}
    # "link-key table entries": every key the accessor yields is appended, in order, nothing else
    c.loop(0, ghost=ghost, where="read_link_keys",
           at_entry=[("starts_empty", lambda self: self.state.network_info.key_table == [])],
           each=[("yielded_key_appended", lambda self, link_key: self.state.network_info.key_table
                  == old(self.state.network_info.key_table) + [link_key])])
    # "the child table": every child is recorded with its own address pair
    c.loop(1, ghost=ghost, where="read_child_data",
           at_entry=[("starts_empty", lambda self: self.state.network_info.children == [] and self.state.network_info.nwk_addresses == {})],
           each=[("child_recorded_with_its_addresses",
                  lambda self, nwk, eui64: self.state.network_info.children == old(self.state.network_info.children) + [eui64]
                  and self.state.network_info.nwk_addresses[eui64] == nwk
                  and unchanged_except(self.state.network_info.nwk_addresses, old(self.state.network_info.nwk_addresses), [eui64]))])
    c.loop(2, ghost=ghost, where="read_address_table",
           each=[("address_recorded",
                  lambda self, nwk, eui64: self.state.network_info.nwk_addresses[eui64] == nwk
                  and unchanged_except(self.state.network_info.nwk_addresses, old(self.state.network_info.nwk_addresses), [eui64])
                  and self.state.network_info.children == old(self.state.network_info.children))])
