"""C14: ControllerApplication.write_network_info -- what is written to the NCP carries the given settings."""
import asyncio

import zigpy.exceptions
import zigpy.state
import zigpy.types as zigpy_t

import bellows.types as t
import bellows.zigbee.application as app
import bellows.zigbee.util as util
from bellows.exception import EzspError

from contracts import index as _index
from pyvc.calls import ExtMethod
from pyvc.contracts import ClassSpec, REGISTRY, T, contract, external
from pyvc.ext import effect, ext_class, field
from pyvc.values import SObj

NCP_FAILS = [asyncio.TimeoutError, EzspError]


def _a(name, returns=None):
    return ExtMethod(name, effect=True, is_async=True, raises=NCP_FAILS, returns=returns)


EZSP_NI = ext_class(
    "ezsp",
    fields={"ezsp_version": T.range(4, 255)},
    stable_fields=("ezsp_version",),
    getEui64=_a("getEui64", lambda I, s, a, k: (T.opaque.fresh(I, "current_eui64"),)),
    can_rewrite_custom_eui64=_a("can_rewrite_custom_eui64", lambda I, s, a, k: T.bool.fresh(I, "can_rewrite")),
    can_burn_userdata_custom_eui64=_a("can_burn_userdata_custom_eui64", lambda I, s, a, k: T.bool.fresh(I, "can_burn")),
    write_custom_eui64=_a("write_custom_eui64"),
    write_nwk_frame_counter=_a("write_nwk_frame_counter"),
    write_aps_frame_counter=_a("write_aps_frame_counter"),
    setInitialSecurityState=_a("setInitialSecurityState", lambda I, s, a, k: (T.enum(t.sl_Status).fresh(I, "sec_status"),)),
    write_link_keys=_a("write_link_keys"),
    write_child_data=_a("write_child_data"),
    formNetwork=_a("formNetwork"),
    factory_reset=_a("factory_reset"),
    reset_custom_eui64=_a("reset_custom_eui64"),
    leaveNetwork=_a("leaveNetwork"),
)

APP_NI = ClassSpec("bellows.zigbee.application.ControllerApplication", fields=dict(_ezsp=T.ext(EZSP_NI)), interference=[])


@external("posix.urandom")
def _(I, args, kwargs):
    return T.bytes.fresh(I, "random_bytes")


for _name in ("reset_network_info", "_reset", "_ensure_network_running"):
    @contract(f"bellows.zigbee.application.ControllerApplication.{_name}", props=["C14"])
    def _(c, _name=_name):
        c.self(APP_NI)
        c.trusted = True  # their own contracts: C17 (_ensure_network_running); reset paths are outside C14
        c.effect_name = "app." + _name
        c.raises("failed", Exception)
        c.raises("cancelled", asyncio.CancelledError)
        c.modifies()

# zha_security at this call site: its proved contract (contracts/ezsp_accessors.py) as a record of its result
_zs = REGISTRY.contracts["bellows.zigbee.util.zha_security"]
_zs.effect_name = "util.zha_security"
_zs.returns(T.record(t.EmberInitialSecurityState, frozen=False, bitmask=T.enum(t.EmberInitialSecurityBitmask),
                     preconfiguredKey=T.opaque, networkKey=T.opaque, networkKeySequenceNumber=T.range(0, 255),
                     preconfiguredTrustCenterEui64=T.opaque))
_zs.proof_only = set(cid for cid, _l, _o in _zs.ensures_ if cid == "post.link_key_plain_or_hashed_as_requested")

KeyRec = lambda: T.record(zigpy.state.Key, frozen=False, key=T.opaque, tx_counter=T.range(0, 0xFFFFFFFF),  # noqa: E731
                          rx_counter=T.range(0, 0xFFFFFFFF), seq=T.range(0, 255), partner_ieee=T.opaque)


class _ChildrenT:
    def fresh(self, I, name):
        c0, c1 = T.opaque.fresh(I, "child0"), T.opaque.fresh(I, "child1")
        import z3

        I.ctx.assume(c0.t != c1.t)
        return [c0, c1]


def _network_info(stack_specific):
    return T.record(
        zigpy.state.NetworkInfo, frozen=False,
        network_key=KeyRec(), tc_link_key=KeyRec(), key_table=T.const(["<link key table>"]),
        children=T.const([]), nwk_addresses=T.const({}),
        pan_id=T.range(0, 0xFFFF), extended_pan_id=T.opaque, channel=T.range(11, 26), channel_mask=T.enum(t.Channels),
        nwk_manager_id=T.range(0, 0xFFFF), nwk_update_id=T.range(0, 255),
        stack_specific=T.const(stack_specific),
    )


NodeInfoT = T.record(zigpy.state.NodeInfo, frozen=False, ieee=T.opaque, nwk=T.range(0, 0xFFFF))


def calls(fx, name):
    return [r for r in fx if r[0] == "call" and r[1] == name]


def rets(fx, name):
    return [r[2] for r in fx if r[0] == "ret" and r[1] == name]


@contract("bellows.zigbee.application.ControllerApplication.write_network_info", props=["C14"])
def _(c):
    c.self(APP_NI)
    c.cases(
        ("backup with hashed link key", {"network_info": _network_info({"ezsp": {"hashed_tclk": "00" * 16}}), "node_info": NodeInfoT}),
        ("backup without ezsp data", {"network_info": _network_info({}), "node_info": NodeInfoT}),
        ("opted into burning the EUI64",
         {"network_info": _network_info({"ezsp": {"i_understand_i_can_update_eui64_only_once_and_i_still_want_to_do_it": True}}),
          "node_info": NodeInfoT}),
    )
    c.raises("failed", Exception)
    c.raises("cancelled", asyncio.CancelledError)
    # frame counters ("where the protocol version can store them": the per-version accessors decide)
    c.ensures(
        "post.frame_counters_written",
        lambda network_info, fx: [r[2] for r in calls(fx, "ezsp.write_nwk_frame_counter")] == [(network_info.network_key.tx_counter,)]
        and [r[2] for r in calls(fx, "ezsp.write_aps_frame_counter")] == [(network_info.tc_link_key.tx_counter,)],
    )
    # "The security state sent to the NCP carries exactly these keys": it is zha_security of these settings,
    # hashed link key on every version that supports it
    c.ensures(
        "post.security_state_is_zha_security_of_the_settings",
        lambda self, network_info, fx: len(calls(fx, "util.zha_security")) == 1
        and calls(fx, "util.zha_security")[0][3]["network_info"] is network_info
        and calls(fx, "util.zha_security")[0][3]["use_hashed_tclk"] == (self._ezsp.ezsp_version > 4)
        and [r[3] for r in calls(fx, "ezsp.setInitialSecurityState")] == [{"state": rets(fx, "util.zha_security")[0]}],
    )
    c.ensures(
        "post.hashed_link_key_present_when_used",
        lambda self, network_info: implies(
            self._ezsp.ezsp_version > 4,
            "ezsp" in network_info.stack_specific and "hashed_tclk" in network_info.stack_specific.get("ezsp", {}),
        ),
    )
    # when the backup's EUI64 was not written to this NCP, the keys are tied to the NCP's own address: the trust
    # centre recorded in the security state is the address the NCP really has
    c.ensures(
        "post.trust_centre_is_the_ncps_own_address_unless_eui64_written",
        lambda network_info, node_info, fx: implies(
            calls(fx, "ezsp.write_custom_eui64") == [],
            network_info.tc_link_key.partner_ieee == rets(fx, "ezsp.getEui64")[0][0]
            and node_info.ieee == rets(fx, "ezsp.getEui64")[0][0],
        ),
    )
    c.ensures(
        "post.eui64_written_only_when_it_differs_and_is_allowed",
        lambda node_info, fx: all(r[2][0] == old(node_info.ieee) for r in calls(fx, "ezsp.write_custom_eui64"))
        and len(calls(fx, "ezsp.write_custom_eui64")) <= 1,
    )
    c.ensures(
        "post.link_key_table_written",
        lambda network_info, fx: [r[2] for r in calls(fx, "ezsp.write_link_keys")] == [(network_info.key_table,)],
    )
    # PAN ID, extended PAN ID, channel and channel mask, update ID, manager
    c.ensures(
        "post.network_parameters",
        lambda network_info, fx: len(calls(fx, "ezsp.formNetwork")) == 1
        and calls(fx, "ezsp.formNetwork")[0][3]["parameters"].panId == network_info.pan_id
        and calls(fx, "ezsp.formNetwork")[0][3]["parameters"].extendedPanId == network_info.extended_pan_id
        and calls(fx, "ezsp.formNetwork")[0][3]["parameters"].radioChannel == network_info.channel
        and calls(fx, "ezsp.formNetwork")[0][3]["parameters"].channels == network_info.channel_mask
        and calls(fx, "ezsp.formNetwork")[0][3]["parameters"].nwkManagerId == network_info.nwk_manager_id
        and calls(fx, "ezsp.formNetwork")[0][3]["parameters"].nwkUpdateId == network_info.nwk_update_id,
    )
    c.ensures(
        "post.security_before_forming",
        lambda fx: [r[1] for r in fx if r[0] == "call" and r[1] in ("ezsp.setInitialSecurityState", "ezsp.formNetwork")]
        == ["ezsp.setInitialSecurityState", "ezsp.formNetwork"],
    )
