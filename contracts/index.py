"""Which sidecar contract modules serve which property, plus per-property notes that go into
evidence (trusted base, assumptions outside any contract)."""
import importlib

MODULES = {
    "C18": ["contracts.types_named"],
    "C04": ["contracts.externals", "contracts.ash"],
    "C05": ["contracts.externals", "contracts.ash"],
    "C01": ["contracts.externals", "contracts.ash", "contracts.ash_wire"],
    "C11": ["contracts.externals", "contracts.ash", "contracts.ash_wire", "contracts.uart", "contracts.uart_lifecycle"],
    "C10": ["contracts.externals", "contracts.ash", "contracts.ash_wire", "contracts.uart", "contracts.uart_lifecycle", "contracts.ezsp_protocol", "contracts.ezsp"],
    "C06": ["contracts.externals", "contracts.codec_headers", "contracts.ezsp_protocol", "contracts.ezsp"],
    "C08": ["contracts.externals", "contracts.codec_headers", "contracts.ezsp_protocol", "contracts.ezsp"],
    "C07": ["contracts.externals", "contracts.codec_headers", "contracts.codec"],
    "C09": ["contracts.externals", "contracts.types_named", "contracts.codec_headers", "contracts.ezsp_protocol", "contracts.ezsp", "contracts.ezsp_config",
            "contracts.ash", "contracts.ash_wire", "contracts.uart", "contracts.app_connect"],
    "C16": ["contracts.externals", "contracts.types_named", "contracts.codec_headers", "contracts.ezsp_protocol", "contracts.ezsp", "contracts.ezsp_config"],
    "C15": ["contracts.externals", "contracts.types_named", "contracts.multicast", "contracts.device"],
    "C19": ["contracts.externals", "contracts.types_named", "contracts.application", "contracts.codec_headers", "contracts.ezsp_protocol"],
    "C17": ["contracts.externals", "contracts.types_named", "contracts.codec_headers", "contracts.ezsp_protocol", "contracts.ezsp", "contracts.ezsp_events"],
    "C13": ["contracts.externals", "contracts.types_named", "contracts.application", "contracts.app_callbacks"],
    "C12": ["contracts.externals", "contracts.types_named", "contracts.application", "contracts.codec_headers", "contracts.ezsp_protocol", "contracts.ezsp", "contracts.app_send", "contracts.ezsp_accessors"],
    "C20": ["contracts.externals", "contracts.thread"],
    "C02": ["contracts.externals", "contracts.ash", "contracts.ash_wire", "contracts.ash_rx"],
    "C14": ["contracts.externals", "contracts.types_named", "contracts.codec_headers", "contracts.ezsp_protocol", "contracts.ezsp_accessors", "contracts.app_network",
            "contracts.ezsp", "contracts.ezsp_events"],
    "C03": ["contracts.externals", "contracts.ash", "contracts.ash_wire"],
}

EXTRA_OBLIGATIONS = {}
STANDINS = {}
TRUSTED = {}
ASSUMPTIONS = {}
EXPLAIN = {}

_loaded = set()


def load(prop):
    for m in MODULES.get(prop, []):
        if m not in _loaded:
            importlib.import_module(m)
            _loaded.add(m)


def extra(prop):
    def deco(fn):
        EXTRA_OBLIGATIONS.setdefault(prop, []).append(fn)
        return fn

    return deco


def standin(prop):
    def deco(fn):
        STANDINS.setdefault(prop, []).append(fn)
        return fn

    return deco
