"""C09 "connecting performs the ASH reset handshake ... so that the default configuration is then written without
error": ControllerApplication.connect -- the bring-up order as the application drives it."""
import asyncio

import zigpy.config

import bellows.config as conf
import bellows.ezsp as ezsp
import bellows.zigbee.application as app
from bellows.exception import EzspError

from contracts.ezsp import EZ_BRINGUP  # noqa: F401  (the EZSP object built here is the real class, real constructor)
from pyvc.calls import ExtMethod
from pyvc.contracts import ClassSpec, T, contract
from pyvc.ext import effect, ext_class


class _AppConfigT:
    """the application's validated configuration: the keys connect() reads, values symbolic"""

    def fresh(self, I, name):
        return {
            zigpy.config.CONF_DEVICE: T.opaque.fresh(I, "device_config"),
            conf.CONF_USE_THREAD: T.bool.fresh(I, "use_thread"),
            conf.CONF_EZSP_CONFIG: {},
        }


APP_CONNECT = ClassSpec(
    "bellows.zigbee.application.ControllerApplication",
    fields=dict(config=_AppConfigT(), _ezsp=T.none, _created_device_endpoints=T.any_list()),
    interference=[],
)


def bring_up_calls(fx):
    return [r[1] for r in fx if r[0] == "call" and r[1] in ("ezsp.connect", "bellows.ezsp.EZSP.startup_reset", "bellows.ezsp.EZSP.write_config",
                                                             "ezsp.close", "bellows.ezsp.EZSP.close", "zigpy_app.register_endpoints")]


# zigpy's endpoint registration (addEndpoint commands through add_endpoint): outside this property; an awaited external
# call that may fail like any NCP command
ZIGPY_APP = ext_class(
    "zigpy_app",
    register_endpoints=ExtMethod("register_endpoints", effect=True, is_async=True, raises=[asyncio.TimeoutError, EzspError]),
)


from pyvc.contracts import external  # noqa: E402
from pyvc.values import SObj  # noqa: E402


@external("zigpy.application.ControllerApplication.register_endpoints")
def _(I, args, kwargs):
    return ZIGPY_APP.methods["register_endpoints"].apply(I, SObj(ZIGPY_APP, {}, tag="zigpy_app"), [], {})


@contract("bellows.zigbee.application.ControllerApplication.connect", props=["C09"])
def _(c):
    c.self(APP_CONNECT)
    c.raises("cannot_open", OSError)
    c.raises("timeout", TimeoutError)
    c.raises("link", ConnectionResetError)
    c.raises("not_running", EzspError)
    c.raises("cancelled", asyncio.CancelledError)
    c.raises("no_protocol", AttributeError)
    # "connecting performs the ASH reset handshake, sends the first version query ... so that the default
    #  configuration is then written": link, then start-up reset / negotiation, then the configuration write -- in this
    #  order, each once, on one and the same EZSP object
    c.ensures(
        "post.bring_up_order",
        lambda fx: [x for x in bring_up_calls(fx) if x != "zigpy_app.register_endpoints"]
        == ["ezsp.connect", "bellows.ezsp.EZSP.startup_reset", "bellows.ezsp.EZSP.write_config"],
    )
    c.ensures(
        "post.configuration_written_is_the_applications",
        lambda self, fx: [r[2] for r in fx if r[0] == "call" and r[1] == "bellows.ezsp.EZSP.write_config"] == [(self.config[conf.CONF_EZSP_CONFIG],)],
    )
    # the application adopts the EZSP object only after the whole bring-up succeeded; endpoints are registered after that
    c.ensures("post.adopted_after_bring_up", lambda self: self._ezsp is not None and type(self._ezsp) is ezsp.EZSP)
    c.ensures("post.not_adopted_on_failure_of_bring_up", lambda self, fx: implies(
        "bellows.ezsp.EZSP.write_config" not in bring_up_calls(fx) or "zigpy_app.register_endpoints" not in bring_up_calls(fx), self._ezsp is None), on="raise")
    # a bring-up that fails (an error, not a cancellation of the caller) after the link was opened closes it again
    c.ensures(
        "post.closed_when_bring_up_fails",
        lambda raised, fx: implies(
            isinstance(raised, Exception) and "bellows.ezsp.EZSP.startup_reset" in bring_up_calls(fx) and "zigpy_app.register_endpoints" not in bring_up_calls(fx),
            len([x for x in bring_up_calls(fx) if x in ("ezsp.close", "bellows.ezsp.EZSP.close")]) == 1,
        ),
        on="raise",
    )
    c.modifies("self._ezsp", "self._created_device_endpoints")
