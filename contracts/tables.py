"""Table obligations shared by several properties (evaluated exactly on the live objects of every version)."""
import bellows.ezsp as ezsp_mod


def by_id_obligations(tier=None):
    """The id -> command table a handler of each version actually dispatches on (built by the real constructor)
    is exactly the inverse of that version's COMMANDS: every command under its own id with its own schemas, and
    no id of any other version.  Evaluated on the live objects of all versions (finite, exact)."""
    from unittest import mock

    out = []
    for ver, cls in sorted(ezsp_mod.EZSP._BY_VERSION.items()):
        q = f"{cls.__module__}.{cls.__qualname__}"
        try:
            handler = cls(mock.MagicMock(), mock.MagicMock())
            got = dict(handler.COMMANDS_BY_ID)
        except Exception as e:  # the constructor changed shape: undecided here, never a verdict
            out.append({"name": f"{q}::table.by_id_is_inverse_of_commands", "verdict": "error", "backend": "live-table", "t": 0.0,
                        "detail": f"could not construct a v{ver} handler: {e!r}"})
            continue
        want = {cid: (name, tx, rx) for name, (cid, tx, rx) in cls.COMMANDS.items()}
        extra = sorted(hex(k) for k in got.keys() - want.keys())
        missing = sorted(hex(k) for k in want.keys() - got.keys())
        wrong = sorted(hex(k) for k in got.keys() & want.keys() if tuple(got[k]) != want[k])
        ok = not extra and not missing and not wrong
        out.append({"name": f"{q}::table.by_id_is_inverse_of_commands", "verdict": "proved" if ok else "refuted",
                    "backend": "live-table", "t": 0.0, "detail": f"{len(want)} ids of v{ver}",
                    "witness": None if ok else {"version": ver, "ids_of_no_command_of_this_version": extra[:8],
                                                "missing_ids": missing[:8], "wrong_entries": wrong[:8]}})
    return out
