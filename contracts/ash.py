"""Contracts on bellows/ash.py (C01-C05, C10, C11).

Top-level postconditions are taken from the property statements; frames, helper preconditions
and shapes from the code and its call sites.
"""
import asyncio

import bellows.ash as ash
import bellows.types as t

from pyvc.contracts import ClassSpec, T, contract
from pyvc.ext import effect, ext_class, field

# ---------------------------------------------------------------------------
# external collaborators (assumed contracts)
# ---------------------------------------------------------------------------
TRANSPORT = ext_class(
    "transport",
    fields={"closing": T.bool},
    write=effect(),
    is_closing=field("closing"),
    close=effect(sets={"closing": True}),
)
GATEWAY = ext_class(
    "gateway",
    data_received=effect(),
    reset_received=effect(),
    connection_made=effect(),
    connection_lost=effect(),
    eof_received=effect(),
)
from pyvc.calls import ExtMethod

SEMAPHORE = ext_class(
    "semaphore",
    fields={"is_locked": T.bool},
    locked=field("is_locked"),
    __aenter__=ExtMethod("__aenter__", effect=True, is_async=True),
    __aexit__=ExtMethod("__aexit__", effect=True),
)

# ---------------------------------------------------------------------------
# frame shapes as produced by parse_frame (well-formed frames)
# ---------------------------------------------------------------------------
DataFrameT = T.record(ash.DataFrame, frm_num=T.u3, re_tx=T.range(0, 1), ack_num=T.u3, ezsp_frame=T.bytes)
AckFrameT = T.record(ash.AckFrame, res=T.range(0, 1), ncp_ready=T.range(0, 1), ack_num=T.u3)
NakFrameT = T.record(ash.NakFrame, res=T.range(0, 1), ncp_ready=T.range(0, 1), ack_num=T.u3)
RstFrameT = T.record(ash.RstFrame)
RStackFrameT = T.record(ash.RStackFrame, version=T.const(2), reset_code=T.enum(t.NcpResetCode))
ErrorFrameT = T.record(ash.ErrorFrame, version=T.const(2), reset_code=T.enum(t.NcpResetCode))

def _not_acked(I):
    from pyvc.values import SObj

    return SObj(ash.NotAcked, {"args": (), "frame": NakFrameT.fresh(I, "nak")})


def _ncp_failure(I):
    from pyvc.values import SObj

    return SObj(ash.NcpFailure, {"args": (), "code": T.enum(t.NcpResetCode).fresh(I, "code")})


def _closed(I):
    from pyvc.values import SObj

    return SObj(RuntimeError, {"args": ("Connection has been closed",)})


# Who may complete a future stored in _pending_data_frames, and with what (guarantee side: the
# `_handle_ack` / `_cancel_pending_data_frames` contracts + the class scan in ash_sender_guarantee)
ACK_PROMISE = {"result": T.const(True), "excs": [_not_acked, _ncp_failure, _closed], "no_cancel": True}

ASH = ClassSpec(
    "bellows.ash.AshProtocol",
    fields=dict(
        _ezsp_protocol=T.ext(GATEWAY),
        _transport=T.opt(T.ext(TRANSPORT)),
        _buffer=T.bytearray,
        _discarding_until_next_flag=T.bool,
        _pending_data_frames=T.map(T.future(promise=ACK_PROMISE), keys=(0, 7)),
        _send_data_frame_semaphore=T.ext(SEMAPHORE),
        _tx_seq=T.int,
        _rx_seq=T.int,
        _t_rx_ack=T.real,
        _ncp_reset_code=T.opt(T.enum(t.NcpResetCode)),
        _ncp_state=T.enum(ash.NcpState),
    ),
    invariants=[
        ("rx_seq_3bit", lambda self: 0 <= self._rx_seq < 8),
        ("tx_seq_3bit", lambda self: 0 <= self._tx_seq < 8),
        ("ack_timeout_clamped", lambda self: ash.T_RX_ACK_MIN <= self._t_rx_ack <= ash.T_RX_ACK_MAX),
    ],
    # fields other callbacks / tasks may change while a coroutine of the class is suspended.  NOT in the
    # list: _pending_data_frames (only the semaphore holder stores / pops keys; others complete the
    # futures in it), the semaphore, the upper protocol reference.
    interference=[
        "_transport", "_buffer", "_discarding_until_next_flag", "_tx_seq", "_rx_seq", "_t_rx_ack",
        "_ncp_reset_code", "_ncp_state",
    ],
)


# --- helpers over the effects list (interpreted by PyVC in both modes) -------------------------
def ups(fx):
    """payloads handed to the EZSP layer"""
    return [r[2][0] for r in fx if r[0] == "gateway.data_received"]


def resets_up(fx):
    """reset codes reported upward"""
    return [r[2][0] for r in fx if r[0] == "gateway.reset_received"]


def upward(fx):
    return [r for r in fx if r[0] == "gateway.data_received" or r[0] == "gateway.reset_received"]


def frames_written(fx):
    """frames handed to _write_frame (abstract call records, see DESIGN 2.7)"""
    return [r[2][0] for r in fx if r[0] == "ash.write_frame"]


def transport_writes(fx):
    return [r[2][0] for r in fx if r[0] == "transport.write"]


def calls(fx, name):
    return [r for r in fx if r[0] == name]


def transport_open(self):
    return self._transport is not None and not self._transport.is_closing()


def set_exceptions(fx):
    return [r for r in fx if r[0] == "ash.cancel_pending"]


# ---------------------------------------------------------------------------
# _write_frame (C03 wire image, C10 closed-transport gate)
# ---------------------------------------------------------------------------
@contract("bellows.ash.AshProtocol._write_frame", props=["C04", "C10", "C05", "C02"])
def _(c):
    c.self(ASH)
    c.effect_name = "ash.write_frame"
    c.cases(
        ("ack", {"frame": AckFrameT}),
        ("nak", {"frame": NakFrameT}),
        ("rst", {"frame": RstFrameT}),
    )
    # C10: "new commands ... write nothing to the port": with the transport missing or closing the
    # function raises before any write
    c.raises("closed", ash.NcpFailure, when=lambda self: self._transport is None or self._transport.is_closing())
    c.ensures("post.raise_writes_nothing", lambda fx: transport_writes(fx) == [], on="raise")
    c.ensures("post.one_write", lambda fx: len(transport_writes(fx)) == 1)
    c.modifies()


# ---------------------------------------------------------------------------
# C04 receiver side
# ---------------------------------------------------------------------------
@contract("bellows.ash.AshProtocol._change_ack_timeout", props=["C04", "C05", "C02"])
def _(c):
    c.self(ASH)
    c.arg("new_value", T.real)
    c.ensures(
        "post.clamped",
        lambda self, new_value: self._t_rx_ack == max(ash.T_RX_ACK_MIN, min(new_value, ash.T_RX_ACK_MAX)),
    )
    c.modifies("self._t_rx_ack")


def _arbitrary_pending_key(I, b):
    """Ghost parameter k0: an arbitrary frame number, materialised in the futures map so that the
    per-key postconditions below quantify over every key."""
    from pyvc import smap

    k0 = T.u3.fresh(I, "k0")
    b["k0"] = k0
    smap.find_slot(I, b["self"].fields["_pending_data_frames"], k0.t)


def covered_by_ack(k, ack_num):
    """ackNum is the number of the next frame the receiver expects: it acknowledges the TX_K frames
    before it (UG101)."""
    return any(k == (ack_num - j) % 8 for j in range(1, ash.TX_K + 1))


@contract("bellows.ash.AshProtocol._handle_ack", props=["C01", "C05", "C02"])
def _(c):
    c.self(ASH)
    c.effect_name = "ash.handle_ack"
    c.cases(("data", {"frame": DataFrameT}), ("ack", {"frame": AckFrameT}), ("nak", {"frame": NakFrameT}))
    c.setup = _arbitrary_pending_key
    # C01/S1: a send is completed only by a received frame whose ackNum covers its frame number
    c.ensures(
        "post.completes_only_covered",
        lambda self, frame, k0: implies(
            k0 in self._pending_data_frames
            and fut_state(self._pending_data_frames[k0]) != old(fut_state(self._pending_data_frames[k0])),
            covered_by_ack(k0, frame.ack_num)
            and old(fut_state(self._pending_data_frames[k0])) == 0
            and fut_state(self._pending_data_frames[k0]) == 1,
        ),
    )
    c.ensures(
        "post.covered_pending_is_completed",
        lambda self, frame, k0: implies(
            k0 in self._pending_data_frames
            and covered_by_ack(k0, frame.ack_num)
            and old(fut_state(self._pending_data_frames[k0])) == 0,
            fut_state(self._pending_data_frames[k0]) == 1,
        ),
    )
    c.ensures("post.keys_unchanged", lambda self: unchanged_except(self._pending_data_frames, old(self._pending_data_frames), []))
    c.modifies("self._pending_data_frames.*")


@contract("bellows.ash.AshProtocol._cancel_pending_data_frames", props=["C01", "C05", "C10", "C02"])
def _(c):
    c.self(ASH)
    c.effect_name = "ash.cancel_pending"
    c.cases(
        ("ncp_failure", {"exc": T.record(ash.NcpFailure, frozen=False, code=T.enum(t.NcpResetCode), args=T.const(()))}),
        ("not_acked", {"exc": T.record(ash.NotAcked, frozen=False, frame=NakFrameT, args=T.const(()))}),
        ("default", {}),
    )
    c.setup = _arbitrary_pending_key
    # "waiting sends fail": every pending future gets the exception, done ones are left alone
    c.ensures(
        "post.pending_get_exception",
        lambda self, k0: implies(
            k0 in self._pending_data_frames and old(fut_state(self._pending_data_frames[k0])) == 0,
            fut_state(self._pending_data_frames[k0]) == 2,
        ),
    )
    c.ensures(
        "post.done_untouched",
        lambda self, k0: implies(
            k0 in self._pending_data_frames and old(fut_state(self._pending_data_frames[k0])) != 0,
            fut_state(self._pending_data_frames[k0]) == old(fut_state(self._pending_data_frames[k0])),
        ),
    )
    c.ensures("post.keys_unchanged", lambda self: unchanged_except(self._pending_data_frames, old(self._pending_data_frames), []))
    c.modifies("self._pending_data_frames.*")


@contract("bellows.ash.AshProtocol.data_frame_received", props=["C04", "C01", "C02"])
def _(c):
    c.self(ASH)
    c.arg("frame", DataFrameT)
    c.requires("pre.transport_open", lambda self: transport_open(self))
    # "a DATA frame's payload is handed to the EZSP layer if and only if its frame number is the next
    #  expected one"
    c.ensures(
        "post.deliver_iff_in_sequence",
        lambda self, frame, fx: (ups(fx) == [frame.ezsp_frame])
        if frame.frm_num == old(self._rx_seq)
        else (ups(fx) == []),
    )
    c.ensures("post.no_other_upward", lambda fx: len(upward(fx)) == len(ups(fx)))
    # expected number advances by one modulo 8 exactly on acceptance
    c.ensures(
        "post.rx_seq",
        lambda self, frame: self._rx_seq
        == ((old(self._rx_seq) + 1) % 8 if frame.frm_num == old(self._rx_seq) else old(self._rx_seq)),
    )
    # "every DATA frame is answered promptly with exactly one ACK or NAK carrying the next expected
    #  number (an ACK when the frame was accepted)"; promptly: the function has no await.
    c.ensures(
        "post.one_ack_or_nak",
        lambda self, frame, fx: len(frames_written(fx)) == 1
        and (
            frames_written(fx)[0] == ash.AckFrame(res=0, ncp_ready=0, ack_num=self._rx_seq)
            or (
                frames_written(fx)[0] == ash.NakFrame(res=0, ncp_ready=0, ack_num=self._rx_seq)
                and frame.frm_num != old(self._rx_seq)
            )
        ),
    )
    c.ensures(
        "post.write_before_deliver",
        lambda fx: [r[0] for r in fx if r[0] in ("ash.write_frame", "gateway.data_received")][:1]
        == ["ash.write_frame"],
    )
    c.modifies("self._rx_seq")


@contract("bellows.ash.AshProtocol.rstack_frame_received", props=["C04", "C05", "C11", "C02", "C09"])
def _(c):
    c.self(ASH)
    c.arg("frame", RStackFrameT)
    # "An RSTACK restarts numbering at zero and reports its reset code upward"
    c.ensures("post.numbering_restarts", lambda self: self._rx_seq == 0 and self._tx_seq == 0)
    c.ensures("post.reports_code", lambda frame, fx: resets_up(fx) == [frame.reset_code] and ups(fx) == [])
    c.ensures("post.connected", lambda self: self._ncp_state == ash.NcpState.CONNECTED)
    c.ensures("post.no_write", lambda fx: frames_written(fx) == [] and transport_writes(fx) == [])
    c.modifies("self._rx_seq", "self._tx_seq", "self._ncp_state", "self._ncp_reset_code", "self._t_rx_ack")


@contract("bellows.ash.AshProtocol._enter_failed_state", props=["C04", "C05", "C10", "C02"])
def _(c):
    c.self(ASH)
    c.effect_name = "ash.enter_failed_state"
    c.arg("reset_code", T.enum(t.NcpResetCode))
    c.ensures("post.failed", lambda self: self._ncp_state == ash.NcpState.FAILED)
    c.ensures("post.reports_once", lambda reset_code, fx: resets_up(fx) == [reset_code] and ups(fx) == [])
    c.ensures(
        "post.waiting_sends_fail",
        lambda fx: len(set_exceptions(fx)) == 1 and type(set_exceptions(fx)[0][2][0]) is ash.NcpFailure,
    )
    c.modifies("self._ncp_state", "self._pending_data_frames.*")


@contract("bellows.ash.AshProtocol.error_frame_received", props=["C04", "C05", "C10", "C02"])
def _(c):
    c.self(ASH)
    c.arg("frame", ErrorFrameT)
    # "an ERROR reports its code upward": through _enter_failed_state(code), exactly once
    c.ensures(
        "post.reports_code",
        lambda frame, fx: [r[2][0] for r in calls(fx, "ash.enter_failed_state")] == [frame.reset_code]
        and upward(fx) == [],
    )
    c.ensures("post.failed", lambda self: self._ncp_state == ash.NcpState.FAILED)
    c.ensures("post.code_kept", lambda self, frame: self._ncp_reset_code == frame.reset_code)
    c.modifies("self._ncp_state", "self._ncp_reset_code", "self._pending_data_frames.*")


@contract("bellows.ash.AshProtocol.ack_frame_received", props=["C04", "C02"])
def _(c):
    c.self(ASH)
    c.arg("frame", AckFrameT)
    c.ensures("post.no_effect", lambda fx: fx == [])
    c.modifies()


@contract("bellows.ash.AshProtocol.nak_frame_received", props=["C04", "C01", "C02"])
def _(c):
    c.self(ASH)
    c.arg("frame", NakFrameT)
    c.ensures("post.no_upward", lambda fx: upward(fx) == [] and frames_written(fx) == [])
    c.ensures(
        "post.pending_sends_notacked",
        lambda frame, fx: len(set_exceptions(fx)) == 1
        and type(set_exceptions(fx)[0][2][0]) is ash.NotAcked
        and set_exceptions(fx)[0][2][0].frame == frame,
    )
    c.modifies("self._pending_data_frames.*")


@contract("bellows.ash.AshProtocol.rst_frame_received", props=["C04", "C02"])
def _(c):
    c.self(ASH)
    c.arg("frame", RstFrameT)
    c.ensures("post.no_effect", lambda fx: fx == [])
    c.modifies("self._ncp_state", "self._ncp_reset_code")


@contract("bellows.ash.AshProtocol.frame_received", props=["C04", "C01", "C02"])
def _(c):
    c.self(ASH)
    c.cases(
        ("data", {"frame": DataFrameT}),
        ("ack", {"frame": AckFrameT}),
        ("nak", {"frame": NakFrameT}),
        ("rst", {"frame": RstFrameT}),
        ("rstack", {"frame": RStackFrameT}),
        ("error", {"frame": ErrorFrameT}),
    )
    c.requires("pre.transport_open", lambda self: transport_open(self))
    # dispatch: each frame kind reaches exactly its handler, once; ackNum of DATA/ACK/NAK is processed
    # first ("it should be used even if the frame is out of sequence")
    c.ensures(
        "post.dispatch",
        lambda frame, fx: [(r[0], r[2]) for r in fx if r[0] not in ("call", "observe", "ret")]
        == (
            [("ash.handle_ack", (frame,)), ("bellows.ash.AshProtocol.data_frame_received", (frame,))]
            if type(frame) is ash.DataFrame
            else [("ash.handle_ack", (frame,)), ("bellows.ash.AshProtocol.ack_frame_received", (frame,))]
            if type(frame) is ash.AckFrame
            else [("ash.handle_ack", (frame,)), ("bellows.ash.AshProtocol.nak_frame_received", (frame,))]
            if type(frame) is ash.NakFrame
            else [("bellows.ash.AshProtocol.rst_frame_received", (frame,))]
            if type(frame) is ash.RstFrame
            else [("bellows.ash.AshProtocol.rstack_frame_received", (frame,))]
            if type(frame) is ash.RStackFrame
            else [("bellows.ash.AshProtocol.error_frame_received", (frame,))]
        ),
    )
    # "ACK, NAK and RST frames cause no upward delivery": their handlers' contracts say so; here: no
    # direct upward call is made by the dispatcher itself
    c.ensures("post.no_direct_upward", lambda fx: upward(fx) == [] and transport_writes(fx) == [])


# ---------------------------------------------------------------------------
# C05 / C01 sender side: _send_data_frame (coroutine, await rule) and send_data
# ---------------------------------------------------------------------------
SendFrameT = T.record(ash.DataFrame, frm_num=T.none, re_tx=T.none, ack_num=T.none, ezsp_frame=T.bytes)


def data_writes(fx):
    """DATA frames handed to _write_frame by this call, in order"""
    return [r[2][0] for r in fx if r[0] == "ash.write_frame" and type(r[2][0]) is ash.DataFrame]


def observations(fx, where):
    return [r[2] for r in fx if r[0] == "observe" and r[1] == where]


def writes_with_state(fx):
    """(frame, state observed just before the call) for every _write_frame call"""
    out = []
    last = None
    for r in fx:
        if r[0] == "observe" and r[1] == "call:ash.write_frame":
            last = r[2]
        elif r[0] == "ash.write_frame":
            out.append((r[2][0], last))
    return out


def write_attempts(fx):
    """frames passed to _write_frame, including calls that raised because the transport is closed"""
    return [r[3][0] for r in fx if r[0] == "observe" and r[1] == "call:ash.write_frame"]


def awaits_of(fx):
    return [r for r in fx if r[0] == "await"]


def pos(fx, r):
    """position of the record r itself (identity, not equality) in the effects list"""
    return [i for i, q in enumerate(fx) if q is r][0]


def armed(fx):
    return [r for r in fx if r[0] == "timeout.armed"]


def waits_after_slot(fx):
    """suspensions of the send after the first one (the wait for the transmit slot)"""
    return [r for r in fx if r[0] == "await"][1:]


@contract("bellows.ash.AshProtocol._send_data_frame", props=["C05", "C01", "C10", "C11"])
def _(c):
    c.self(ASH)
    c.arg("frame", SendFrameT)
    # "frame numbers are consecutive" (C05) / "after a completed handshake both directions restart at frame number
    # zero" (C11): the only thing a send ever does to the transmit counter is to advance the value it finds at that
    # moment by one -- it never writes back a number computed before a suspension (an RSTACK handled meanwhile has
    # reset the counter, and must not be undone)
    c.on_write("_tx_seq", "advances_the_current_number_by_one", lambda old_value, new_value: new_value == (old_value + 1) % 8)
    c.observe(lambda self: {"ncp_state": self._ncp_state, "tx_seq": self._tx_seq, "rx_seq": self._rx_seq,
                            "t_rx_ack": self._t_rx_ack})
    # exceptions a send may end with ("it then returns after an acknowledgement covering its frame or
    # raises"): link failure, NAK on the last attempt, timeout on the last attempt, connection closed,
    # cancellation of the task
    c.raises("ncp_failure", ash.NcpFailure)
    c.raises("not_acked", ash.NotAcked)
    c.raises("timeout", TimeoutError)
    c.raises("closed", RuntimeError)
    c.raises("cancelled", asyncio.CancelledError)
    c.raises("payload_too_long", AssertionError)  # more than 256 bytes cannot be randomised (to_bytes asserts)
    # "transmits its DATA frame at most the configured number of attempts"
    c.ensures("post.attempt_budget", lambda fx: len(data_writes(fx)) <= ash.ACK_TIMEOUTS, on="any")
    c.ensures(
        "post.only_data_frames_written",
        lambda fx: len(data_writes(fx)) == len(frames_written(fx)) and transport_writes(fx) == [],
        on="any",
    )
    # "always with the same frame number and payload and with the retransmit flag set on every repeat"
    c.ensures(
        "post.same_number_and_payload",
        lambda frame, fx: all(
            w.frm_num == data_writes(fx)[0].frm_num and w.ezsp_frame == frame.ezsp_frame for w in data_writes(fx)
        ),
        on="any",
    )
    c.ensures(
        "post.retransmit_flag",
        lambda fx: all((w.re_tx == (i > 0)) for i, w in enumerate(data_writes(fx))),
        on="any",
    )
    c.ensures("post.frame_number_3bit", lambda fx: all(0 <= w.frm_num < 8 for w in data_writes(fx)), on="any")
    # "frame numbers are consecutive": the number is the transmit counter at allocation, and the counter
    # advances by exactly one (mod 8) in the same atomic segment as the first write
    c.ensures(
        "post.number_allocated_from_counter",
        lambda fx: implies(
            len(data_writes(fx)) > 0,
            writes_with_state(fx)[0][1]["tx_seq"] == (data_writes(fx)[0].frm_num + 1) % 8
            and observations(fx, "resume")[0]["tx_seq"] == data_writes(fx)[0].frm_num,
        ),
        on="any",
    )
    # ackNum piggybacked on every (re)transmission is the receiver's current expected number
    c.ensures(
        "post.fresh_ack_num",
        lambda fx: all(w.ack_num == s["rx_seq"] for w, s in writes_with_state(fx)),
        on="any",
    )
    # "no DATA frame is written until an RSTACK has been received": every write happens in a segment in
    # which the link state was checked not to be FAILED (only rstack/rst handlers leave FAILED)
    c.ensures(
        "post.no_write_in_failed_state",
        lambda fx: all(s["ncp_state"] != ash.NcpState.FAILED for w, s in writes_with_state(fx)),
        on="any",
    )
    # "a repeat happening either at once on a NAK or after an acknowledgement timeout that always lies
    # within the protocol's minimum and maximum"
    c.ensures(
        "post.timeout_within_bounds",
        lambda fx: all(ash.T_RX_ACK_MIN <= r[2][0] <= ash.T_RX_ACK_MAX for r in fx if r[0] == "timeout.armed"),
        on="any",
    )
    c.ensures(
        "post.one_timed_wait_per_write",
        lambda fx: len([r for r in fx if r[0] == "timeout.armed"]) <= len(data_writes(fx)),
        on="any",
    )
    c.ensures(
        "post.no_sleep",
        lambda fx: [r for r in fx if r[0] == "asyncio.sleep"] == [],
        on="any",
    )
    # "ends within the retry budget": once the transmit slot is held, every suspension of the send is a wait under its
    # own acknowledgement timeout (no untimed wait, no sleep), and the timeouts add up to at most ACK_TIMEOUTS * T_MAX.
    # With asyncio's contract for timeout (a wait under timeout(t) lasts at most t) this bounds the time from acquiring
    # the slot to the end of the send -- the ghost-time bound of DESIGN 2.6, stated over the recorded waits
    c.ensures(
        "post.every_wait_while_holding_the_slot_is_timed",
        lambda fx: len(waits_after_slot(fx)) == len(armed(fx))
        and all(pos(fx, armed(fx)[i]) < pos(fx, waits_after_slot(fx)[i]) for i in range(len(armed(fx))))
        and all(pos(fx, waits_after_slot(fx)[i - 1]) < pos(fx, armed(fx)[i]) for i in range(1, len(armed(fx)))),
        on="any",
    )
    c.ensures(
        "post.total_wait_within_the_retry_budget",
        lambda fx: sum([r[2][0] for r in armed(fx)]) <= ash.ACK_TIMEOUTS * ash.T_RX_ACK_MAX,
        on="any",
    )
    # "it then returns after an acknowledgement covering its frame": a normal return happens only when
    # the last thing awaited was the acknowledgement future of this frame completing with a result
    # (by ACK_PROMISE only _handle_ack with a covering ackNum does that)
    c.ensures(
        "post.returns_only_after_ack",
        lambda fx: len(awaits_of(fx)) >= 2
        and awaits_of(fx)[-1][1] == "future"
        and awaits_of(fx)[-1][2] == "result"
        and len(data_writes(fx)) >= 1,
    )
    # "When the budget is exhausted ... the upper layer is told once with the reason, waiting sends fail"
    c.ensures(
        "post.budget_exhausted_reported_once",
        lambda fx: implies(
            len(data_writes(fx)) == ash.ACK_TIMEOUTS
            and awaits_of(fx)[-1][2] in ("timeout", "exception:NotAcked"),
            [r[2][0] for r in calls(fx, "ash.enter_failed_state")]
            == [t.NcpResetCode.ERROR_EXCEEDED_MAXIMUM_ACK_TIMEOUT_COUNT],
        ),
        on="raise",
    )
    c.ensures(
        "post.failed_state_only_on_exhaustion",
        lambda fx: implies(
            len(calls(fx, "ash.enter_failed_state")) > 0,
            len(calls(fx, "ash.enter_failed_state")) == 1 and len(data_writes(fx)) == ash.ACK_TIMEOUTS,
        ),
        on="any",
    )
    # bookkeeping: the acknowledgement future of this send does not stay registered
    c.ensures(
        "post.semaphore_released",
        lambda fx: len(calls(fx, "semaphore.__aexit__")) == len([r for r in awaits_of(fx) if r[1] == "semaphore.__aenter__" and r[2] == "return"]),
        on="any",
    )
    c.modifies("self._pending_data_frames")
    c.ensures(
        "post.no_bookkeeping_left",
        lambda self, fx: unchanged_except(
            self._pending_data_frames, old(self._pending_data_frames), [f.frm_num for f in write_attempts(fx)[:1]]
        )
        and all(f.frm_num not in self._pending_data_frames for f in write_attempts(fx)[:1]),
        on="any",
    )


def sends_started(fx):
    """frames handed to _send_data_frame: awaited to completion, or left running behind the shield when
    the caller was cancelled"""
    return [r[2][0] for r in fx if r[0] == "call" and r[1] == "bellows.ash.AshProtocol._send_data_frame"] + [
        r[2][0] for r in fx if r[0] == "shield.outer_cancel" and r[1] == "bellows.ash.AshProtocol._send_data_frame"
    ]


@contract("bellows.ash.AshProtocol.send_data", props=["C01"])
def _(c):
    c.self(ASH)
    c.arg("data", T.bytes)
    c.raises("ncp_failure", ash.NcpFailure)
    c.raises("not_acked", ash.NotAcked)
    c.raises("timeout", TimeoutError)
    c.raises("closed", RuntimeError)
    c.raises("cancelled", asyncio.CancelledError)
    c.raises("payload_too_long", AssertionError)
    # the payload submitted is the payload of the one DATA frame whose transmission is started
    c.ensures(
        "post.one_send_with_the_payload",
        lambda data, fx: len(sends_started(fx)) == 1
        and type(sends_started(fx)[0]) is ash.DataFrame
        and sends_started(fx)[0].ezsp_frame == data,
        on="any",
    )
    # "cancelling the caller of a send never loses, duplicates or reorders any other payload": the
    # transmission itself is never the thing that gets cancelled (it runs behind asyncio.shield), so
    # _send_data_frame's retransmission / numbering contract holds for every started send
    c.ensures(
        "post.transmission_not_cancelled_with_caller",
        lambda fx: [r for r in awaits_of(fx) if r[1] == "bellows.ash.AshProtocol._send_data_frame" and r[2] == "cancelled"] == [],
        on="any",
    )
    c.ensures("post.no_direct_write", lambda fx: frames_written(fx) == [] and transport_writes(fx) == [], on="any")


# ---------------------------------------------------------------------------
# guarantee side of the await rule for AshProtocol (C01, C05)
# ---------------------------------------------------------------------------
from contracts import index as _index


def _ash_guarantee(tier):
    from pyvc.asyncrule import guarantee_obligations
    from pyvc.contracts import REGISTRY

    # _send_data_frame is the holder of the send semaphore (TX_K permits): it alone stores / pops keys
    return guarantee_obligations(ASH, REGISTRY, owners=("_send_data_frame",))


def _tx_k_is_one(tier):
    """'at most one unacknowledged DATA frame is outstanding at any time': the semaphore built in
    __init__ has TX_K permits and TX_K is 1 on this tree."""
    import ast as _ast

    from pyvc import source

    node, _m, _h = source.find_function("bellows.ash.AshProtocol.__init__")
    sem = [
        _ast.unparse(s.value)
        for s in _ast.walk(node)
        if isinstance(s, _ast.Assign) and any(_ast.unparse(t_) == "self._send_data_frame_semaphore" for t_ in s.targets)
    ]
    ok = sem == ["asyncio.Semaphore(TX_K)"] and ash.TX_K == 1
    return [{
        "name": "bellows.ash.AshProtocol.__init__::table.one_outstanding_frame",
        "verdict": "proved" if ok else "refuted", "backend": "live-constant", "t": 0.0,
        "detail": f"semaphore construction {sem}, TX_K={ash.TX_K}", "witness": None if ok else {"TX_K": ash.TX_K, "sem": sem},
    }]


for _p in ("C01", "C05"):
    _index.extra(_p)(_ash_guarantee)
    _index.extra(_p)(_tx_k_is_one)


@contract("bellows.ash.AshProtocol.send_reset", props=["C11", "C03", "C09"])
def _(c):
    c.self(ASH)
    c.effect_name = "ash.send_reset"
    c.raises("closed", ash.NcpFailure, when=lambda self: self._transport is None or self._transport.is_closing())
    # "A reset request writes a CANCEL-prefixed RST frame"
    c.ensures(
        "post.cancel_prefixed_rst",
        lambda fx: [(r[2][0], r[3]) for r in fx if r[0] == "ash.write_frame"]
        == [(ash.RstFrame(), {"prefix": (ash.Reserved.CANCEL,)})],
    )
    c.modifies()


# ---------------------------------------------------------------------------
# link lifecycle (C10: "the serial connection is lost or reaches end-of-file ... every command call that was in
# progress returns or raises"; "a deliberate close produces no such request")
# ---------------------------------------------------------------------------
def gw_calls(fx, name):
    return [r[2] for r in fx if r[0] == "gateway." + name]


@contract("bellows.ash.AshProtocol.connection_lost", props=["C10"])
def _(c):
    c.self(ASH)
    c.cases(("error", {"exc": T.record(OSError, frozen=False, args=T.const(("boom",)))}), ("deliberate_close", {"exc": T.none}))
    # the loss is handed to the layer above exactly once, with the very reason the serial layer gave (None for a
    # deliberate close: uart.Gateway.connection_lost tells the two apart by it)
    c.ensures("post.reported_upward_once_with_the_reason", lambda exc, fx: gw_calls(fx, "connection_lost") == [(exc,)])
    c.ensures("post.nothing_else_upward", lambda fx: upward(fx) == [] and gw_calls(fx, "eof_received") == [])
    # "every command call that was in progress returns or raises": sends waiting for an acknowledgement are failed
    # (before the layer above is told), so nothing waits for a frame that cannot arrive any more
    # (through _cancel_pending_data_frames, whose own contract says: every pending future gets the exception)
    c.ensures("post.waiting_sends_fail", lambda fx: len(set_exceptions(fx)) == 1)
    c.ensures(
        "post.sends_failed_before_reporting",
        lambda fx: [r[0] for r in fx if r[0] in ("ash.cancel_pending", "gateway.connection_lost")]
        == ["ash.cancel_pending", "gateway.connection_lost"],
    )
    # "write nothing to the port": the transport is forgotten, so _write_frame's gate refuses every later write
    c.ensures("post.transport_forgotten", lambda self: self._transport is None)
    c.ensures("post.no_write", lambda fx: frames_written(fx) == [] and transport_writes(fx) == [])
    c.modifies("self._transport", "self._pending_data_frames.*")


@contract("bellows.ash.AshProtocol.eof_received", props=["C10"])
def _(c):
    c.self(ASH)
    c.ensures("post.reported_upward_once", lambda fx: gw_calls(fx, "eof_received") == [()] and len(fx) == 1)
    c.modifies()


@contract("bellows.ash.AshProtocol.close", props=["C10"])
def _(c):
    c.self(ASH)
    # "A deliberate close produces no such request": closing the link tells the layer above nothing
    c.ensures(
        "post.nothing_reported_upward",
        lambda fx: upward(fx) == [] and gw_calls(fx, "connection_lost") == [] and gw_calls(fx, "eof_received") == [],
    )
    c.ensures("post.waiting_sends_fail", lambda fx: len(set_exceptions(fx)) == 1)
    # the port is closed (once) iff there was one, and forgotten: later writes are refused by _write_frame's gate
    c.ensures(
        "post.port_closed_and_forgotten",
        lambda self, fx: self._transport is None
        and len([r for r in fx if r[0] == "transport.close"]) == (1 if old(self._transport) is not None else 0),
    )
    c.ensures("post.no_write", lambda fx: frames_written(fx) == [] and transport_writes(fx) == [])
    c.modifies("self._transport", "self._pending_data_frames.*")


@contract("bellows.ash.AshProtocol.connection_made", props=["C10"])
def _(c):
    c.self(ASH)
    c.arg("transport", T.ext(TRANSPORT))
    c.ensures("post.transport_kept", lambda self, transport: self._transport is transport)
    c.ensures("post.reported_upward_once", lambda self, fx: gw_calls(fx, "connection_made") == [(self,)] and len(fx) == 1)
    c.modifies("self._transport")


# the state a new link starts in: the class invariants hold, numbering starts at zero in both directions, the link is
# CONNECTED with nothing pending, nothing buffered (C04 / C05: every history starts here)
def new_link(upper):
    return ash.AshProtocol(upper)


@contract("contracts.ash.new_link", props=["C04", "C05", "C10"])
def _(c):
    c.arg("upper", T.ext(GATEWAY))
    c.ensures(
        "post.initial_state",
        lambda result, upper: result._ezsp_protocol is upper
        and result._transport is None
        and result._tx_seq == 0
        and result._rx_seq == 0
        and ash.T_RX_ACK_MIN <= result._t_rx_ack <= ash.T_RX_ACK_MAX
        and result._ncp_state == ash.NcpState.CONNECTED
        and len(result._pending_data_frames) == 0
        and len(result._buffer) == 0
        and result._discarding_until_next_flag is False,
    )
    c.ensures("post.no_effect", lambda fx: upward(fx) == [] and transport_writes(fx) == [])
