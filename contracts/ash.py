"""Contracts on bellows/ash.py (C01-C05, C10, C11).

Top-level postconditions are taken from the property statements; frames, helper preconditions
and shapes from the code and its call sites.
"""
import bellows.ash as ash
import bellows.types as t

from pyvc.contracts import ClassSpec, T, contract
from pyvc.ext import effect, ext_class, field

# ---------------------------------------------------------------------------
# external collaborators (assumed contracts)
# ---------------------------------------------------------------------------
TRANSPORT = ext_class(
    "transport",
    fields={"closing": T.bool},
    write=effect(),
    is_closing=field("closing"),
    close=effect(sets={"closing": True}),
)
GATEWAY = ext_class(
    "gateway",
    data_received=effect(),
    reset_received=effect(),
    connection_made=effect(),
    connection_lost=effect(),
    eof_received=effect(),
)
SEMAPHORE = ext_class("semaphore")

# ---------------------------------------------------------------------------
# frame shapes as produced by parse_frame (well-formed frames)
# ---------------------------------------------------------------------------
DataFrameT = T.record(ash.DataFrame, frm_num=T.u3, re_tx=T.range(0, 1), ack_num=T.u3, ezsp_frame=T.bytes)
AckFrameT = T.record(ash.AckFrame, res=T.range(0, 1), ncp_ready=T.range(0, 1), ack_num=T.u3)
NakFrameT = T.record(ash.NakFrame, res=T.range(0, 1), ncp_ready=T.range(0, 1), ack_num=T.u3)
RstFrameT = T.record(ash.RstFrame)
RStackFrameT = T.record(ash.RStackFrame, version=T.const(2), reset_code=T.enum(t.NcpResetCode))
ErrorFrameT = T.record(ash.ErrorFrame, version=T.const(2), reset_code=T.enum(t.NcpResetCode))

ASH = ClassSpec(
    "bellows.ash.AshProtocol",
    fields=dict(
        _ezsp_protocol=T.ext(GATEWAY),
        _transport=T.opt(T.ext(TRANSPORT)),
        _buffer=T.bytearray,
        _discarding_until_next_flag=T.bool,
        _pending_data_frames=T.map(T.future(), keys=(0, 7)),
        _send_data_frame_semaphore=T.ext(SEMAPHORE),
        _tx_seq=T.int,
        _rx_seq=T.int,
        _t_rx_ack=T.real,
        _ncp_reset_code=T.opt(T.enum(t.NcpResetCode)),
        _ncp_state=T.enum(ash.NcpState),
    ),
    invariants=[
        ("rx_seq_3bit", lambda self: 0 <= self._rx_seq < 8),
        ("tx_seq_3bit", lambda self: 0 <= self._tx_seq < 8),
        ("ack_timeout_clamped", lambda self: ash.T_RX_ACK_MIN <= self._t_rx_ack <= ash.T_RX_ACK_MAX),
    ],
)


# --- helpers over the effects list (interpreted by PyVC in both modes) -------------------------
def ups(fx):
    """payloads handed to the EZSP layer"""
    return [r[2][0] for r in fx if r[0] == "gateway.data_received"]


def resets_up(fx):
    """reset codes reported upward"""
    return [r[2][0] for r in fx if r[0] == "gateway.reset_received"]


def upward(fx):
    return [r for r in fx if r[0] == "gateway.data_received" or r[0] == "gateway.reset_received"]


def frames_written(fx):
    """frames handed to _write_frame (abstract call records, see DESIGN 2.7)"""
    return [r[2][0] for r in fx if r[0] == "ash.write_frame"]


def transport_writes(fx):
    return [r[2][0] for r in fx if r[0] == "transport.write"]


def calls(fx, name):
    return [r for r in fx if r[0] == name]


def transport_open(self):
    return self._transport is not None and not self._transport.is_closing()


def set_exceptions(fx):
    return [r for r in fx if r[0] == "ash.cancel_pending"]


# ---------------------------------------------------------------------------
# _write_frame (C03 wire image, C10 closed-transport gate)
# ---------------------------------------------------------------------------
@contract("bellows.ash.AshProtocol._write_frame", props=["C04", "C10", "C05"])
def _(c):
    c.self(ASH)
    c.effect_name = "ash.write_frame"
    c.cases(
        ("ack", {"frame": AckFrameT}),
        ("nak", {"frame": NakFrameT}),
        ("rst", {"frame": RstFrameT}),
    )
    # C10: "new commands ... write nothing to the port": with the transport missing or closing the
    # function raises before any write
    c.raises("closed", ash.NcpFailure, when=lambda self: self._transport is None or self._transport.is_closing())
    c.ensures("post.raise_writes_nothing", lambda fx: transport_writes(fx) == [], on="raise")
    c.ensures("post.one_write", lambda fx: len(transport_writes(fx)) == 1)
    c.modifies()


# ---------------------------------------------------------------------------
# C04 receiver side
# ---------------------------------------------------------------------------
@contract("bellows.ash.AshProtocol._change_ack_timeout", props=["C04", "C05"])
def _(c):
    c.self(ASH)
    c.arg("new_value", T.real)
    c.ensures(
        "post.clamped",
        lambda self, new_value: self._t_rx_ack == max(ash.T_RX_ACK_MIN, min(new_value, ash.T_RX_ACK_MAX)),
    )
    c.modifies("self._t_rx_ack")


def _arbitrary_pending_key(I, b):
    """Ghost parameter k0: an arbitrary frame number, materialised in the futures map so that the
    per-key postconditions below quantify over every key."""
    from pyvc import smap

    k0 = T.u3.fresh(I, "k0")
    b["k0"] = k0
    smap.find_slot(I, b["self"].fields["_pending_data_frames"], k0.t)


def covered_by_ack(k, ack_num):
    """ackNum is the number of the next frame the receiver expects: it acknowledges the TX_K frames
    before it (UG101)."""
    return any(k == (ack_num - j) % 8 for j in range(1, ash.TX_K + 1))


@contract("bellows.ash.AshProtocol._handle_ack", props=["C01", "C05"])
def _(c):
    c.self(ASH)
    c.effect_name = "ash.handle_ack"
    c.cases(("data", {"frame": DataFrameT}), ("ack", {"frame": AckFrameT}), ("nak", {"frame": NakFrameT}))
    c.setup = _arbitrary_pending_key
    # C01/S1: a send is completed only by a received frame whose ackNum covers its frame number
    c.ensures(
        "post.completes_only_covered",
        lambda self, frame, k0: implies(
            k0 in self._pending_data_frames
            and fut_state(self._pending_data_frames[k0]) != old(fut_state(self._pending_data_frames[k0])),
            covered_by_ack(k0, frame.ack_num)
            and old(fut_state(self._pending_data_frames[k0])) == 0
            and fut_state(self._pending_data_frames[k0]) == 1,
        ),
    )
    c.ensures(
        "post.covered_pending_is_completed",
        lambda self, frame, k0: implies(
            k0 in self._pending_data_frames
            and covered_by_ack(k0, frame.ack_num)
            and old(fut_state(self._pending_data_frames[k0])) == 0,
            fut_state(self._pending_data_frames[k0]) == 1,
        ),
    )
    c.ensures("post.keys_unchanged", lambda self: unchanged_except(self._pending_data_frames, old(self._pending_data_frames), []))
    c.modifies("self._pending_data_frames.*")


@contract("bellows.ash.AshProtocol._cancel_pending_data_frames", props=["C01", "C05", "C10"])
def _(c):
    c.self(ASH)
    c.effect_name = "ash.cancel_pending"
    c.cases(
        ("ncp_failure", {"exc": T.record(ash.NcpFailure, frozen=False, code=T.enum(t.NcpResetCode), args=T.const(()))}),
        ("not_acked", {"exc": T.record(ash.NotAcked, frozen=False, frame=NakFrameT, args=T.const(()))}),
        ("default", {}),
    )
    c.setup = _arbitrary_pending_key
    # "waiting sends fail": every pending future gets the exception, done ones are left alone
    c.ensures(
        "post.pending_get_exception",
        lambda self, k0: implies(
            k0 in self._pending_data_frames and old(fut_state(self._pending_data_frames[k0])) == 0,
            fut_state(self._pending_data_frames[k0]) == 2,
        ),
    )
    c.ensures(
        "post.done_untouched",
        lambda self, k0: implies(
            k0 in self._pending_data_frames and old(fut_state(self._pending_data_frames[k0])) != 0,
            fut_state(self._pending_data_frames[k0]) == old(fut_state(self._pending_data_frames[k0])),
        ),
    )
    c.ensures("post.keys_unchanged", lambda self: unchanged_except(self._pending_data_frames, old(self._pending_data_frames), []))
    c.modifies("self._pending_data_frames.*")


@contract("bellows.ash.AshProtocol.data_frame_received", props=["C04", "C01"])
def _(c):
    c.self(ASH)
    c.arg("frame", DataFrameT)
    c.requires("pre.transport_open", lambda self: transport_open(self))
    # "a DATA frame's payload is handed to the EZSP layer if and only if its frame number is the next
    #  expected one"
    c.ensures(
        "post.deliver_iff_in_sequence",
        lambda self, frame, fx: (ups(fx) == [frame.ezsp_frame])
        if frame.frm_num == old(self._rx_seq)
        else (ups(fx) == []),
    )
    c.ensures("post.no_other_upward", lambda fx: len(upward(fx)) == len(ups(fx)))
    # expected number advances by one modulo 8 exactly on acceptance
    c.ensures(
        "post.rx_seq",
        lambda self, frame: self._rx_seq
        == ((old(self._rx_seq) + 1) % 8 if frame.frm_num == old(self._rx_seq) else old(self._rx_seq)),
    )
    # "every DATA frame is answered promptly with exactly one ACK or NAK carrying the next expected
    #  number (an ACK when the frame was accepted)"; promptly: the function has no await.
    c.ensures(
        "post.one_ack_or_nak",
        lambda self, frame, fx: len(frames_written(fx)) == 1
        and (
            frames_written(fx)[0] == ash.AckFrame(res=0, ncp_ready=0, ack_num=self._rx_seq)
            or (
                frames_written(fx)[0] == ash.NakFrame(res=0, ncp_ready=0, ack_num=self._rx_seq)
                and frame.frm_num != old(self._rx_seq)
            )
        ),
    )
    c.ensures(
        "post.write_before_deliver",
        lambda fx: [r[0] for r in fx if r[0] in ("ash.write_frame", "gateway.data_received")][:1]
        == ["ash.write_frame"],
    )
    c.modifies("self._rx_seq")


@contract("bellows.ash.AshProtocol.rstack_frame_received", props=["C04", "C05", "C11"])
def _(c):
    c.self(ASH)
    c.arg("frame", RStackFrameT)
    # "An RSTACK restarts numbering at zero and reports its reset code upward"
    c.ensures("post.numbering_restarts", lambda self: self._rx_seq == 0 and self._tx_seq == 0)
    c.ensures("post.reports_code", lambda frame, fx: resets_up(fx) == [frame.reset_code] and ups(fx) == [])
    c.ensures("post.connected", lambda self: self._ncp_state == ash.NcpState.CONNECTED)
    c.ensures("post.no_write", lambda fx: frames_written(fx) == [] and transport_writes(fx) == [])
    c.modifies("self._rx_seq", "self._tx_seq", "self._ncp_state", "self._ncp_reset_code", "self._t_rx_ack")


@contract("bellows.ash.AshProtocol._enter_failed_state", props=["C04", "C05", "C10"])
def _(c):
    c.self(ASH)
    c.effect_name = "ash.enter_failed_state"
    c.arg("reset_code", T.enum(t.NcpResetCode))
    c.ensures("post.failed", lambda self: self._ncp_state == ash.NcpState.FAILED)
    c.ensures("post.reports_once", lambda reset_code, fx: resets_up(fx) == [reset_code] and ups(fx) == [])
    c.ensures(
        "post.waiting_sends_fail",
        lambda fx: len(set_exceptions(fx)) == 1 and type(set_exceptions(fx)[0][2][0]) is ash.NcpFailure,
    )
    c.modifies("self._ncp_state", "self._pending_data_frames.*")


@contract("bellows.ash.AshProtocol.error_frame_received", props=["C04", "C05", "C10"])
def _(c):
    c.self(ASH)
    c.arg("frame", ErrorFrameT)
    # "an ERROR reports its code upward": through _enter_failed_state(code), exactly once
    c.ensures(
        "post.reports_code",
        lambda frame, fx: [r[2][0] for r in calls(fx, "ash.enter_failed_state")] == [frame.reset_code]
        and upward(fx) == [],
    )
    c.ensures("post.failed", lambda self: self._ncp_state == ash.NcpState.FAILED)
    c.ensures("post.code_kept", lambda self, frame: self._ncp_reset_code == frame.reset_code)
    c.modifies("self._ncp_state", "self._ncp_reset_code", "self._pending_data_frames.*")


@contract("bellows.ash.AshProtocol.ack_frame_received", props=["C04"])
def _(c):
    c.self(ASH)
    c.arg("frame", AckFrameT)
    c.ensures("post.no_effect", lambda fx: fx == [])
    c.modifies()


@contract("bellows.ash.AshProtocol.nak_frame_received", props=["C04", "C01"])
def _(c):
    c.self(ASH)
    c.arg("frame", NakFrameT)
    c.ensures("post.no_upward", lambda fx: upward(fx) == [] and frames_written(fx) == [])
    c.ensures(
        "post.pending_sends_notacked",
        lambda frame, fx: len(set_exceptions(fx)) == 1
        and type(set_exceptions(fx)[0][2][0]) is ash.NotAcked
        and set_exceptions(fx)[0][2][0].frame == frame,
    )
    c.modifies("self._pending_data_frames.*")


@contract("bellows.ash.AshProtocol.rst_frame_received", props=["C04"])
def _(c):
    c.self(ASH)
    c.arg("frame", RstFrameT)
    c.ensures("post.no_effect", lambda fx: fx == [])
    c.modifies("self._ncp_state", "self._ncp_reset_code")


@contract("bellows.ash.AshProtocol.frame_received", props=["C04", "C01"])
def _(c):
    c.self(ASH)
    c.cases(
        ("data", {"frame": DataFrameT}),
        ("ack", {"frame": AckFrameT}),
        ("nak", {"frame": NakFrameT}),
        ("rst", {"frame": RstFrameT}),
        ("rstack", {"frame": RStackFrameT}),
        ("error", {"frame": ErrorFrameT}),
    )
    c.requires("pre.transport_open", lambda self: transport_open(self))
    # dispatch: each frame kind reaches exactly its handler, once; ackNum of DATA/ACK/NAK is processed
    # first ("it should be used even if the frame is out of sequence")
    c.ensures(
        "post.dispatch",
        lambda frame, fx: [(r[0], r[2]) for r in fx]
        == (
            [("ash.handle_ack", (frame,)), ("bellows.ash.AshProtocol.data_frame_received", (frame,))]
            if type(frame) is ash.DataFrame
            else [("ash.handle_ack", (frame,)), ("bellows.ash.AshProtocol.ack_frame_received", (frame,))]
            if type(frame) is ash.AckFrame
            else [("ash.handle_ack", (frame,)), ("bellows.ash.AshProtocol.nak_frame_received", (frame,))]
            if type(frame) is ash.NakFrame
            else [("bellows.ash.AshProtocol.rst_frame_received", (frame,))]
            if type(frame) is ash.RstFrame
            else [("bellows.ash.AshProtocol.rstack_frame_received", (frame,))]
            if type(frame) is ash.RStackFrame
            else [("bellows.ash.AshProtocol.error_frame_received", (frame,))]
        ),
    )
    # "ACK, NAK and RST frames cause no upward delivery": their handlers' contracts say so; here: no
    # direct upward call is made by the dispatcher itself
    c.ensures("post.no_direct_upward", lambda fx: upward(fx) == [] and transport_writes(fx) == [])
