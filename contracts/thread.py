"""C20: ThreadsafeProxy dispatch (bellows/thread.py).  What contracts can decide is the *dispatch* made by
func_wrapper for every method kind x caller loop x owner-loop state; which OS thread then runs a scheduled
callback is asyncio's contract, and races between is_closed() and scheduling are thread schedules (DESIGN 4)."""
import asyncio

import bellows.thread as thread

from contracts import index as _index
from pyvc.calls import ExtMethod
from pyvc.contracts import ClassSpec, T, contract, external
from pyvc.ext import effect, ext_class, field
from pyvc.values import SObj

# the wrapped object: one method of each kind
WRAPPED = ext_class(
    "wrapped",
    fields={"not_callable": T.int},
    coro_method=ExtMethod("coro_method", effect=True, is_async=True, raises=[ValueError],
                          returns=lambda I, s, a, k: T.opaque.fresh(I, "coro_result")),
    plain_method=ExtMethod("plain_method", effect=True),
    plain_returning=ExtMethod("plain_returning", effect=True, returns=lambda I, s, a, k: T.int.fresh(I, "value"),
                              native=lambda self, rec, *a, **k: (rec.add(("wrapped.plain_returning", self, tuple(a), dict(k))), 1)[1]),
)


def _call_soon_threadsafe(I, self_obj, args, kwargs):
    I.ctx.emit("loop.call_soon_threadsafe", self_obj, tuple(args), dict(kwargs))
    self_obj.fields.setdefault("scheduled", []).append((args[0], tuple(args[1:])))
    return None


def _native_call_soon_threadsafe(self, rec, *args, **kwargs):
    rec.add(("loop.call_soon_threadsafe", self, tuple(args), dict(kwargs)))
    if "scheduled" not in vars(self):
        object.__setattr__(self, "scheduled", [])
    self.scheduled.append((args[0], tuple(args[1:])))


# an event loop as asyncio defines it: closed or not, and -- independently -- currently running or not (a loop that
# is open but not spinning yet, e.g. between run_until_complete and run_forever, still accepts call_soon_threadsafe)
OWNER_LOOP = ext_class("loop", fields={"closed": T.bool, "running": T.bool}, is_closed=field("closed"), is_running=field("running"),
                       stable_fields=("closed", "running"))
OWNER_LOOP.methods["call_soon_threadsafe"] = ExtMethod("call_soon_threadsafe", fn=_call_soon_threadsafe,
                                                       native=_native_call_soon_threadsafe)


class _AsyncioShim:
    """what bellows.thread sees as `asyncio` while a counterexample is replayed on the real code: the running
    loop is the model's caller loop (no OS thread is involved in the dispatch decision), the two cross-loop
    hand-over functions record their call; everything else is the real asyncio"""

    def __init__(self, bindings, rec):
        self._b, self._rec = bindings, rec
        self.running = bindings.get("caller_loop")

    def get_running_loop(self):
        return self.running

    def run_coroutine_threadsafe(self, coro, loop):
        self._rec.add(("asyncio.run_coroutine_threadsafe", None, (coro, loop), {}))
        if hasattr(coro, "close"):
            coro.close()
        import types as _t

        return _t.SimpleNamespace(of=coro)

    def wrap_future(self, fut, loop=None):
        self._rec.add(("asyncio.wrap_future", None, (fut,), {"loop": loop}))
        import types as _t

        return _t.SimpleNamespace(of=fut, loop=loop)

    def __getattr__(self, name):
        return getattr(asyncio, name)


_SHIM = [None]


class _native_thread_context:
    def __init__(self, bindings, rec):
        self.shim = _AsyncioShim(bindings, rec)

    def __enter__(self):
        self.saved = thread.asyncio
        thread.asyncio = self.shim
        _SHIM[0] = self.shim
        return self

    def __exit__(self, *exc):
        thread.asyncio = self.saved
        _SHIM[0] = None
        return False


@external("asyncio.coroutines.iscoroutinefunction")
def _(I, args, kwargs):
    from pyvc.interp import BoundMethod
    from pyvc.values import SFunc
    import ast

    f = args[0]
    if isinstance(f, BoundMethod) and isinstance(f.func, ExtMethod):
        return f.func.is_async
    if isinstance(f, SFunc):
        return isinstance(f.node, ast.AsyncFunctionDef)
    return asyncio.iscoroutinefunction(f)


@external("asyncio.tasks.run_coroutine_threadsafe")
def _(I, args, kwargs):
    coro, loop = args
    I.ctx.emit("asyncio.run_coroutine_threadsafe", None, (coro, loop), {})
    return SObj(ext_class("concurrent_future"), {"of": coro}, tag="concurrent_future")


@external("asyncio.futures.wrap_future")
def _(I, args, kwargs):
    I.ctx.emit("asyncio.wrap_future", None, (args[0],), dict(kwargs))
    return SObj(ext_class("wrapped_future"), {"of": args[0], "loop": kwargs.get("loop")}, tag="wrapped_future")


PROXY = ClassSpec(
    "bellows.thread.ThreadsafeProxy",
    fields=dict(_obj=T.ext(WRAPPED), _obj_loop=T.ext(OWNER_LOOP)),
)


def _set_caller_loop(same):
    def setup(I, b):
        if same:
            I.ctx.ghost["running_loop"] = b["owner_loop"]
        else:
            I.ctx.ghost["running_loop"] = T.ext(OWNER_LOOP).fresh(I, "caller_loop")
        b["caller_loop"] = I.ctx.ghost["running_loop"]

    return setup


# ---- lemma functions: a call made through the proxy, as the caller writes it --------------------------
# The proxy is always built by the real constructor (ThreadsafeProxy.__init__ runs from its source), so whatever
# state the class keeps per proxy is the state the real code creates -- not a record shape declared here.
def call_through_proxy(obj, owner_loop, name, arg):
    proxy = thread.ThreadsafeProxy(obj, owner_loop)
    return getattr(proxy, name)(arg, key=arg)


def call_then_run_owner_loop(obj, owner_loop, name, arg):
    """the call, followed by the owner loop running what was scheduled on it"""
    proxy = thread.ThreadsafeProxy(obj, owner_loop)
    r = getattr(proxy, name)(arg, key=arg)
    for cb, cb_args in getattr(owner_loop, "scheduled", []):
        cb(*cb_args)
    return r


def burst_then_run_owner_loop(obj, owner_loop, first, second, a1, a2):
    """a burst of two plain calls through a proxy built by the real constructor, then the owner loop runs what
    was scheduled on it -- one callback at a time, an exception of a callback going to the loop's exception
    handler (asyncio's contract for call_soon callbacks), never to the next callback"""
    proxy = thread.ThreadsafeProxy(obj, owner_loop)
    r1 = getattr(proxy, first)(a1, key=a1)
    r2 = getattr(proxy, second)(a2, key=a2)
    for cb, cb_args in getattr(owner_loop, "scheduled", []):
        try:
            cb(*cb_args)
        except Exception:
            pass
    return (r1, r2)


def direct_calls(fx):
    return [r for r in fx if r[0].startswith("wrapped.") or (r[0] == "call" and r[1].startswith("wrapped."))]


def _cases(kind_names):
    return [(n, {"name": T.const(n)}) for n in kind_names]


@contract("contracts.thread.call_through_proxy", props=["C20"])
def _(c):
    c.arg("obj", T.ext(WRAPPED))
    c.arg("owner_loop", T.ext(OWNER_LOOP))
    c.arg("arg", T.opaque)
    c.cases(
        *[(f"{n} from the owner's loop", {"name": T.const(n), "__same__": True}) for n in ("coro_method", "plain_method", "plain_returning", "not_callable")],
        *[(f"{n} from another loop", {"name": T.const(n), "__same__": False}) for n in ("coro_method", "plain_method", "plain_returning", "not_callable")],
    )
    c.setup = lambda I, b: _set_caller_loop(_SAME[I.ctx.ghost.get("__case__", "")])(I, b)
    c.inline_callees = True
    c.native_context = _native_thread_context
    # "non-callable attributes are refused"
    c.raises("not_callable", TypeError, when=lambda name: name == "not_callable")
    # "Calls from the owner's loop run directly": exactly one direct call with the caller's arguments
    c.ensures(
        "post.owner_loop_calls_directly",
        lambda owner_loop, name, arg, caller_loop, fx: implies(
            caller_loop is owner_loop,
            len(direct_calls(fx)) == 1 and [r for r in fx if r[0] in ("loop.call_soon_threadsafe", "asyncio.run_coroutine_threadsafe")] == [],
        ),
    )
    # "executed on the wrapped object's own loop ..., never on the caller's": from another loop nothing of the
    # wrapped object runs on the caller's path
    c.ensures(
        "post.other_loop_never_runs_the_method_itself",
        lambda owner_loop, caller_loop, fx: implies(
            not (caller_loop is owner_loop),
            [r for r in fx if r[0].startswith("wrapped.") and r[0] != "wrapped.coro_method"] == []
            and [r for r in fx if r[0] == "await"] == [],
        ),
    )
    # "once the owner's loop is closed calls are dropped without executing or blocking"
    c.ensures(
        "post.closed_owner_loop_drops_the_call",
        lambda owner_loop, caller_loop, result, fx: implies(
            not (caller_loop is owner_loop) and owner_loop.is_closed(),
            result is None and [r for r in fx if r[0] in ("loop.call_soon_threadsafe", "asyncio.run_coroutine_threadsafe")] == []
            and direct_calls(fx) == [],
        ),
    )
    # "for coroutine methods the caller receives the result or the exception raised": the coroutine object is
    # handed to run_coroutine_threadsafe on the OWNER's loop and the caller gets wrap_future of it on its own loop
    c.ensures(
        "post.coroutine_relayed_through_the_owner_loop",
        lambda owner_loop, name, caller_loop, result, fx: implies(
            not (caller_loop is owner_loop) and not owner_loop.is_closed() and name == "coro_method",
            len([r for r in fx if r[0] == "asyncio.run_coroutine_threadsafe"]) == 1
            and [r for r in fx if r[0] == "asyncio.run_coroutine_threadsafe"][0][2][1] is owner_loop
            and [r for r in fx if r[0] == "asyncio.wrap_future"][0][3]["loop"] is caller_loop
            and result.of.of is [r for r in fx if r[0] == "asyncio.run_coroutine_threadsafe"][0][2][0]
            and [r for r in fx if r[0] == "loop.call_soon_threadsafe"] == [],
        ),
    )
    # "for plain methods the call is queued": only scheduled on the owner's loop, nothing returned
    c.ensures(
        "post.plain_method_is_queued_on_the_owner_loop",
        lambda owner_loop, name, caller_loop, result, fx: implies(
            not (caller_loop is owner_loop) and not owner_loop.is_closed() and name in ("plain_method", "plain_returning"),
            result is None
            and len([r for r in fx if r[0] == "loop.call_soon_threadsafe"]) == 1
            and [r for r in fx if r[0] == "loop.call_soon_threadsafe"][0][1] is owner_loop
            and [r for r in fx if r[0] == "asyncio.run_coroutine_threadsafe"] == [],
        ),
    )


_SAME = {}


def _register_same():
    con = None
    from pyvc.contracts import REGISTRY

    for qn in ("contracts.thread.call_through_proxy", "contracts.thread.call_then_run_owner_loop",
               "contracts.thread.lookup_on_owner_loop_call_from_another"):
        con = REGISTRY.contracts.get(qn)
        if con is None:
            continue
        new = []
        for label, types in con.cases_:
            if "__same__" in types:
                _SAME[label] = types.pop("__same__")
            new.append((label, types))
        con.cases_ = new


@contract("contracts.thread.call_then_run_owner_loop", props=["C20"])
def _(c):
    c.arg("obj", T.ext(WRAPPED))
    c.arg("owner_loop", T.ext(OWNER_LOOP))
    c.arg("arg", T.opaque)
    c.cases(
        ("plain_method from another loop", {"name": T.const("plain_method"), "__same__": False}),
        ("plain_returning from another loop", {"name": T.const("plain_returning"), "__same__": False}),
    )
    c.setup = lambda I, b: _set_caller_loop(_SAME[I.ctx.ghost.get("__case__", "")])(I, b)
    c.inline_callees = True
    c.native_context = _native_thread_context
    c.requires("pre.owner_loop_open", lambda owner_loop: not owner_loop.is_closed())
    # "... and must return nothing": on the owner's side the queued call runs the method exactly once with
    # the caller's arguments, and a method that returns a value is refused with TypeError
    c.raises("returns_a_value", TypeError, when=lambda name: name == "plain_returning")
    c.ensures(
        "post.queued_call_runs_once_with_the_arguments",
        lambda name, arg, fx: [(r[0], r[2], r[3]) for r in fx if r[0].startswith("wrapped.")] == [("wrapped." + name, (arg,), {"key": arg})],
        on="any",
    )


def _burst_setup(I, b):
    I.ctx.ghost["running_loop"] = T.ext(OWNER_LOOP).fresh(I, "caller_loop")
    b["caller_loop"] = I.ctx.ghost["running_loop"]


@contract("contracts.thread.burst_then_run_owner_loop", props=["C20"])
def _(c):
    c.arg("obj", T.ext(WRAPPED))
    c.arg("owner_loop", T.ext(OWNER_LOOP))
    c.arg("a1", T.opaque)
    c.arg("a2", T.opaque)
    kinds = ("plain_method", "plain_returning")
    c.cases(*[(f"{f} then {s_}", {"first": T.const(f), "second": T.const(s_)}) for f in kinds for s_ in kinds])
    c.setup = _burst_setup
    c.inline_callees = True
    c.native_context = _native_thread_context
    c.requires("pre.owner_loop_open", lambda owner_loop: not owner_loop.is_closed())
    # "bursts of concurrent calls": every queued call is executed on the owner's side exactly once, with its
    # own arguments and in the order of the calls -- also when another call of the burst is refused (returns
    # a value) on the owner's side
    c.ensures(
        "post.every_call_of_a_burst_runs_once_in_order",
        lambda first, second, a1, a2, fx: [(r[0], r[2], r[3]) for r in fx if r[0].startswith("wrapped.")]
        == [("wrapped." + first, (a1,), {"key": a1}), ("wrapped." + second, (a2,), {"key": a2})],
    )
    c.ensures("post.nothing_returned_to_the_caller", lambda result: result[0] is None and result[1] is None)


_register_same()


# ---- a wrapper fetched on one loop and invoked on another (e.g. stored as a callback) -----------------
def switch_to_other_loop():
    """ghost operation of the contract language; natively (replay): the running loop becomes another stub loop"""
    if _SHIM[0] is None:
        raise NotImplementedError("ghost operation of the contract language")
    import types as _t

    _SHIM[0].running = _t.SimpleNamespace(is_closed=lambda: False, name="callers_loop")


@external("contracts.thread.switch_to_other_loop")
def _(I, args, kwargs):
    other = T.ext(OWNER_LOOP).fresh(I, "callers_loop")
    I.ctx.ghost["running_loop"] = other
    return other


def lookup_on_owner_loop_call_from_another(obj, owner_loop, name, arg):
    proxy = thread.ThreadsafeProxy(obj, owner_loop)
    wrapper = getattr(proxy, name)  # looked up while the owner's loop is the running loop
    switch_to_other_loop()  # ... and invoked later from a different loop's thread
    return wrapper(arg, key=arg)


@contract("contracts.thread.lookup_on_owner_loop_call_from_another", props=["C20"])
def _(c):
    c.arg("obj", T.ext(WRAPPED))
    c.arg("owner_loop", T.ext(OWNER_LOOP))
    c.arg("arg", T.opaque)
    c.cases(("coro_method", {"name": T.const("coro_method"), "__same__": True}),
            ("plain_method", {"name": T.const("plain_method"), "__same__": True}))
    c.setup = lambda I, b: _set_caller_loop(True)(I, b)
    c.inline_callees = True
    c.native_context = _native_thread_context
    c.requires("pre.owner_loop_open", lambda owner_loop: not owner_loop.is_closed())
    # "never on the caller's": what decides the dispatch is the loop running at the time of the call
    c.ensures(
        "post.dispatch_decided_at_call_time",
        lambda fx: [r for r in fx if r[0].startswith("wrapped.") and r[0] != "wrapped.coro_method"] == []
        and len([r for r in fx if r[0] in ("loop.call_soon_threadsafe", "asyncio.run_coroutine_threadsafe")]) == 1,
    )


_register_same()


# ---------------------------------------------------------------------------
# EventLoopThread.force_stop -- the part of stopping the secondary loop that is sequential code: what the callable
# handed to the loop does.  (Which thread runs it, and races with new calls, stay outside contracts: DESIGN 4.)
# "for coroutine methods the caller receives the result or the exception raised" also while the owner loop is
# stopping: every task of the loop is cancelled, and the loop is stopped only after ALL of them have finished --
# however they end -- so that each caller's relayed future gets its outcome.
# ---------------------------------------------------------------------------
TASK = ext_class("task", cancel=effect())


def _loop_call_soon(I, self_obj, args, kwargs):
    I.ctx.emit("loop.call_soon_threadsafe", self_obj, tuple(args), dict(kwargs))
    return None


STOPPABLE_LOOP = ext_class("thread_loop", stop=effect())
STOPPABLE_LOOP.methods["call_soon_threadsafe"] = ExtMethod("call_soon_threadsafe", fn=_loop_call_soon)
ELT = ext_class("event_loop_thread", fields={"loop": T.ext(STOPPABLE_LOOP)}, stable_fields=("loop",))


@external("asyncio.tasks.all_tasks")
def _(I, args, kwargs):
    # the tasks of that loop: two arbitrary tasks (concrete spine)
    I.ctx.emit("asyncio.all_tasks", None, tuple(args), dict(kwargs))
    return [SObj(TASK, {}, tag="task0"), SObj(TASK, {}, tag="task1")]


def gathers(fx):
    return [r for r in fx if r[0] == "asyncio.gather.created"]


@contract("bellows.thread.EventLoopThread.force_stop.cancel_tasks_and_stop_loop", props=["C20"])
def _(c):
    # `self` is an object of the real class (its other methods resolve to their real source, should the helper be split)
    c.closure("self", T.obj(ClassSpec("bellows.thread.EventLoopThread", fields=dict(loop=T.ext(STOPPABLE_LOOP), thread_complete=T.opaque))))
    # the helper by its role, should it be renamed or become a method: the function of EventLoopThread that collects the
    # loop's tasks
    c.located_by = ("bellows.thread.EventLoopThread", "all_tasks(")
    c.ensures(
        "post.tasks_of_this_loop_are_cancelled_on_it",
        lambda self, fx: [r[3] for r in fx if r[0] == "asyncio.all_tasks"] == [{"loop": self.loop}]
        and len([r for r in fx if r[0] == "loop.call_soon_threadsafe" and r[1] is self.loop]) == 2
        and [r for r in fx if r[0] == "task.cancel"] == [],
    )
    c.ensures(
        "post.loop_stops_only_after_every_task_has_finished",
        lambda self, fx: len(gathers(fx)) == 1
        and len(gathers(fx)[0][2]) == 2
        and gathers(fx)[0][3].get("return_exceptions") is True
        and len([r for r in fx if r[0] == "gather_future.add_done_callback"]) == 1
        and [r for r in fx if r[0] == "thread_loop.stop"] == [],
    )


# ---- the dispatch depends on the callable that is called, not on what was called before -------------------------
# Two wrapped objects that are instances of ONE Python class and carry a handler under the same attribute name: a
# plain function on one, a coroutine function on the other (an instance attribute, a mock, a re-bound method).  Called
# one after the other from another loop, in either order, each is dispatched by its own kind: "for coroutine methods
# the caller receives the result or the exception raised, for plain methods the call is queued".
class _OneWrappedClass:
    pass


HOLDER_PLAIN = ext_class("holder_with_plain_handler", handler=ExtMethod("handler", effect=True))
HOLDER_CORO = ext_class(
    "holder_with_coroutine_handler",
    handler=ExtMethod("handler", effect=True, is_async=True, raises=[ValueError], returns=lambda I, s, a, k: T.opaque.fresh(I, "coro_result")),
)
HOLDER_PLAIN.pytype = _OneWrappedClass
HOLDER_CORO.pytype = _OneWrappedClass


def two_objects_of_one_class(first, second, owner_loop, arg, plain_first):
    r1 = thread.ThreadsafeProxy(first, owner_loop).handler(arg)
    r2 = thread.ThreadsafeProxy(second, owner_loop).handler(arg)
    return (r1, r2)


def _other_loop_setup(I, b):
    I.ctx.ghost["running_loop"] = T.ext(OWNER_LOOP).fresh(I, "caller_loop")
    b["caller_loop"] = I.ctx.ghost["running_loop"]


@contract("contracts.thread.two_objects_of_one_class", props=["C20"])
def _(c):
    c.arg("owner_loop", T.ext(OWNER_LOOP))
    c.arg("arg", T.opaque)
    c.cases(
        ("plain handler first, coroutine handler second", {"first": T.ext(HOLDER_PLAIN), "second": T.ext(HOLDER_CORO), "plain_first": T.const(True)}),
        ("coroutine handler first, plain handler second", {"first": T.ext(HOLDER_CORO), "second": T.ext(HOLDER_PLAIN), "plain_first": T.const(False)}),
    )
    c.setup = _other_loop_setup
    c.inline_callees = True
    c.native_context = _native_thread_context
    c.requires("pre.owner_loop_open", lambda owner_loop: not owner_loop.is_closed())
    c.ensures(
        "post.each_call_is_dispatched_by_the_kind_of_its_own_callable",
        lambda plain_first, fx: len([r for r in fx if r[0] == "asyncio.run_coroutine_threadsafe"]) == 1
        and len([r for r in fx if r[0] == "loop.call_soon_threadsafe"]) == 1
        and [r[0] for r in fx if r[0] in ("asyncio.run_coroutine_threadsafe", "loop.call_soon_threadsafe")]
        == (["loop.call_soon_threadsafe", "asyncio.run_coroutine_threadsafe"] if plain_first
            else ["asyncio.run_coroutine_threadsafe", "loop.call_soon_threadsafe"]),
    )
    # the plain handler never runs on the caller's path
    c.ensures(
        "post.plain_handler_only_queued",
        lambda fx: [r for r in fx if r[0] == "holder_with_plain_handler.handler"] == [],
    )
