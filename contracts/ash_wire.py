"""C03 (and the decoding half of C02): ASH frames on the wire, bit for bit.

The reference encoder below is written from the ASH specification (UG101 section 2-4), not from the
code: control-byte layouts arithmetically, the LFSR of the data-field randomisation, byte stuffing
as a fold.  The real functions are proved equal to it.
"""
import bellows.ash as ash
import bellows.types as t

from contracts.ash import ASH, AckFrameT, DataFrameT, ErrorFrameT, NakFrameT, RStackFrameT, RstFrameT, transport_writes
from contracts.externals import crc_hqx
from pyvc.contracts import T, contract
from pyvc.spec import Fold


# roles of the locals the loop clauses speak about (pyvc LoopSpec.roles): identified by the value they have when the
# loop is reached, so that a renamed local is still "the accumulator" / "the LFSR state" / "the pending-escape flag"
def _starts_as_empty_bytearray(v):
    import z3
    from pyvc.values import SBytes
    if isinstance(v, bytearray):
        return len(v) == 0
    return isinstance(v, SBytes) and v.mutable and z3.is_app(v.t) and v.t.decl().kind() == z3.Z3_OP_SEQ_EMPTY


def _starts_as(value):
    return lambda v: type(v) is type(value) and v == value

# --- specification constants (UG101) -----------------------------------------------------------
FLAG, ESCAPE, XON, XOFF, SUBSTITUTE, CANCEL = 0x7E, 0x7D, 0x11, 0x13, 0x18, 0x1A
SPEC_RESERVED = (FLAG, ESCAPE, XON, XOFF, SUBSTITUTE, CANCEL)


def lfsr_next(r):
    """UG101 4.3: rand(i+1) = rand(i) >> 1 if bit 0 of rand(i) is 0, else (rand(i) >> 1) ^ 0xB8."""
    return (r // 2) if r % 2 == 0 else ((r // 2) ^ 0xB8)


def _spec_sequence(n):
    out, r = [], 0x42
    for _ in range(n):
        out.append(r)
        r = lfsr_next(r)
    return tuple(out)


SPEC_SEQ = _spec_sequence(256)
SPEC_SEQ_BYTES = bytes(SPEC_SEQ)


def spec_randomize(payload):
    """payload XOR the specification's pseudo-random sequence (UG101 4.3), byte by byte"""
    return bytes([x ^ s for x, s in zip(payload, SPEC_SEQ_BYTES)])


def be16(v):
    return bytes([v // 256, v % 256])


def crc(data):
    """CRC-CCITT, seed 0xFFFF (assumed equal to binascii.crc_hqx, see externals)."""
    return crc_hqx(data, 0xFFFF)


def with_crc(body):
    return body + be16(crc(body))


# control bytes, written arithmetically from the bit layouts of UG101 table 3
def ctrl_data(frm_num, re_tx, ack_num):
    return frm_num * 16 + (8 if re_tx else 0) + ack_num  # 0 fff r aaa


def ctrl_ack(res, ncp_ready, ack_num):
    return 0x80 + (16 if res else 0) + (8 if ncp_ready else 0) + ack_num  # 100 x n aaa


def ctrl_nak(res, ncp_ready, ack_num):
    return 0xA0 + (16 if res else 0) + (8 if ncp_ready else 0) + ack_num  # 101 x n aaa


CTRL_RST, CTRL_RSTACK, CTRL_ERROR = 0xC0, 0xC1, 0xC2


# --- byte stuffing as folds -----------------------------------------------------------------------
def stuff_step(out, x):
    return out + (bytes([ESCAPE, x ^ 0x20]) if x in SPEC_RESERVED else bytes([x]))


stuff = Fold("stuff", [("out", "bytes", b"")], stuff_step)


def unstuff_step(out, escaped, err, x):
    """state: bytes so far, 'previous byte was ESCAPE', 'an escaped byte was not a reserved value'"""
    return (
        (out + bytes([x ^ 0x20])) if escaped else (out if x == ESCAPE else out + bytes([x])),
        (not escaped) and x == ESCAPE,
        err or (escaped and (x ^ 0x20) not in SPEC_RESERVED),
    )


unstuff = Fold("unstuff", [("out", "bytes", b""), ("escaped", "bool", False), ("err", "bool", False)], unstuff_step)


def _short_byte_strings():
    """inputs for the concrete search after a refuted loop obligation: all strings up to length 3 over a
    reserved-byte-rich alphabet"""
    import itertools

    alphabet = (0x7D, 0x7E, 0x5D, 0x5E, 0x11, 0x31, 0x00, 0x1A)
    for n in range(0, 4):
        for tup in itertools.product(alphabet, repeat=n):
            yield {"data": {"__bytes__": bytes(tup).hex(), "mutable": False}}


# ---------------------------------------------------------------------------------------------------
# randomisation
# ---------------------------------------------------------------------------------------------------
@contract("bellows.ash.generate_random_sequence", props=["C03", "C01"])
def _(c):
    c.arg("length", T.range(0, 4096))
    # loop invariant: `rand` is the LFSR state after _i steps; the output so far has length _i.  The
    # element-wise claim output[j] == lfsr^j(0x42) is the table obligation below (live table vs spec).
    c.loop(
        0,
        invariants=[
            ("len", lambda output, _i: len(output) == _i),
            ("byte", lambda rand: 0 <= rand < 256),
        ],
        roles={"output": _starts_as_empty_bytearray, "rand": _starts_as(0x42)},
    )
    c.ensures("post.length", lambda length, result: len(result) == length)


@contract("bellows.ash.DataFrame._randomize", props=["C03", "C02", "C01"])
def _(c):
    c.arg("data", T.bytes)
    c.raises("too_long", AssertionError, when=lambda data: len(data) > 256)
    c.ensures("post.length", lambda data, result: len(result) == len(data))
    c.ensures("post.xor_with_spec_sequence", lambda data, result: result == spec_randomize(data))
    c.returns(T.bytes)


# ---------------------------------------------------------------------------------------------------
# CRC
# ---------------------------------------------------------------------------------------------------
@contract("bellows.ash.AshFrame.append_crc", props=["C03"])
def _(c):
    c.arg("data", T.bytes)
    c.ensures("post.crc_appended_big_endian", lambda data, result: result == with_crc(data))
    c.returns(T.bytes)


@contract("bellows.ash.AshFrame._unwrap", props=["C03", "C02"])
def _(c):
    c.arg("cls", T.const(ash.AshFrame))
    c.arg("data", T.bytes)
    # accepts iff at least control + CRC and the trailer is the big-endian CRC of everything before it
    c.raises(
        "rejected",
        ash.ParsingError,
        when=lambda data: len(data) < 3 or data[-2:] != be16(crc(data[:-2])),
    )
    c.ensures("post.split", lambda data, result: result[0] == data[0] and result[1] == data[1:-2])
    c.returns(T.tuple(T.byte, T.bytes))


# ---------------------------------------------------------------------------------------------------
# byte stuffing
# ---------------------------------------------------------------------------------------------------
@contract("bellows.ash.AshProtocol._stuff_bytes", props=["C03"])
def _(c):
    c.arg("data", T.bytes)
    c.loop(0, invariants=[("refines_fold", lambda out, _pre: out == stuff(_pre))], fold=[stuff],
           roles={"out": _starts_as_empty_bytearray})
    c.ensures("post.is_spec_stuffing", lambda data, result: result == stuff(data))
    c.returns(T.bytes)


@contract("bellows.ash.AshProtocol._unstuff_bytes", props=["C03", "C02"])
def _(c):
    c.arg("data", T.bytes)
    c.loop(
        0,
        invariants=[
            (
                "refines_fold",
                lambda out, escaped, _pre: out == unstuff(_pre)[0]
                and escaped == unstuff(_pre)[1]
                and not unstuff(_pre)[2],
            )
        ],
        fold=[unstuff],
        roles={"out": _starts_as_empty_bytearray, "escaped": _starts_as(False)},
    )
    # "a frame with ... invalid escape never produces an upward delivery": an escaped byte that is not
    # a reserved value, or an ESCAPE with nothing after it, is rejected
    c.raises("invalid_escape", ash.ParsingError, when=None)
    # raised inside the loop at byte _x after the prefix _pre: that prefix ends in an invalid escaped byte;
    # raised after the loop (_x is None): the whole frame ends with a dangling ESCAPE
    c.ensures(
        "post.raise_means_invalid",
        lambda data, _pre, _x: (unstuff(_pre)[1] and _pre == data) if _x is None else unstuff(_pre + bytes([_x]))[2],
        on="raise",
    )
    c.ensures(
        "post.returns_spec_unstuffing",
        lambda data, result: result == unstuff(data)[0] and not unstuff(data)[2],
    )
    c.ensures("post.no_dangling_escape", lambda data: not unstuff(data)[1])
    c.returns(T.bytes)
    c.search_space = _short_byte_strings


# ---------------------------------------------------------------------------------------------------
# frame classes: encoders / decoders against the arithmetic layouts
# ---------------------------------------------------------------------------------------------------
DataFrameOutT = T.record(ash.DataFrame, frm_num=T.u3, re_tx=T.bool, ack_num=T.u3, ezsp_frame=T.bytes)


def crc_trailer_ok(wire):
    return wire[-2:] == be16(crc(wire[:-2]))


def _encoder(qualname, self_ty, ctrl, extra=None, payload=False):
    @contract(qualname, props=["C03"])
    def _(c):
        c.inline = True
        c.arg("self", self_ty)
        if payload:
            c.raises("too_long", AssertionError, when=lambda self: len(self.ezsp_frame) > 256)
            c.ensures("post.length", lambda self, result: len(result) == len(self.ezsp_frame) + 3)
            c.ensures("post.payload_randomised", lambda self, result: result[1:-2] == spec_randomize(self.ezsp_frame))
        c.ensures("post.control_byte", ctrl)
        if extra is not None:
            c.ensures("post.data_field", extra)
        c.ensures("post.crc_trailer", lambda result: crc_trailer_ok(result))
        c.returns(T.bytes)


_encoder(
    "bellows.ash.DataFrame.to_bytes", DataFrameOutT,
    lambda self, result: result[0] == ctrl_data(self.frm_num, self.re_tx, self.ack_num), payload=True,
)
_encoder(
    "bellows.ash.AckFrame.to_bytes", AckFrameT,
    lambda self, result: result[0] == ctrl_ack(self.res, self.ncp_ready, self.ack_num) and len(result) == 3,
)
_encoder(
    "bellows.ash.NakFrame.to_bytes", NakFrameT,
    lambda self, result: result[0] == ctrl_nak(self.res, self.ncp_ready, self.ack_num) and len(result) == 3,
)
_encoder("bellows.ash.RstFrame.to_bytes", RstFrameT, lambda self, result: result[0] == CTRL_RST and len(result) == 3)
_encoder(
    "bellows.ash.RStackFrame.to_bytes", RStackFrameT,
    lambda self, result: result[0] == CTRL_RSTACK and len(result) == 5,
    extra=lambda self, result: result[1] == 2 and result[2] == self.reset_code,
)


def rejected_by_crc_or_length(data):
    return len(data) < 3 or data[-2:] != be16(crc(data[:-2]))


@contract("bellows.ash.DataFrame.from_bytes", props=["C03", "C02", "C01"])
def _(c):
    c.inline = True
    c.arg("cls", T.const(ash.DataFrame))
    c.arg("data", T.bytes)
    c.raises("rejected", ash.ParsingError, when=lambda data: rejected_by_crc_or_length(data))
    c.raises("too_long", AssertionError, when=lambda data: not rejected_by_crc_or_length(data) and len(data) - 3 > 256)
    c.ensures("post.class", lambda result: type(result) is ash.DataFrame)
    c.ensures(
        "post.fields",
        lambda data, result: result.frm_num == (data[0] // 16) % 8
        and result.re_tx == (data[0] // 8) % 2
        and result.ack_num == data[0] % 8,
    )
    c.ensures("post.payload_derandomised", lambda data, result: result.ezsp_frame == spec_randomize(data[1:-2]))


def _ack_like_decoder(qualname, cls):
    @contract(qualname, props=["C03", "C02"])
    def _(c):
        c.inline = True
        c.arg("cls", T.const(cls))
        c.arg("data", T.bytes)
        c.raises("rejected", ash.ParsingError, when=lambda data: rejected_by_crc_or_length(data))
        c.ensures("post.class", lambda result: type(result) is cls)
        c.ensures(
            "post.fields",
            lambda data, result: result.res == (data[0] // 16) % 2
            and result.ncp_ready == (data[0] // 8) % 2
            and result.ack_num == data[0] % 8,
        )


_ack_like_decoder("bellows.ash.AckFrame.from_bytes", ash.AckFrame)
_ack_like_decoder("bellows.ash.NakFrame.from_bytes", ash.NakFrame)


@contract("bellows.ash.RstFrame.from_bytes", props=["C03", "C02"])
def _(c):
    c.inline = True
    c.arg("cls", T.const(ash.RstFrame))
    c.arg("data", T.bytes)
    c.raises("rejected", ash.ParsingError, when=lambda data: rejected_by_crc_or_length(data) or len(data) != 3)
    c.ensures("post.class", lambda result: type(result) is ash.RstFrame)


@contract("bellows.ash.RStackFrame.from_bytes", props=["C03", "C02"])
def _(c):
    c.inline = True
    c.cases(
        ("rstack", {"cls": T.const(ash.RStackFrame), "data": T.bytes}),
        ("error", {"cls": T.const(ash.ErrorFrame), "data": T.bytes}),
    )
    # RSTACK / ERROR: exactly two data bytes, version 2, any reset / error code
    c.raises(
        "rejected",
        ash.ParsingError,
        when=lambda data: rejected_by_crc_or_length(data) or len(data) != 5 or data[1] != 2,
    )
    c.ensures("post.class", lambda cls, result: type(result) is cls)
    c.ensures("post.fields", lambda data, result: result.version == 2 and result.reset_code == data[2])


def spec_frame_class_is(control, cls):
    """UG101 table 3: classification of all 256 control bytes"""
    return (
        (control < 0x80) if cls is ash.DataFrame
        else (0x80 <= control < 0xA0) if cls is ash.AckFrame
        else (0xA0 <= control < 0xC0) if cls is ash.NakFrame
        else (control == CTRL_RST) if cls is ash.RstFrame
        else (control == CTRL_RSTACK) if cls is ash.RStackFrame
        else (control == CTRL_ERROR)
    )


FRAME_CLASSES = (ash.DataFrame, ash.AckFrame, ash.NakFrame, ash.RstFrame, ash.RStackFrame, ash.ErrorFrame)


@contract("bellows.ash.parse_frame", props=["C03", "C02"])
def _(c):
    c.arg("data", T.bytes_(minlen=1))
    c.raises("rejected", ash.ParsingError, when=None)
    c.raises("too_long", AssertionError, when=None)
    c.ensures(
        "post.classified_as_spec",
        lambda data, result: all((type(result) is k) == spec_frame_class_is(data[0], k) for k in FRAME_CLASSES),
    )
    c.ensures("post.accepted_has_valid_crc", lambda data: not rejected_by_crc_or_length(data))
    c.ensures("post.only_parsing_errors", lambda raised: isinstance(raised, Exception), on="raise")


# ---------------------------------------------------------------------------------------------------
# what the host writes: prefix ++ stuff(frame) ++ suffix
# ---------------------------------------------------------------------------------------------------
from contracts import index as _index
from pyvc.contracts import REGISTRY as _REG

_wf = _REG.contracts["bellows.ash.AshProtocol._write_frame"]
_wf.props = sorted(set(_wf.props) | {"C03"})
_wf.ensures(
    "post.wire_image",
    lambda frame, prefix, suffix, fx: transport_writes(fx) == [bytes(prefix) + stuff(frame.to_bytes()) + bytes(suffix)],
)
# a DATA payload longer than the pseudo-random table cannot be randomised: to_bytes asserts (the property
# quantifies payloads up to 200 bytes; EZSP frames are shorter)
_wf.raises("payload_too_long", AssertionError, when=lambda frame: type(frame) is ash.DataFrame and len(frame.ezsp_frame) > 256)
_wf.cases_ = [
    ("ack", {"frame": AckFrameT, "prefix": T.const(()), "suffix": T.const((ash.Reserved.FLAG,))}),
    ("nak", {"frame": NakFrameT, "prefix": T.const((ash.Reserved.CANCEL,)), "suffix": T.const((ash.Reserved.FLAG,))}),
    ("rst", {"frame": RstFrameT, "prefix": T.const((ash.Reserved.CANCEL,)), "suffix": T.const((ash.Reserved.FLAG,))}),
    ("data", {"frame": DataFrameOutT, "prefix": T.const(()), "suffix": T.const((ash.Reserved.FLAG,))}),
]


# ---------------------------------------------------------------------------------------------------
# parsing is the inverse of encoding (lemma over the bodies of to_bytes / parse_frame)
# ---------------------------------------------------------------------------------------------------
def frame_roundtrip(frame):
    return ash.parse_frame(frame.to_bytes())


@contract("contracts.ash_wire.frame_roundtrip", props=["C03"])
def _(c):
    c.cases(
        ("ack", {"frame": AckFrameT}),
        ("nak", {"frame": NakFrameT}),
        ("rst", {"frame": RstFrameT}),
        ("rstack", {"frame": RStackFrameT}),
        ("error", {"frame": ErrorFrameT}),
    )
    # "parsing is the exact inverse of encoding for all field values": control frames (all field values, all
    # 256 reset codes); DATA frames are covered by to_bytes / from_bytes against the same layout + the
    # involution lemma of the randomisation below
    c.ensures("lemma.parse_inverts_encode", lambda frame, result: result == frame)
    c.inline_callees = True


# ---------------------------------------------------------------------------------------------------
# specification-level lemmas (independent of /repo) and table obligations
# ---------------------------------------------------------------------------------------------------
def spec_crc_step(crc, byte):
    """CRC-CCITT, polynomial x^16 + x^12 + x^5 + 1, MSB first (UG101 / ITU-T V.41)"""
    crc ^= byte << 8
    for _ in range(8):
        crc = ((crc << 1) ^ 0x1021) & 0xFFFF if crc & 0x8000 else (crc << 1) & 0xFFFF
    return crc


def spec_crc(data, seed=0xFFFF):
    c_ = seed
    for b in data:
        c_ = spec_crc_step(c_, b)
    return c_


MAX_FRAME_BYTES = 1 + 256 + 2  # control byte, longest payload the host can de-randomise, CRC


def _wire_lemmas(tier):
    import time

    import z3

    out = []

    def ob(name, ok, backend, detail, t0, witness=None):
        out.append({"name": name, "verdict": "proved" if ok else "refuted", "backend": backend, "t": round(time.time() - t0, 3),
                    "detail": detail, "witness": witness if not ok else None})

    # --- the live pseudo-random table is the specification's sequence, and is what the module computes once
    t0 = time.time()
    live = bytes(ash.PSEUDO_RANDOM_DATA_SEQUENCE)
    bad = [i for i in range(256) if i >= len(live) or live[i] != SPEC_SEQ[i]]
    ob("bellows.ash.PSEUDO_RANDOM_DATA_SEQUENCE::table.is_spec_lfsr_sequence", len(live) == 256 and not bad, "live-table",
       "256 positions against lfsr^i(0x42)", t0, {"first_mismatch": bad[:3], "len": len(live)})
    import ast as _ast

    from pyvc import source

    tree, _text = source.module_ast("bellows.ash")
    src = [_ast.unparse(s.value) for s in tree.body if isinstance(s, _ast.Assign)
           and any(_ast.unparse(t_) == "PSEUDO_RANDOM_DATA_SEQUENCE" for t_ in s.targets)]
    ob("bellows.ash.PSEUDO_RANDOM_DATA_SEQUENCE::table.computed_by_generate_random_sequence",
       src == ["generate_random_sequence(256)"], "source", str(src), t0, {"source": src})
    live_reserved = sorted(int(x) for x in ash.RESERVED_BYTES)
    ob("bellows.ash.RESERVED_BYTES::table.is_spec_reserved_set", live_reserved == sorted(SPEC_RESERVED), "live-table",
       str(live_reserved), t0, {"live": live_reserved})

    # --- randomisation is an involution on every position (x ^ s ^ s == x): one bit-vector query
    t0 = time.time()
    x, s_ = z3.BitVecs("x s", 8)
    sol = z3.Solver()
    sol.add((x ^ s_) ^ s_ != x)
    ob("spec.randomize::lemma.involution", sol.check() == z3.unsat, "z3", "forall x s: (x ^ s) ^ s == x", t0)

    # --- stuffing: per-byte step lemmas (the step functions only append to the output, so they are
    #     independent of what was produced before; exhaustive over all 256 byte values)
    t0 = time.time()
    bad = []
    for b in range(256):
        st = stuff_step(b"", b)
        if any(y in SPEC_RESERVED and y != ESCAPE for y in st):
            bad.append(("reserved byte in stuffed output", b))
        state = (b"", False, False)
        for y in st:
            state = unstuff_step(*state, y)
        if state != (bytes([b]), False, False):
            bad.append(("unstuff(stuff(x)) != x", b))
    ob("spec.stuff::lemma.no_reserved_byte_but_escape_and_unstuff_inverts", not bad, "exhaustive-256",
       "induction step of: stuff(d) contains no reserved byte other than ESCAPE; unstuff(stuff(d)) == d without error", t0,
       {"failures": bad[:4]})

    # --- CRC: "a frame whose unstuffed bytes differ from a valid frame in one or two bits is rejected"
    t0 = time.time()
    c1, c2 = z3.BitVecs("c1 c2", 16)
    b1, b2 = z3.BitVecs("b1 b2", 8)

    def zstep(c_, b_):
        c_ = c_ ^ (z3.ZeroExt(8, b_) << 8)
        for _ in range(8):
            c_ = z3.If(z3.Extract(15, 15, c_) == 1, (c_ << 1) ^ 0x1021, c_ << 1)
        return c_

    sol = z3.Solver()
    sol.add(zstep(c1 ^ c2, b1 ^ b2) != zstep(c1, b1) ^ zstep(c2, b2))
    lin = sol.check() == z3.unsat
    ob("spec.crc::lemma.step_is_gf2_linear", lin, "z3", "crc_step(c1^c2, b1^b2) == crc_step(c1,b1) ^ crc_step(c2,b2)", t0)
    t0 = time.time()
    # single-bit syndromes: CRC (seed 0) of a frame that is zero except for one bit; by linearity the check of a
    # corrupted frame fails iff the syndrome of the error pattern (XOR of single-bit syndromes) is non-zero
    nbits = 8 * MAX_FRAME_BYTES
    synd = []
    for k in range(nbits):
        pat = bytearray(MAX_FRAME_BYTES)
        pat[k // 8] = 0x80 >> (k % 8)
        # syndrome of the whole pattern including the CRC field positions: crc(body) ^ trailer
        body, trailer = bytes(pat[:-2]), int.from_bytes(pat[-2:], "big")
        synd.append(spec_crc(body, 0) ^ trailer)
    nonzero = all(v != 0 for v in synd)
    distinct = len(set(synd)) == len(synd)
    ob("spec.crc::lemma.one_and_two_bit_errors_detected", nonzero and distinct, "exhaustive",
       f"{nbits} single-bit syndromes of a maximal frame are non-zero and pairwise distinct (so no 1- or 2-bit pattern has syndrome 0)",
       t0, {"nonzero": nonzero, "distinct": distinct})
    return out


_index.extra("C03")(_wire_lemmas)
_index.extra("C01")(_wire_lemmas)  # interoperation with a conforming peer rests on the same wire tables


def _crc_standin(seed, tier):
    """bounded validation of the ASSUMPTION binascii.crc_hqx(d, 0xFFFF) == specification CRC"""
    import binascii
    import random

    rnd = random.Random(seed)
    n = 20000 if tier == "thorough" else 2000
    failures, samples = [], []
    for i in range(n):
        d = bytes(rnd.getrandbits(8) for _ in range(rnd.choice([0, 1, 2, 3, 5, 8, 13, 40, 130, 259])))
        a, b = binascii.crc_hqx(d, 0xFFFF), spec_crc(d)
        if a != b:
            failures.append({"obligation": "assumed.crc_hqx_is_spec_crc", "inputs": {"data": d.hex()}})
        elif len(samples) < 3:
            samples.append({"data": d.hex()[:40], "crc": hex(a)})
    return {"name": "binascii.crc_hqx == specification CRC-CCITT (assumed)", "evaluations": n, "distinct": n,
            "bound": f"{n} random byte strings of lengths 0..259, seed {seed}", "samples": samples, "failures": failures[:3],
            "label": "bounded"}


_index.standin("C03")(_crc_standin)
