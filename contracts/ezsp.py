"""Contracts on bellows/ezsp/__init__.py: the EZSP object (C06, C08, C09, C10, C16, C17)."""
import asyncio

import bellows.ezsp as ezsp
import bellows.ezsp.v4 as v4
import bellows.types as t
from bellows.exception import EzspError

from contracts.ezsp_protocol import GATEWAY_PROXY
from pyvc.calls import ExtMethod
from pyvc.contracts import ClassSpec, T, contract
from pyvc.ext import effect, ext_class, field

# ---------------------------------------------------------------------------
# collaborators
# ---------------------------------------------------------------------------
EVENT = ext_class(
    "event",
    fields={"flag": T.bool},
    # written only by start_ezsp / stop_ezsp (bring-up, close); treated as stable across a suspension of
    # the bring-up coroutines (a concurrent close only makes later commands raise, which their contracts allow)
    stable_fields=("flag",),
    set=effect(sets={"flag": True}),
    clear=effect(sets={"flag": False}),
    is_set=field("flag"),
)
# a registered callback: any callable; may raise any Exception
CALLBACK = ext_class("callback", __call__=ExtMethod("__call__", effect=True, raises=[ValueError]))
# the active protocol handler seen from EZSP.frame_received: callable, may raise any Exception
PROTO_RX = ext_class(
    "protocol",
    __call__=ExtMethod("__call__", effect=True, raises=[ValueError, AssertionError, IndexError, KeyError]),
)


def _proto_dynamic(name):
    # attribute of the protocol handler looked up by command name: an async command call
    return ExtMethod("command:" + (name if isinstance(name, str) else "<name>"), effect=True, is_async=True,
                     raises=[asyncio.TimeoutError, EzspError],
                     returns=lambda I, s, a, k: T.opaque.fresh(I, "response"))


PROTO_RX.dynamic = _proto_dynamic

EZ = ClassSpec(
    "bellows.ezsp.EZSP",
    fields=dict(
        _config=T.opaque,
        _callbacks=T.map(T.ext(CALLBACK), card=True),
        _ezsp_event=T.ext(EVENT),
        _ezsp_version=T.range(4, 255),
        _gw=T.opt(T.ext(GATEWAY_PROXY)),
        _protocol=T.opt(T.ext(PROTO_RX)),
        _stack_status_listeners=T.opaque,
    ),
    invariants=[],
    interference=["_callbacks", "_ezsp_version", "_gw", "_protocol"],
)


def cb_calls(fx):
    return [r for r in fx if r[0] == "callback.__call__" or r[0] == "callback.__call__!raise"]


def _arbitrary_callback(I, b):
    from pyvc import smap

    k0 = T.int.fresh(I, "k0")
    b["k0"] = k0
    smap.find_slot(I, b["self"].fields["_callbacks"], k0.t)


# ---------------------------------------------------------------------------
# callbacks (C06: "delivered to the registered callbacks exactly once")
# ---------------------------------------------------------------------------
@contract("bellows.ezsp.EZSP.handle_callback", props=["C06", "C10"])
def _(c):
    c.self(EZ)
    c.effect_name = "ezsp.handle_callback"
    c.cases(
        ("frame", {"args": T.tuple(T.str, T.opaque)}),
        ("reset_request", {"args": T.const(("_reset_controller_application", ("error",)))}),
    )
    c.setup = _arbitrary_callback
    # every registered callback is invoked exactly once with the arguments; an exception raised by one
    # handler does not stop the others and does not escape
    c.ensures(
        "post.each_registered_callback_once",
        lambda self, args, k0, fx: implies(
            k0 in self._callbacks,
            len([r for r in cb_calls(fx) if r[1] is self._callbacks[k0]]) == 1
            and all(r[2] == args for r in cb_calls(fx) if r[1] is self._callbacks[k0]),
        ),
    )
    c.ensures("post.registry_unchanged", lambda self: unchanged_except(self._callbacks, old(self._callbacks), []))
    c.modifies("self._callbacks.*")


@contract("bellows.ezsp.EZSP.frame_received", props=["C08"])
def _(c):
    c.self(EZ)
    c.arg("data", T.bytes)
    # "the receive entry point never raises": no raises clause -- any exception on any path is a failed obligation
    c.ensures(
        "post.handed_to_protocol_iff_configured_and_nonempty",
        lambda self, data, fx: len([r for r in fx if r[0] in ("protocol.__call__", "protocol.__call__!raise")])
        == (1 if (old(self._protocol) is not None and len(data) > 0) else 0)
        and all(r[2] == (data,) for r in fx if r[0] in ("protocol.__call__", "protocol.__call__!raise")),
    )
    c.modifies()


# ---------------------------------------------------------------------------
# failure reporting (C10)
# ---------------------------------------------------------------------------
@contract("bellows.ezsp.EZSP.close", props=["C10", "C09"])
def _(c):
    c.self(EZ)
    c.effect_name = "ezsp.close"
    c.ensures("post.stopped", lambda self: not self._ezsp_event.is_set())
    c.ensures(
        "post.gateway_closed_and_dropped",
        lambda self, fx: self._gw is None
        and len([r for r in fx if r[0] == "gw.close"]) == (1 if old(self._gw) is not None else 0),
    )
    c.modifies("self._gw")


@contract("bellows.ezsp.EZSP.enter_failed_state", props=["C10"])
def _(c):
    c.self(EZ)
    c.effect_name = "ezsp.enter_failed_state"
    c.arg("error", T.opaque)
    # "once an application callback is registered, the application receives a controller-reset request,
    #  the EZSP layer is stopped": exactly one _reset_controller_application request through the
    #  callbacks, after the layer was closed
    c.ensures(
        "post.reset_requested_once_iff_application_registered",
        lambda self, error, fx: len([r for r in fx if r[0] == "ezsp.handle_callback"])
        == (1 if old(len(self._callbacks)) > 1 else 0)
        and all(r[2] == ("_reset_controller_application", (error,)) for r in fx if r[0] == "ezsp.handle_callback"),
    )
    c.ensures(
        "post.closed_before_request",
        lambda self, fx: implies(
            old(len(self._callbacks)) > 1,
            [r[0] for r in fx if r[0] in ("ezsp.close", "ezsp.handle_callback")] == ["ezsp.close", "ezsp.handle_callback"],
        ),
    )
    c.at_effect("ezsp.close", "link_still_held_for_closing", lambda self: self._gw is old(self._gw))
    c.modifies("self._gw", "self._callbacks.*")


@contract("bellows.ezsp.EZSP.connection_lost", props=["C10"])
def _(c):
    c.self(EZ)
    c.arg("exc", T.opaque)
    c.ensures("post.enters_failed_state_once", lambda fx: len([r for r in fx if r[0] == "ezsp.enter_failed_state"]) == 1)
    # "the EZSP layer is stopped so that new commands ... write nothing to the port": the failure handling must still
    # hold the link that was in place when the loss was reported -- it is what gets closed (for an EOF the port is
    # still open and the ASH link below would go on retransmitting)
    c.at_effect("ezsp.enter_failed_state", "link_still_held_for_closing", lambda self: self._gw is old(self._gw))
    c.modifies("self._gw", "self._callbacks.*")


@contract("bellows.ezsp.EZSP._command", props=["C10", "C09"])
def _(c):
    c.self(EZ)
    c.effect_name = "ezsp.command"
    c.cases(("nop", {"name": T.const("nop")}), ("any", {"name": T.str}))
    # "the EZSP layer is stopped so that new commands raise immediately and write nothing to the port"
    c.raises("not_running", EzspError)
    c.raises("timeout", TimeoutError)
    c.raises("no_protocol", AttributeError, when=lambda self: self._protocol is None)
    c.raises("cancelled", asyncio.CancelledError)
    c.ensures(
        "post.stopped_layer_refuses_without_effect",
        lambda self, raised, fx: implies(
            not old(self._ezsp_event.is_set()) and old(self._protocol) is not None,
            type(raised) is EzspError and [r for r in fx if r[0] != "observe"] == [],
        ),
        on="raise",
    )
    c.ensures("post.returns_only_when_running", lambda self: old(self._ezsp_event.is_set()))
    c.modifies()


# ---------------------------------------------------------------------------
# bring-up and version negotiation (C09)
# ---------------------------------------------------------------------------
def handler_class_for(version):
    """the statement: 'its own command tables for supported versions, the newest known tables for newer ones'"""
    return ezsp.EZSP._BY_VERSION[version] if version in ezsp.EZSP._BY_VERSION else ezsp.EZSP._BY_VERSION[max(ezsp.EZSP._BY_VERSION)]


def _command_result_ez(I, b):
    from pyvc import ncp
    from pyvc.values import SObj, SOpt

    name = b["name"]
    proto = b["self"].fields.get("_protocol")
    if isinstance(proto, SOpt):
        proto = proto.value
    cls = proto.cls if isinstance(proto, SObj) and isinstance(proto.cls, type) else v4.EZSPv4
    if isinstance(name, str) and name in cls.COMMANDS:
        return ncp.response_of(I, cls, name)
    return T.opaque.fresh(I, "response")


from pyvc.contracts import REGISTRY as _REG

_REG.contracts["bellows.ezsp.EZSP._command"].returns_fn = _command_result_ez


def _command_pre_call_ez(I, b):
    """unknown command name / arguments that do not fit the live tx schema of the installed handler"""
    from pyvc import ncp
    from pyvc.values import SObj, SOpt

    proto = b["self"].fields.get("_protocol")
    if isinstance(proto, SOpt):
        proto = proto.value
    name = b["name"]
    if isinstance(proto, SObj) and isinstance(proto.cls, type) and isinstance(name, str):
        ncp.check_request(I, proto.cls, name, list(b.get("args", ())), dict(b.get("kwargs", {})))


_REG.contracts["bellows.ezsp.EZSP._command"].pre_call = _command_pre_call_ez

EZ_BRINGUP = ClassSpec(
    "bellows.ezsp.EZSP",
    fields=dict(EZ.fields),
    invariants=[],
    # during bring-up the handler and the version are written only by the bring-up task itself
    interference=["_callbacks"],
)


@contract("bellows.ezsp.EZSP.is_tcp_serial_port", props=["C09"])
def _(c):
    c.self(EZ_BRINGUP)
    c.trusted = True  # pure parsing of the configured device path (urllib)
    c.returns(T.bool)
    c.modifies()


def _handler_of(k):
    from pyvc.contracts import RecordT

    return RecordT(k, frozen=False, _gw=T.opt(T.ext(GATEWAY_PROXY)), _seq=T.range(0, 255), _awaiting=T.map(T.opaque, card=True),
                   tc_policy=T.int)


# the handler in place when a switch is requested: none yet, or a handler of *any* version class (a switch to v4 after
# a later reset starts from the handler the previous negotiation installed -- every newer class derives from EZSPv4, so
# "is it already an instance of the requested class" is not "is it the requested class")
EZ_SWITCH = ClassSpec(
    "bellows.ezsp.EZSP",
    fields={**EZ.fields, "_protocol": T.oneof(T.none, *[_handler_of(k) for _v, k in sorted(ezsp.EZSP._BY_VERSION.items())])},
    invariants=[],
    interference=["_callbacks"],
)


@contract("bellows.ezsp.EZSP._switch_protocol_version", props=["C09"])
def _(c):
    c.self(EZ_SWITCH)
    c.effect_name = "ezsp.switch_protocol_version"
    c.arg("version", T.range(4, 255))
    # "adopts the version the NCP reports - its own command tables for supported versions, the newest
    #  known tables for newer ones"
    c.ensures("post.version_recorded", lambda self, version: self._ezsp_version == version)
    c.ensures(
        "post.handler_tables",
        lambda self, version: self._protocol is not None
        and all(implies(version == v, type(self._protocol) is k) for v, k in ezsp.EZSP._BY_VERSION.items())
        and implies(version not in ezsp.EZSP._BY_VERSION, type(self._protocol) is handler_class_for(255)),
    )
    c.ensures(
        "post.handler_wired_to_this_link",
        lambda self: self._protocol._gw is self._gw and fresh_handler_state(self._protocol),
    )
    c.modifies("self._ezsp_version", "self._protocol")


def _switch_post_call(I, b):
    """post-state of _switch_protocol_version at call sites, as established by its own proof
    (post.version_recorded, post.handler_tables, post.handler_wired_to_this_link)"""
    import z3

    from pyvc.interp import int_term
    from pyvc.values import SObj

    so, version = b["self"], b["version"]
    table = sorted(ezsp.EZSP._BY_VERSION.items())
    vt = int_term(version)
    conds = [vt == v for v, _k in table] + [z3.And([vt != v for v, _k in table])]
    k = I.ctx.choose_feasible(conds)
    cls = table[k][1] if k < len(table) else handler_class_for(255)
    so.fields["_protocol"] = SObj(cls, {"_gw": so.fields.get("_gw"), "_seq": 0, "_awaiting": {}, "tc_policy": 0})
    so.fields["_ezsp_version"] = version


_REG.contracts["bellows.ezsp.EZSP._switch_protocol_version"].post_call = _switch_post_call


def fresh_handler_state(p):
    return p._seq == 0 and p._awaiting == {}


@contract("bellows.ezsp.EZSP.reset", props=["C09", "C10"])
def _(c):
    c.self(EZ_BRINGUP)
    c.effect_name = "ezsp.reset"
    c.requires("pre.connected", lambda self: self._gw is not None)
    c.raises("timeout", TimeoutError)
    c.raises("link", ConnectionResetError)
    c.raises("cancelled", asyncio.CancelledError)
    # commands are refused while the ASH reset handshake is running
    c.at_effect("gw.reset", "stopped_before_reset", lambda self: not self._ezsp_event.is_set())
    c.ensures("post.one_handshake", lambda fx: len([r for r in fx if r[0] == "gw.reset"]) <= 1, on="any")
    # "After every later reset, framing falls back to the legacy format until negotiation is repeated"
    c.ensures(
        "post.legacy_handler_after_reset",
        lambda self: self._protocol is not None
        and type(self._protocol) is v4.EZSPv4
        and self._ezsp_version == 4
        and self._ezsp_event.is_set(),
    )
    c.ensures(
        "post.handshake_completed_first",
        lambda fx: [r[2] for r in fx if r[0] == "await" and r[1] == "gw.reset"] == ["return"],
    )
    c.ensures("post.stays_stopped_on_failure", lambda self: not self._ezsp_event.is_set(), on="raise")
    c.modifies("self._ezsp_version", "self._protocol")


_REG.contracts["bellows.ezsp.EZSP.reset"].post_call = lambda I, b: _switch_post_call(I, {"self": b["self"], "version": 4})


def commands_issued(fx):
    return [(r[2], r[3]) for r in fx if r[0] == "call" and r[1] == "ezsp.command"]


@contract("bellows.ezsp.EZSP.version", props=["C09"])
def _(c):
    c.self(EZ_BRINGUP)
    c.effect_name = "ezsp.version"
    c.requires("pre.handler_installed", lambda self: self._protocol is not None)
    c.raises("timeout", TimeoutError)
    c.raises("not_running", EzspError)
    c.raises("cancelled", asyncio.CancelledError)
    c.raises("no_protocol", AttributeError)
    # first query: in whatever format is active, asking for the currently assumed version
    c.ensures(
        "post.first_query",
        lambda self, fx: commands_issued(fx)[0] == (("version",), {"desiredProtocolVersion": old(self._ezsp_version)}),
    )
    # "adopts the version the NCP reports ... confirms it with a second query in the new format when it differs"
    c.ensures(
        "post.second_query_iff_version_differs",
        lambda self, fx: len(commands_issued(fx)) == (2 if reported_version(fx) != old(self._ezsp_version) else 1)
        and all(q == (("version",), {"desiredProtocolVersion": reported_version(fx)}) for q in commands_issued(fx)[1:]),
    )
    c.ensures(
        "post.switch_between_the_queries",
        lambda fx: implies(
            len(commands_issued(fx)) == 2,
            [r[0] for r in fx if r[0] == "ezsp.switch_protocol_version" or (r[0] == "call" and r[1] == "ezsp.command")]
            == ["call", "ezsp.switch_protocol_version", "call"]
            and [r[2] for r in fx if r[0] == "ezsp.switch_protocol_version"] == [(reported_version(fx),)],
        ),
    )
    c.ensures("post.adopted", lambda self, fx: self._ezsp_version == reported_version(fx))
    c.modifies("self._ezsp_version", "self._protocol")


def reported_version(fx):
    return [r[2] for r in fx if r[0] == "ret" and r[1] == "ezsp.command"][0][0]


PHV4 = ClassSpec("bellows.ezsp.v4.EZSPv4", fields=dict(_seq=T.range(0, 255), _gw=T.opaque, tc_policy=T.int))


@contract("bellows.ezsp.EZSP.startup_reset", props=["C09"])
def _(c):
    c.self(EZ_BRINGUP, _protocol=T.opt(T.obj(PHV4)))
    # call sites (EZSP.initialize, ControllerApplication.connect): a freshly connected object
    c.requires(
        "pre.fresh_connected_object",
        lambda self: self._gw is not None
        and self._protocol is not None
        and type(self._protocol) is v4.EZSPv4
        and self._ezsp_version == 4
        and not self._ezsp_event.is_set(),
    )
    c.raises("timeout", TimeoutError)
    c.raises("link", ConnectionResetError)
    c.raises("not_running", EzspError)
    c.raises("cancelled", asyncio.CancelledError)
    c.raises("no_protocol", AttributeError)
    # "connecting performs the ASH reset handshake, sends the first version query in the legacy frame
    #  format ...": every normal return went through version() last, after either our own reset or the
    #  NCP's spontaneous start-up reset (socket paths)
    c.ensures(
        "post.reset_then_version",
        lambda fx: [r[1] for r in fx if r[0] == "call" and r[1] in ("ezsp.reset", "ezsp.version")]
        in (["ezsp.reset", "ezsp.version"], ["ezsp.version"]),
    )
    c.ensures(
        "post.no_own_reset_only_if_startup_reset_seen",
        lambda fx: implies(
            [r[1] for r in fx if r[0] == "call" and r[1] == "ezsp.reset"] == [],
            [r[2] for r in fx if r[0] == "await" and r[1] == "gw.wait_for_startup_reset"] == ["return"],
        ),
    )
    # "spontaneous start-up reset seen, late or absent": the wait is bounded
    c.ensures(
        "post.startup_wait_bounded",
        lambda fx: all(
            [q[2][0] for q in fx[: pos(fx, r)] if q[0] == "timeout.armed"] == [ezsp.NETWORK_COORDINATOR_STARTUP_RESET_WAIT]
            for r in fx
            if r[0] == "await" and r[1] == "gw.wait_for_startup_reset"
        ),
        on="any",
    )
    # the first version query is framed by the legacy handler: at the call of version() the handler is v4
    c.ensures(
        "post.legacy_handler_at_first_query",
        lambda fx: all(r[2]["handler"] is v4.EZSPv4 and r[2]["version"] == 4 for r in fx if r[0] == "observe" and r[1] == "call:ezsp.version"),
        on="any",
    )
    c.observe(lambda self: {"handler": type(self._protocol), "version": self._ezsp_version})
    c.modifies("self._ezsp_version", "self._protocol")


def _native_default_response(self_, args, kwargs):
    """replay stub of an NCP command beyond the scripted part: a well-formed all-zero (success) response
    built from the live rx schema of the installed handler"""
    name = args[0]
    proto = self_._protocol
    rx = type(proto).COMMANDS[name][2]
    out = []
    for ty in rx.values():
        try:
            if isinstance(ty, type) and issubclass(ty, bytes):
                out.append(ty(bytes(8)))
                continue
            out.append(ty(0))
        except Exception:
            try:
                out.append(ty())
            except Exception:
                out.append(None)
    return out


_REG.contracts["bellows.ezsp.EZSP._command"].native_default = _native_default_response


def pos(fx, r):
    """position of the record r itself (identity, not equality) in the effects list"""
    return [i for i, q in enumerate(fx) if q is r][0]


# ---------------------------------------------------------------------------
# EZSP.connect / EZSP.initialize (C09 "connecting ... sends the first version query in the legacy frame format"):
# the state startup_reset is entitled to assume (pre.fresh_connected_object) is established here, and initialize is
# one of its two call sites -- the precondition is checked at that call
# ---------------------------------------------------------------------------
@contract("bellows.uart.connect", props=["C09"])
def _(c):
    c.trusted = True  # serial / thread set-up (zigpy.serial, EventLoopThread): outside this property
    c.effect_name = "uart.connect"
    c.is_async = True
    c.returns(T.ext(GATEWAY_PROXY))
    c.raises("cannot_open", OSError)
    c.raises("timeout", TimeoutError)
    c.raises("cancelled", asyncio.CancelledError)


@contract("bellows.ezsp.EZSP.connect", props=["C09"])
def _(c):
    c.self(EZ_BRINGUP, _gw=T.none, _protocol=T.none, _ezsp_version=T.const(4))
    c.effect_name = "ezsp.connect"
    c.arg("use_thread", T.bool)
    c.raises("cannot_open", OSError)
    c.raises("timeout", TimeoutError)
    c.raises("cancelled", asyncio.CancelledError)
    # the link is opened for this object's device configuration with this object as the receiver of frames
    c.ensures(
        "post.link_opened_for_this_object",
        lambda self, use_thread, fx: [(r[2], r[3]) for r in fx if r[0] == "call" and r[1] == "uart.connect"]
        == [((self._config, self), {"use_thread": use_thread})],
        on="any",
    )
    # "sends the first version query in the legacy frame format": a legacy (v4) handler wired to the new link is
    # installed, the assumed version stays 4, the layer is not running yet
    c.ensures(
        "post.legacy_handler_on_the_new_link",
        lambda self, fx: self._gw is [r[2] for r in fx if r[0] == "ret" and r[1] == "uart.connect"][0]
        and self._protocol is not None and type(self._protocol) is v4.EZSPv4
        and self._protocol._gw is self._gw and fresh_handler_state(self._protocol)
        and self._ezsp_version == 4,
    )
    c.ensures("post.nothing_installed_on_failure", lambda self: self._protocol is None, on="raise")
    c.modifies("self._gw", "self._protocol")


def _connect_post_call(I, b):
    """post-state of EZSP.connect at call sites, as established by its own proof (post.legacy_handler_on_the_new_link)"""
    from pyvc.values import SObj

    so = b["self"]
    gw = T.ext(GATEWAY_PROXY).fresh(I, "gateway")
    so.fields["_gw"] = gw
    so.fields["_protocol"] = SObj(v4.EZSPv4, {"_gw": gw, "_seq": 0, "_awaiting": {}, "tc_policy": 0})


_REG.contracts["bellows.ezsp.EZSP.connect"].post_call = _connect_post_call


class _ZigpyConfigT:
    def fresh(self, I, name):
        import bellows.config as conf

        return {conf.CONF_DEVICE: T.opaque.fresh(I, "device_config"), conf.CONF_USE_THREAD: T.bool.fresh(I, "use_thread")}


@contract("bellows.ezsp.EZSP.initialize", props=["C09"])
def _(c):
    c.arg("cls", T.const(ezsp.EZSP))
    c.arg("zigpy_config", _ZigpyConfigT())
    c.raises("cannot_open", OSError)
    c.raises("timeout", TimeoutError)
    c.raises("link", ConnectionResetError)
    c.raises("not_running", EzspError)
    c.raises("cancelled", asyncio.CancelledError)
    c.raises("no_protocol", AttributeError)
    # bring-up order: connect (legacy handler), then the start-up reset / version negotiation on that very object
    c.ensures(
        "post.connect_then_startup_reset",
        lambda result, fx: [r[1] for r in fx if r[0] == "call" and r[1] in ("ezsp.connect", "bellows.ezsp.EZSP.startup_reset")]
        == ["ezsp.connect", "bellows.ezsp.EZSP.startup_reset"],
    )
    # a bring-up that fails (an error, not a cancellation of the caller) after the link was opened closes it again
    c.ensures(
        "post.closed_when_bring_up_fails",
        lambda raised, fx: implies(
            isinstance(raised, Exception)
            and [r for r in fx if r[0] == "call" and r[1] == "bellows.ezsp.EZSP.startup_reset"] != [],
            len([r for r in fx if r[0] == "call" and r[1] in ("ezsp.close", "bellows.ezsp.EZSP.close")]) == 1,
        ),
        on="raise",
    )


# asyncio.Event() as created by EZSP.__init__: the EVENT collaborator, not set
from pyvc.contracts import constructor as _constructor  # noqa: E402


@_constructor(asyncio.Event)
def _(I, cls, args, kwargs):
    from pyvc.values import SObj

    return SObj(EVENT, {"flag": False}, tag="event")


# ---------------------------------------------------------------------------
# EZSP.__getattr__ (C10 "new commands raise immediately and write nothing to the port", C06): every NCP command
# attribute is the gated _command of that name -- the code under analysis reaches NCP commands only this way, so the
# real __getattr__ runs from its source at every such call site; this lemma states the routing on its own
# ---------------------------------------------------------------------------
async def issue_commands_by_attribute(ez, value_id):
    await ez.nop()
    return await ez.getValue(valueId=value_id)


def gated_commands(fx):
    return [(r[2], r[3]) for r in fx if r[0] == "call" and r[1] == "ezsp.command"]


@contract("contracts.ezsp.issue_commands_by_attribute", props=["C10", "C06"])
def _(c):
    c.arg("ez", T.obj(ClassSpec("bellows.ezsp.EZSP", fields={**EZ.fields, "_protocol": T.obj(ClassSpec("bellows.ezsp.v8.EZSPv8", fields=dict(_seq=T.range(0, 255))))}, interference=["_callbacks"])))
    c.arg("value_id", T.enum(t.EzspValueId))
    c.raises("not_running", EzspError)
    c.raises("timeout", TimeoutError)
    c.raises("cancelled", asyncio.CancelledError)
    c.ensures(
        "post.every_command_attribute_is_the_gated_command_of_that_name",
        lambda value_id, fx: gated_commands(fx) == [(("nop",), {}), (("getValue",), {"valueId": value_id})],
    )
    c.ensures(
        "post.gate_first_on_failure_too",
        lambda value_id, fx: gated_commands(fx) in ([(("nop",), {})], [(("nop",), {}), (("getValue",), {"valueId": value_id})]),
        on="raise",
    )
    # nothing reaches the protocol handler or the link except through the gate
    c.ensures(
        "post.no_ungated_path",
        lambda fx: all(not (r[0].startswith("protocol.") or r[0].startswith("gw.")) for r in fx),
        on="any",
    )


# the state a new EZSP object starts in (C10: "_callbacks: more than the built-in one means an application is attached";
# C17: stack-status events reach the listeners through the built-in callback; commands are refused until bring-up)
def new_ezsp(device_config):
    return ezsp.EZSP(device_config)


@contract("contracts.ezsp.new_ezsp", props=["C10", "C09"])
def _(c):
    c.arg("device_config", T.opaque)
    c.ensures(
        "post.initial_state",
        lambda result, device_config: result._gw is None
        and result._protocol is None
        and result._ezsp_version == 4
        and not result._ezsp_event.is_set(),
    )
    c.ensures(
        "post.only_the_builtin_stack_status_callback",
        lambda result: len(result._callbacks) == 1
        and all(cb.__func__ is ezsp.EZSP.stack_status_callback and cb.__self__ is result for cb in result._callbacks.values()),
    )
