"""Contracts on bellows/ezsp/__init__.py: the EZSP object (C06, C08, C09, C10, C16, C17)."""
import asyncio

import bellows.ezsp as ezsp
import bellows.ezsp.v4 as v4
import bellows.types as t
from bellows.exception import EzspError

from contracts.ezsp_protocol import GATEWAY_PROXY
from pyvc.calls import ExtMethod
from pyvc.contracts import ClassSpec, T, contract
from pyvc.ext import effect, ext_class, field

# ---------------------------------------------------------------------------
# collaborators
# ---------------------------------------------------------------------------
EVENT = ext_class(
    "event",
    fields={"flag": T.bool},
    set=effect(sets={"flag": True}),
    clear=effect(sets={"flag": False}),
    is_set=field("flag"),
)
# a registered callback: any callable; may raise any Exception
CALLBACK = ext_class("callback", __call__=ExtMethod("__call__", effect=True, raises=[ValueError]))
# the active protocol handler seen from EZSP.frame_received: callable, may raise any Exception
PROTO_RX = ext_class(
    "protocol",
    __call__=ExtMethod("__call__", effect=True, raises=[ValueError, AssertionError, IndexError, KeyError]),
)


def _proto_dynamic(name):
    # attribute of the protocol handler looked up by command name: an async command call
    return ExtMethod("command:" + (name if isinstance(name, str) else "<name>"), effect=True, is_async=True,
                     raises=[asyncio.TimeoutError, EzspError],
                     returns=lambda I, s, a, k: T.opaque.fresh(I, "response"))


PROTO_RX.dynamic = _proto_dynamic

EZ = ClassSpec(
    "bellows.ezsp.EZSP",
    fields=dict(
        _config=T.opaque,
        _callbacks=T.map(T.ext(CALLBACK), card=True),
        _ezsp_event=T.ext(EVENT),
        _ezsp_version=T.range(4, 255),
        _gw=T.opt(T.ext(GATEWAY_PROXY)),
        _protocol=T.opt(T.ext(PROTO_RX)),
        _stack_status_listeners=T.opaque,
    ),
    invariants=[],
    interference=["_callbacks", "_ezsp_version", "_gw", "_protocol"],
)


def cb_calls(fx):
    return [r for r in fx if r[0] == "callback.__call__" or r[0] == "callback.__call__!raise"]


def _arbitrary_callback(I, b):
    from pyvc import smap

    k0 = T.int.fresh(I, "k0")
    b["k0"] = k0
    smap.find_slot(I, b["self"].fields["_callbacks"], k0.t)


# ---------------------------------------------------------------------------
# callbacks (C06: "delivered to the registered callbacks exactly once")
# ---------------------------------------------------------------------------
@contract("bellows.ezsp.EZSP.handle_callback", props=["C06", "C10"])
def _(c):
    c.self(EZ)
    c.effect_name = "ezsp.handle_callback"
    c.cases(
        ("frame", {"args": T.tuple(T.str, T.opaque)}),
        ("reset_request", {"args": T.const(("_reset_controller_application", ("error",)))}),
    )
    c.setup = _arbitrary_callback
    # every registered callback is invoked exactly once with the arguments; an exception raised by one
    # handler does not stop the others and does not escape
    c.ensures(
        "post.each_registered_callback_once",
        lambda self, args, k0, fx: implies(
            k0 in self._callbacks,
            len([r for r in cb_calls(fx) if r[1] is self._callbacks[k0]]) == 1
            and all(r[2] == args for r in cb_calls(fx) if r[1] is self._callbacks[k0]),
        ),
    )
    c.ensures("post.registry_unchanged", lambda self: unchanged_except(self._callbacks, old(self._callbacks), []))
    c.modifies("self._callbacks.*")


@contract("bellows.ezsp.EZSP.frame_received", props=["C08"])
def _(c):
    c.self(EZ)
    c.arg("data", T.bytes)
    # "the receive entry point never raises": no raises clause -- any exception on any path is a failed obligation
    c.ensures(
        "post.handed_to_protocol_iff_configured_and_nonempty",
        lambda self, data, fx: len([r for r in fx if r[0] in ("protocol.__call__", "protocol.__call__!raise")])
        == (1 if (old(self._protocol) is not None and len(data) > 0) else 0)
        and all(r[2] == (data,) for r in fx if r[0] in ("protocol.__call__", "protocol.__call__!raise")),
    )
    c.modifies()


# ---------------------------------------------------------------------------
# failure reporting (C10)
# ---------------------------------------------------------------------------
@contract("bellows.ezsp.EZSP.close", props=["C10", "C09"])
def _(c):
    c.self(EZ)
    c.effect_name = "ezsp.close"
    c.ensures("post.stopped", lambda self: not self._ezsp_event.is_set())
    c.ensures(
        "post.gateway_closed_and_dropped",
        lambda self, fx: self._gw is None
        and len([r for r in fx if r[0] == "gw.close"]) == (1 if old(self._gw) is not None else 0),
    )
    c.modifies("self._gw")


@contract("bellows.ezsp.EZSP.enter_failed_state", props=["C10"])
def _(c):
    c.self(EZ)
    c.effect_name = "ezsp.enter_failed_state"
    c.arg("error", T.opaque)
    # "once an application callback is registered, the application receives a controller-reset request,
    #  the EZSP layer is stopped": exactly one _reset_controller_application request through the
    #  callbacks, after the layer was closed
    c.ensures(
        "post.reset_requested_once_iff_application_registered",
        lambda self, error, fx: len([r for r in fx if r[0] == "ezsp.handle_callback"])
        == (1 if old(len(self._callbacks)) > 1 else 0)
        and all(r[2] == ("_reset_controller_application", (error,)) for r in fx if r[0] == "ezsp.handle_callback"),
    )
    c.ensures(
        "post.closed_before_request",
        lambda self, fx: implies(
            old(len(self._callbacks)) > 1,
            [r[0] for r in fx if r[0] in ("ezsp.close", "ezsp.handle_callback")] == ["ezsp.close", "ezsp.handle_callback"],
        ),
    )
    c.modifies("self._gw", "self._callbacks.*")


@contract("bellows.ezsp.EZSP.connection_lost", props=["C10"])
def _(c):
    c.self(EZ)
    c.arg("exc", T.opaque)
    c.ensures("post.enters_failed_state_once", lambda fx: len([r for r in fx if r[0] == "ezsp.enter_failed_state"]) == 1)
    c.modifies("self._gw", "self._callbacks.*")


@contract("bellows.ezsp.EZSP._command", props=["C10", "C09"])
def _(c):
    c.self(EZ)
    c.effect_name = "ezsp.command"
    c.cases(("nop", {"name": T.const("nop")}), ("any", {"name": T.str}))
    # "the EZSP layer is stopped so that new commands raise immediately and write nothing to the port"
    c.raises("not_running", EzspError)
    c.raises("timeout", TimeoutError)
    c.raises("no_protocol", AttributeError)
    c.raises("cancelled", asyncio.CancelledError)
    c.ensures(
        "post.stopped_layer_refuses_without_effect",
        lambda self, raised, fx: implies(
            not old(self._ezsp_event.is_set()) and old(self._protocol) is not None,
            type(raised) is EzspError and [r for r in fx if r[0] != "observe"] == [],
        ),
        on="raise",
    )
    c.ensures("post.returns_only_when_running", lambda self: old(self._ezsp_event.is_set()))
    c.modifies()
