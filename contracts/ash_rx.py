"""C02: the receive callback AshProtocol.data_received (scanner over the byte stream).

Proved here (for every buffer content, every chunk, every state, no length bound): totality (nothing raises
out of the callback), bounded memory, termination of the scanning loop, and for every single iteration of the
scanner -- from an arbitrary state at the loop head -- what it delivers / answers: a frame is handed up only
as parse_frame(_unstuff_bytes(F)) of a FLAG-terminated run F free of reserved bytes taken from the front of the
buffer; a run that does not decode is answered by exactly one CANCEL-prefixed NAK carrying the expected number;
CANCEL / SUBSTITUTE / XON / XOFF deliver nothing.  The component decoders are the contracts of ash_wire.py.
Equality with the specification-derived reference decoder over whole streams and all chunkings is backed by
the bounded stand-in below (labelled bounded).
"""
import bellows.ash as ash
import bellows.types as t

from contracts import index as _index
from contracts.ash import ASH, NakFrameT, frames_written, transport_open, transport_writes, upward
from pyvc.contracts import REGISTRY, T, contract

FLAG, CANCEL, SUBSTITUTE, XON, XOFF = 0x7E, 0x1A, 0x18, 0x11, 0x13
# the reserved bytes that act on framing wherever they appear (UG101: Flag, Cancel, Substitute, XON, XOFF) -- the
# specification's set, not a constant of the code
RWE = (FLAG, CANCEL, SUBSTITUTE, XON, XOFF)

# frame_received: what it may change (union of the handlers' proved frames)
_fr = REGISTRY.contracts["bellows.ash.AshProtocol.frame_received"]
_fr.modifies("self._rx_seq", "self._tx_seq", "self._ncp_state", "self._ncp_reset_code", "self._t_rx_ack",
             "self._pending_data_frames.*")
_fr.effect_name = "ash.frame_received"


def calls_of(fx, name):
    return [r for r in fx if r[0] == "call" and r[1] == name]


def rets_of(fx, name):
    return [r[2] for r in fx if r[0] == "ret" and r[1] == name]


def handed_up(fx):
    return [r[2][0] for r in fx if r[0] == "call" and r[1] == "ash.frame_received"]


def naks_written(fx):
    return [r for r in fx if r[0] == "call" and r[1] == "ash.write_frame"]


def no_reserved(b):
    return forall(0, len(b), lambda j: b[j] not in RWE)


# ---- the scanner step, clause by clause as in lean/AshScanner.lean (relation `Step`, exits `Final`) ----------------
def runs_decoded(fx):
    """the raw runs handed to the decoder in this iteration"""
    return [r[2][0] for r in fx if r[0] == "call" and r[1] == "bellows.ash.AshProtocol._unstuff_bytes"]


def found_index(fx):
    """index (in the scanned part) of the first reserved byte the scan of this iteration found"""
    return [r[2][0] for r in fx if r[0] == "scan.first_match"][0]


def found_byte(fx):
    return [r[2][1] for r in fx if r[0] == "scan.first_match"][0]


def scanned(P, d0):
    """the part of the old buffer that this iteration scans: all of it normally; while discarding, what follows the
    FIRST flag byte (bytes.partition splits at the first occurrence, so nothing in front of it is a FLAG: Step.resync)"""
    return P.partition(bytes([FLAG]))[2] if d0 else P


def step_first_reserved_ok(S, r, c):
    """noRWE x for the bytes x = S[:r] in front of the reserved byte found, which is the byte at r"""
    return r >= 0 and forall(0, r, lambda j: S[j] not in RWE) and S[r] == c and c in RWE


def step_kept_after_delimiter_ok(S, Pn, r, c):
    """Step.flag / cancel / substitute keep exactly what follows the reserved byte"""
    return implies(c == FLAG or c == CANCEL or c == SUBSTITUTE, Pn == S[r + 1 :])


def step_kept_after_flow_control_ok(S, Pn, r, c):
    """Step.xonxoff: only the XON / XOFF byte itself is removed"""
    return implies(c == XON or c == XOFF, len(Pn) == len(S) - 1 and Pn[:r] == S[:r] and Pn[r:] == S[r + 1 :])


def step_discard_flag_ok(dn, c):
    """discarding afterwards iff the byte was SUBSTITUTE"""
    return dn == (c == SUBSTITUTE)


def step_runs_ok(S, r, c, runs):
    """the run handed to the decoder: the non-empty run in front of a FLAG, nothing otherwise"""
    return implies(c == FLAG and r > 0, len(runs) == 1 and runs[0] == S[:r]) and implies(not (c == FLAG and r > 0), runs == [])


def exit_ok(P, Pn, d0, dn):
    """Final.discarding: discarding and no FLAG in sight, everything dropped; Final.idle: nothing reserved in the
    scanned part, which is kept as the residue"""
    return (d0 and dn and len(Pn) == 0 and bytes([FLAG]) not in P) or (
        not dn and implies(d0, bytes([FLAG]) in P) and Pn == scanned(P, d0) and forall(0, len(Pn), lambda j: Pn[j] not in RWE)
    )


@contract("bellows.ash.AshProtocol.data_received", props=["C02"])
def _(c):
    c.self(ASH)
    c.arg("data", T.bytes)
    # "whose unterminated residue stays below the receive-buffer bound" + the property's frames are well-formed
    # peers' frames: the transport is open while receiving
    c.requires("pre.transport_open", lambda self: transport_open(self))
    c.requires("pre.buffer_within_bound", lambda self: len(self._buffer) <= ash.MAX_BUFFER_SIZE)
    # "Arbitrary bytes never raise out of the receive callback": no raises clause at all
    # "memory held for an unterminated frame stays bounded however much garbage arrives"
    c.ensures("post.memory_bounded", lambda self: len(self._buffer) <= ash.MAX_BUFFER_SIZE)
    c.loop(
        0,
        invariants=[
            ("buffer_bounded", lambda self: len(self._buffer) <= ash.MAX_BUFFER_SIZE),
            ("rx_seq_3bit", lambda self: 0 <= self._rx_seq < 8),
            ("tx_seq_3bit", lambda self: 0 <= self._tx_seq < 8),
            ("ack_timeout_clamped", lambda self: ash.T_RX_ACK_MIN <= self._t_rx_ack <= ash.T_RX_ACK_MAX),
            ("transport_open", lambda self: transport_open(self)),
        ],
        # the scanner cannot hang: every iteration that continues consumes at least one byte
        variant=lambda self: len(self._buffer),
        each=[
            # at most one thing happens per iteration: one frame handed up, or one NAK written
            (
                "one_action_at_most",
                lambda fx: len(handed_up(fx)) + len(naks_written(fx)) <= 1 and transport_writes(fx) == [] and upward(fx) == [],
            ),
            # a frame is handed up only as parse_frame(_unstuff_bytes(F)) ...
            (
                "delivery_is_decode_of_a_flag_terminated_run",
                lambda fx: all(
                    len(rets_of(fx, "bellows.ash.parse_frame")) == 1
                    and f is rets_of(fx, "bellows.ash.parse_frame")[0]
                    and len(calls_of(fx, "bellows.ash.parse_frame")) == 1
                    and calls_of(fx, "bellows.ash.parse_frame")[0][2][0] is rets_of(fx, "bellows.ash.AshProtocol._unstuff_bytes")[0]
                    for f in handed_up(fx)
                ),
            ),
            # ... of a non-empty run F taken from the front of the buffer: everything before the first reserved byte
            # (other than ESCAPE), which is a FLAG; the run and the FLAG are consumed, nothing else
            (
                "the_run_is_the_front_of_the_buffer_up_to_a_flag",
                lambda self, fx: implies(
                    not old(self._discarding_until_next_flag),
                    all(
                        len(r[2][0]) > 0
                        and r[2][0] == old(self._buffer)[: found_index(fx)]
                        and old(self._buffer)[found_index(fx)] == FLAG
                        and self._buffer == old(self._buffer)[found_index(fx) + 1 :]
                        for r in calls_of(fx, "bellows.ash.AshProtocol._unstuff_bytes")
                    ),
                ),
            ),
            # "a frame with an invalid CRC or invalid escape never produces an upward delivery": a run that does
            # not decode is answered with exactly one CANCEL-prefixed NAK carrying the next expected number
            (
                "undecodable_run_is_nakked",
                lambda self, fx: implies(
                    len(calls_of(fx, "bellows.ash.AshProtocol._unstuff_bytes")) == 1 and handed_up(fx) == [],
                    len(naks_written(fx)) == 1
                    and naks_written(fx)[0][2][0] == ash.NakFrame(res=0, ncp_ready=0, ack_num=old(self._rx_seq))
                    and naks_written(fx)[0][3] == {"prefix": (ash.Reserved.CANCEL,)},
                ),
            ),
            (
                "nak_only_for_an_undecodable_run",
                lambda fx: implies(len(naks_written(fx)) == 1, len(calls_of(fx, "bellows.ash.AshProtocol._unstuff_bytes")) == 1 and handed_up(fx) == []),
            ),
            # discard mode: nothing is decoded until a FLAG has been seen; without one the buffer is dropped
            (
                "discarding_drops_up_to_the_next_flag",
                lambda self, fx, broke: implies(
                    old(self._discarding_until_next_flag) and bytes([FLAG]) not in old(self._buffer),
                    broke and len(self._buffer) == 0 and fx == [] and self._discarding_until_next_flag,
                ),
            ),
            # nothing is lost or invented: the buffer only shrinks
            ("buffer_only_shrinks", lambda self: len(self._buffer) <= old(len(self._buffer))),
            # the iteration IS a step of the specification scanner (lean/AshScanner.lean: Step), or an exit (Final)
            # (the reserved byte found and its index are taken from the record of the scan, not from the code's locals)
            ("step.first_reserved_byte", lambda self, broke, fx: implies(
                not broke, step_first_reserved_ok(scanned(old(self._buffer), old(self._discarding_until_next_flag)), found_index(fx), found_byte(fx)))),
            ("step.kept_after_a_delimiter", lambda self, broke, fx: implies(
                not broke, step_kept_after_delimiter_ok(scanned(old(self._buffer), old(self._discarding_until_next_flag)), self._buffer,
                                                        found_index(fx), found_byte(fx)))),
            ("step.kept_after_flow_control", lambda self, broke, fx: implies(
                not broke, step_kept_after_flow_control_ok(scanned(old(self._buffer), old(self._discarding_until_next_flag)), self._buffer,
                                                           found_index(fx), found_byte(fx)))),
            ("step.discard_flag", lambda self, broke, fx: implies(
                not broke, step_discard_flag_ok(self._discarding_until_next_flag, found_byte(fx)))),
            ("step.run_handed_to_the_decoder", lambda self, broke, fx: implies(
                not broke, step_runs_ok(scanned(old(self._buffer), old(self._discarding_until_next_flag)), found_index(fx), found_byte(fx), runs_decoded(fx)))),
            # ... or an exit of it (Final.idle / Final.discarding), handing nothing up
            ("exit.final_configuration", lambda self, broke, fx: implies(
                broke, runs_decoded(fx) == [] and exit_ok(old(self._buffer), self._buffer, old(self._discarding_until_next_flag), self._discarding_until_next_flag))),
        ],
    )
    # after the callback the residue contains no frame delimiter: everything decodable was decoded
    c.ensures(
        "post.residue_has_no_reserved_byte",
        lambda self: no_reserved(self._buffer),
    )
    c.ensures(
        "post.discarding_implies_empty_residue",
        lambda self: implies(self._discarding_until_next_flag, len(self._buffer) == 0),
    )
    c.modifies("self._buffer", "self._discarding_until_next_flag", "self._rx_seq", "self._tx_seq", "self._ncp_state",
               "self._ncp_reset_code", "self._t_rx_ack", "self._pending_data_frames.*")


# ---------------------------------------------------------------------------
# bounded stand-in: whole streams x all chunkings against a byte-at-a-time reference decoder (UG101)
# ---------------------------------------------------------------------------
def _reference_decode(stream):
    """specification-derived decoder, one byte at a time: list of ("frame", fields) / ("undecodable",)"""
    from contracts.ash_wire import SPEC_SEQ, spec_crc

    events, buf, discarding = [], [], False

    def finish(raw):
        out, i = [], 0
        while i < len(raw):
            b = raw[i]
            if b == 0x7D:
                if i + 1 >= len(raw):
                    return None
                v = raw[i + 1] ^ 0x20
                if v not in (0x7E, 0x7D, 0x11, 0x13, 0x18, 0x1A):
                    return None
                out.append(v)
                i += 2
            else:
                out.append(b)
                i += 1
        if len(out) < 3 or spec_crc(bytes(out[:-2])) != out[-2] * 256 + out[-1]:
            return None
        ctrl, data = out[0], out[1:-2]
        if ctrl < 0x80:
            if len(data) > 256:
                return None
            return ("DATA", (ctrl >> 4) & 7, (ctrl >> 3) & 1, ctrl & 7, bytes(x ^ SPEC_SEQ[i] for i, x in enumerate(data)))
        if ctrl < 0xA0:
            return ("ACK", (ctrl >> 4) & 1, (ctrl >> 3) & 1, ctrl & 7)
        if ctrl < 0xC0:
            return ("NAK", (ctrl >> 4) & 1, (ctrl >> 3) & 1, ctrl & 7)
        if ctrl == 0xC0:
            return ("RST",) if not data else None
        if ctrl in (0xC1, 0xC2):
            if len(data) != 2 or data[0] != 2:
                return None
            return ("RSTACK" if ctrl == 0xC1 else "ERROR", data[1])
        return None

    for b in stream:
        if b in (0x11, 0x13):
            continue
        if b == 0x18:
            buf, discarding = [], True
        elif b == 0x1A:
            if not discarding:
                buf = []
        elif b == 0x7E:
            if discarding:
                discarding, buf = False, []
            elif buf:
                f = finish(buf)
                events.append(("frame", f) if f is not None else ("undecodable",))
                buf = []
        elif not discarding:
            buf.append(b)
    return events


def _real_decode(chunks):
    # built by the real constructor (whatever bookkeeping it sets up is there), then put into the start state
    try:
        p = ash.AshProtocol(None)
    except Exception:
        p = object.__new__(ash.AshProtocol)
    p._ezsp_protocol = None
    p._transport = None
    p._buffer = bytearray()
    p._discarding_until_next_flag = False
    p._pending_data_frames = {}
    p._tx_seq = p._rx_seq = 0
    p._t_rx_ack = ash.T_RX_ACK_INIT
    p._ncp_reset_code = None
    p._ncp_state = ash.NcpState.CONNECTED
    events = []

    def fr(frame):
        n = type(frame).__name__
        if n == "DataFrame":
            events.append(("frame", ("DATA", frame.frm_num, int(frame.re_tx), frame.ack_num, bytes(frame.ezsp_frame))))
        elif n in ("AckFrame", "NakFrame"):
            events.append(("frame", (n[:3].upper(), frame.res, int(frame.ncp_ready), frame.ack_num)))
        elif n == "RstFrame":
            events.append(("frame", ("RST",)))
        else:
            events.append(("frame", ("RSTACK" if n == "RStackFrame" else "ERROR", int(frame.reset_code))))

    def wf(frame, **kw):
        events.append(("undecodable",))

    p.frame_received = fr
    p._write_frame = wf
    for ch in chunks:
        p.data_received(bytes(ch))
    return events


def _stream_standin(seed, tier):
    import itertools
    import random

    from contracts.ash_wire import spec_crc

    rnd = random.Random(seed)
    ack = bytes([0x81]) + spec_crc(bytes([0x81])).to_bytes(2, "big")
    alphabet = [0x7E, 0x7D, 0x1A, 0x18, 0x11, 0x5E, 0x31, 0x81]
    maxlen = 6 if tier == "thorough" else 4
    evaluations, distinct, failures, samples = 0, 0, [], []

    def check(stream):
        nonlocal evaluations, distinct
        want = _reference_decode(stream)
        n = len(stream)
        cuts_all = range(1 << max(n - 1, 0)) if n <= 7 else [rnd.getrandbits(n - 1) for _ in range(16)]
        distinct += 1
        for mask in cuts_all:
            chunks, cur = [], [stream[0]] if n else []
            for i in range(1, n):
                if mask >> (i - 1) & 1:
                    chunks.append(cur)
                    cur = []
                cur.append(stream[i])
            if cur:
                chunks.append(cur)
            evaluations += 1
            try:
                got = _real_decode(chunks)
            except Exception as e:  # "Arbitrary bytes never raise out of the receive callback"
                got = ("raised", repr(e))
            if got != want:
                failures.append({"obligation": "stream.real_decoder_equals_reference_for_every_chunking",
                                 "inputs": {"stream": bytes(stream).hex(), "chunks": [bytes(c).hex() for c in chunks]},
                                 "expected": repr(want)[:300], "observed": repr(got)[:300]})
                return
        if len(samples) < 3 and want:
            samples.append({"stream": bytes(stream).hex(), "events": repr(want)[:120]})

    for n in range(0, maxlen + 1):
        for tup in itertools.product(alphabet, repeat=n):
            check(list(tup))
            if len(failures) >= 3:
                break
    # one byte longer over the delimiters only (discard / cancel / escape interplay across read boundaries)
    small = [0x7E, 0x18, 0x1A, 0x7D, 0x31]
    for tup in itertools.product(small, repeat=maxlen + 1):
        if len(failures) >= 3:
            break
        check(list(tup))
    # valid frames with inserted / deleted / flipped bytes
    frames = [ack, bytes([0xC1, 0x02, 0x0B]) + spec_crc(bytes([0xC1, 0x02, 0x0B])).to_bytes(2, "big"),
              bytes([0x25, 0x42 ^ 0x00, 0x21 ^ 0x7D]) + spec_crc(bytes([0x25, 0x42, 0x21 ^ 0x7D])).to_bytes(2, "big")]

    def stuffed(raw):
        out = bytearray()
        for b in raw:
            out += bytes([0x7D, b ^ 0x20]) if b in (0x7E, 0x7D, 0x11, 0x13, 0x18, 0x1A) else bytes([b])
        return bytes(out) + b"\x7e"

    for _ in range(300 if tier == "thorough" else 60):
        s = bytearray()
        for _k in range(rnd.randint(1, 3)):
            s += stuffed(rnd.choice(frames))
        for _m in range(rnd.randint(0, 2)):
            op = rnd.choice("idf")
            pos = rnd.randrange(len(s)) if s else 0
            if op == "i":
                s.insert(pos, rnd.choice(alphabet + [rnd.getrandbits(8)]))
            elif op == "d" and s:
                del s[pos]
            elif s:
                s[pos] ^= 1 << rnd.randrange(8)
        check(list(s))
    return {"name": "data_received over whole streams == byte-at-a-time reference decoder, every chunking", "evaluations": evaluations,
            "distinct": distinct, "bound": f"all streams over {len(alphabet)} bytes up to length {maxlen} and over 5 delimiter bytes of length {maxlen + 1}, x all 2^(n-1) chunkings, plus "
            f"mutated concatenations of valid frames (seed {seed}); residue below the buffer bound",
            "samples": samples, "failures": failures[:3], "label": "bounded"}


_index.standin("C02")(_stream_standin)


# ---------------------------------------------------------------------------
# specification-level lemma, machine-checked by Lean 4 (lean/AshScanner.lean): a scanner whose iterations satisfy the
# step.* clauses above and which stops as in exit.final_configuration computes the byte-at-a-time reference decoder,
# for every residue, discard flag and chunk (callback_refines), and the reference decoder does not depend on how the
# stream is cut into reads (run_append, runChunks_eq).  Independent of /repo: it cannot be the reason a code change
# is reported, and it is re-checked on every run (the kernel re-checks every proof term).
# ---------------------------------------------------------------------------
LEAN_THEOREMS = ("Ash.callback_refines", "Ash.runChunks_eq", "Ash.run_append")
LEAN_ALLOWED_AXIOMS = {"propext", "Classical.choice", "Quot.sound"}


def _lean_lemmas(tier):
    import os
    import re
    import shutil
    import subprocess
    import time

    root = os.path.dirname(os.path.dirname(os.path.abspath(__file__)))
    src = os.path.join(root, "lean", "AshScanner.lean")
    out = []
    lean = shutil.which("lean")
    t0 = time.time()
    if lean is None or not os.path.exists(src):
        return [{"name": f"lean::{th}", "verdict": "undecided", "backend": "lean4", "t": 0.0, "detail": "lean or the lemma file is missing"}
                for th in LEAN_THEOREMS]
    text = open(src).read()
    try:
        p = subprocess.run([lean, src], capture_output=True, text=True, timeout=600)
        log = p.stdout + p.stderr
        rc = p.returncode
    except subprocess.TimeoutExpired:
        log, rc = "lean timed out", 1
    dt = time.time() - t0
    for th in LEAN_THEOREMS:
        m = re.search(r"'" + re.escape(th) + r"' (?:depends on axioms: \[([^\]]*)\]|does not depend on any axioms)", log)
        axioms = set(a.strip() for a in (m.group(1) or "").split(",") if a.strip()) if m else None
        ok = rc == 0 and "error" not in log and "sorry" not in text and m is not None and axioms <= LEAN_ALLOWED_AXIOMS
        out.append({"name": f"lean::{th}", "verdict": "proved" if ok else "undecided", "backend": "lean4", "t": dt / len(LEAN_THEOREMS),
                    "detail": (f"lean {os.path.basename(src)}: rc={rc}, axioms={sorted(axioms) if axioms is not None else None}" if ok
                               else f"lean did not accept the lemma file: rc={rc} {log[-400:]}")})
    return out


_index.extra("C02")(_lean_lemmas)
