"""EZSP frame header writers / readers of the three layouts against UG100 (C07; the readers also serve
C06 / C08), for any command table (the command id is symbolic), and their round trip as a lemma."""
import z3

import bellows.ezsp as ezsp_mod
import bellows.ezsp.protocol as protocol
import bellows.ezsp.v4 as v4
import bellows.ezsp.v5 as v5
import bellows.ezsp.v8 as v8
import bellows.types as t

from contracts import index as _index
from pyvc.calls import ExtMethod
from pyvc.contracts import ClassSpec, T, contract, external
from pyvc.ext import effect, ext_class, field
from pyvc.values import ByteSeq, Opaque, OpaqueSort, SBytes, SInt, SObj

# ---------------------------------------------------------------------------
# zigpy fixed-width integers (assumed contract of zigpy.types.basic.FixedIntType, little endian)
# ---------------------------------------------------------------------------


@external("zigpy.types.basic.FixedIntType.deserialize")
def _(I, args, kwargs):
    from pyvc.calls import STypedInt
    from pyvc.interp import PyRaise, bytes_term, bv2int, mk_exc

    cls, data = args
    size = cls._bits // 8
    d = bytes_term(data)
    if not I.ctx.branch(z3.Length(d) >= size):
        raise PyRaise(mk_exc(ValueError, "Data is too short"))
    if getattr(cls, "_signed", False) or getattr(cls, "_byteorder", "little") != "little":
        from pyvc.ctx import Unsupported

        raise Unsupported("signed / big-endian FixedIntType.deserialize")
    from pyvc.interp import mk_extract

    def at(k):
        dd = z3.simplify(d)
        if z3.is_app(dd) and dd.decl().kind() == z3.Z3_OP_SEQ_EXTRACT and z3.is_int_value(z3.simplify(dd.arg(1))):
            return dd.arg(0)[dd.arg(1).as_long() + k]  # in bounds: Length(d) >= size was just established
        return dd[k]

    val = sum(bv2int(at(k)) * (256 ** k) for k in range(size))
    return (STypedInt(z3.simplify(val), cls), SBytes(mk_extract(d, size, z3.Length(d) - size)))


# ---------------------------------------------------------------------------
# header writers / readers
# ---------------------------------------------------------------------------
def _hdr_spec(cls, id_hi):
    return ClassSpec(
        f"{cls.__module__}.{cls.__qualname__}",
        fields=dict(
            _seq=T.range(0, 255),
            # any table whose ids fit this version's id field (table obligation: the live tables do)
            COMMANDS=T.map(T.tuple(T.range(0, id_hi), T.opaque, T.opaque)),
        ),
    )


V4 = _hdr_spec(v4.EZSPv4, 0xFF)
V5 = _hdr_spec(v5.EZSPv5, 0xFF)
V8 = _hdr_spec(v8.EZSPv8, 0xFFFF)


def _writer(spec, qualname, layout):
    @contract(qualname, props=["C07", "C09"])
    def _(c):
        c.self(spec)
        c.arg("name", T.str)
        c.raises("unknown_command", KeyError, when=lambda self, name: name not in self.COMMANDS)
        c.returns(T.bytes)
        # "emits its sequence number, that version's frame-control bytes and its frame ID in that
        #  version's header layout"
        c.ensures("post.header_layout", layout)
        c.modifies()


_writer(V4, "bellows.ezsp.v4.EZSPv4._ezsp_frame_tx",
        lambda self, name, result: result == bytes([self._seq, 0x00, self.COMMANDS[name][0]]))
_writer(V5, "bellows.ezsp.v5.EZSPv5._ezsp_frame_tx",
        lambda self, name, result: result == bytes([self._seq, 0x00, 0xFF, 0x00, self.COMMANDS[name][0]]))
_writer(V8, "bellows.ezsp.v8.EZSPv8._ezsp_frame_tx",
        lambda self, name, result: result
        == bytes([self._seq, 0x00, 0x01, self.COMMANDS[name][0] % 256, self.COMMANDS[name][0] // 256]))


def _reader(spec, qualname, hdr_len, exc, frame_id):
    @contract(qualname, props=["C07", "C08", "C06"])
    def _(c):
        c.self(spec)
        c.arg("data", T.bytes)
        # a frame shorter than the header is refused (truncated frames never decode, C08)
        c.raises("too_short", exc, when=lambda data: len(data) < hdr_len)
        c.returns(T.tuple(T.int, T.int, T.bytes))
        c.ensures(
            "post.fields_by_layout",
            lambda data, result: result[0] == data[0] and result[1] == frame_id(data) and result[2] == data[hdr_len:],
        )
        c.modifies()


_reader(V4, "bellows.ezsp.v4.EZSPv4._ezsp_frame_rx", 3, IndexError, lambda data: data[2])
_reader(V5, "bellows.ezsp.v5.EZSPv5._ezsp_frame_rx", 5, IndexError, lambda data: data[4])
_reader(V8, "bellows.ezsp.v8.EZSPv8._ezsp_frame_rx", 5, Exception, lambda data: data[3] + 256 * data[4])


# round trip, as a lemma over the two contracts of each version (the bodies are not looked at again)
def header_roundtrip(handler, name, payload):
    return handler._ezsp_frame_rx(handler._ezsp_frame_tx(name) + payload)


for _label, _spec in (("v4", V4), ("v5", V5), ("v8", V8)):
    def _mk(label=_label, spec=_spec):
        def header_roundtrip_v(handler, name, payload):
            return handler._ezsp_frame_rx(handler._ezsp_frame_tx(name) + payload)

        header_roundtrip_v.__name__ = header_roundtrip_v.__qualname__ = f"header_roundtrip_{label}"
        globals()[f"header_roundtrip_{label}"] = header_roundtrip_v
    _mk()


def header_roundtrip_v4(handler, name, payload):
    return handler._ezsp_frame_rx(handler._ezsp_frame_tx(name) + payload)


def header_roundtrip_v5(handler, name, payload):
    return handler._ezsp_frame_rx(handler._ezsp_frame_tx(name) + payload)


def header_roundtrip_v8(handler, name, payload):
    return handler._ezsp_frame_rx(handler._ezsp_frame_tx(name) + payload)


for _label, _spec in (("v4", V4), ("v5", V5), ("v8", V8)):
    @contract(f"contracts.codec_headers.header_roundtrip_{_label}", props=["C07"])
    def _(c, spec=_spec):
        c.arg("handler", T.obj(spec))
        c.arg("name", T.str)
        c.arg("payload", T.bytes)
        c.requires("pre.known_command", lambda handler, name: name in handler.COMMANDS)
        # "feeding the encoding ... back through the receive path yields exactly those values": header part
        c.ensures(
            "lemma.rx_inverts_tx",
            lambda handler, name, payload, result: result[0] == handler._seq
            and result[1] == handler.COMMANDS[name][0]
            and result[2] == payload,
        )


