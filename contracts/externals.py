"""Assumed contracts on things outside /repo/bellows (DESIGN 2.5).  Every use is recorded in the
evidence file's trusted_base."""
import binascii

import z3

from pyvc.contracts import external
from pyvc.ext import effect, ext_class, field
from pyvc.interp import bytes_term, int_term
from pyvc.spec import SpecFn
from pyvc.values import SFuture, SInt, SObj, SReal, Sym


def _crc_axioms(I, ts, r):
    return [z3.And(r >= 0, r < 65536)]


# CRC-CCITT (poly 0x1021) of a byte string from a given 16-bit seed.  Uninterpreted in proofs; the
# identification with the specification's bitwise CRC is an assumption validated by a bounded stand-in.
crc_hqx = SpecFn("crc_hqx", ["bytes", "int"], "int", lambda d, s: binascii.crc_hqx(bytes(d), s), _crc_axioms)


@external("binascii.crc_hqx")
def _(I, args, kwargs):
    data, seed = args
    return crc_hqx.apply(I, [data, seed])


@external("time.monotonic")
def _(I, args, kwargs):
    # ghost clock: monotone non-decreasing reals
    now = I.ctx.fresh_real("now")
    last = I.ctx.ghost.get("clock")
    if last is not None:
        I.ctx.assume(now >= last)
    I.ctx.ghost["clock"] = now
    return SReal(now)


LOOP = ext_class("event_loop")


def _create_future(I, self_obj, args, kwargs):
    f = SFuture(0)
    f.fresh_in_call = True
    I.ctx.emit("loop.create_future", f)
    return f


from pyvc.calls import ExtMethod

LOOP.methods["create_future"] = ExtMethod("create_future", fn=_create_future)


def _get_loop(I, args, kwargs):
    cur = I.ctx.ghost.get("running_loop")  # a contract may fix which loop the caller runs on
    if cur is not None:
        return cur
    return SObj(LOOP, {}, tag="loop")


external("asyncio.events.get_running_loop")(_get_loop)
external("asyncio.get_running_loop")(_get_loop)
external("asyncio.events.get_event_loop")(_get_loop)
external("asyncio.get_event_loop")(_get_loop)
external("_asyncio.get_running_loop")(_get_loop)
external("_asyncio.get_event_loop")(_get_loop)


# ---------------------------------------------------------------------------
# asyncio primitives (assumed contracts, DESIGN 2.5)
# ---------------------------------------------------------------------------
from pyvc.asyncrule import ShieldAwait, SleepAwait, TaskAwait, WaitForAwait
from pyvc.withs import TimeoutCM


def _timeout(I, args, kwargs):
    (t,) = args if args else (kwargs.get("delay"),)
    return TimeoutCM(t)


external("asyncio.timeouts.timeout")(_timeout)
external("async_timeout.timeout")(_timeout)


@external("asyncio.tasks.shield")
def _(I, args, kwargs):
    return ShieldAwait(args[0])


@external("asyncio.tasks.sleep")
def _(I, args, kwargs):
    return SleepAwait(args[0])


@external("asyncio.tasks.wait_for")
def _(I, args, kwargs):
    return WaitForAwait(args[0], args[1] if len(args) > 1 else kwargs.get("timeout"))


@external("bellows.ash.create_eager_task")
def _(I, args, kwargs):
    # eager start: the coroutine runs up to its first suspension inside the call; modelled as being
    # awaited at the await of the task (no other code of the caller runs in between at the call sites
    # under contract, which await the task immediately)
    return TaskAwait(args[0])


@external("asyncio.tasks.create_task")
def _(I, args, kwargs):
    I.ctx.emit("asyncio.create_task", None, (args[0],), {})
    return TaskAwait(args[0])


@external("zigpy.types.named.BaseDataclassMixin.replace")
def _(I, args, kwargs):
    """dataclasses.replace on a frozen dataclass instance: a new instance with the given fields changed"""
    from pyvc.values import SObj
    import dataclasses

    (obj,) = args
    if not isinstance(obj, SObj):
        return dataclasses.replace(obj, **kwargs)
    names = {f.name for f in dataclasses.fields(obj.cls)}
    for k in kwargs:
        if k not in names:
            from pyvc.interp import PyRaise, mk_exc

            raise PyRaise(mk_exc(TypeError, f"unexpected field {k}"))
    return SObj(obj.cls, {**obj.fields, **kwargs}, frozen=obj.frozen)


@external("dataclasses.replace")
def _(I, args, kwargs):
    """dataclasses.replace: a new instance of the same dataclass with the given fields changed"""
    import dataclasses

    from pyvc.interp import PyRaise, _has_sym, mk_exc
    from pyvc.values import SObj

    (obj,) = args
    if not isinstance(obj, SObj) and not _has_sym(kwargs):
        try:
            return dataclasses.replace(obj, **kwargs)
        except (TypeError, ValueError) as e:
            raise PyRaise(e)
    if isinstance(obj, SObj):
        cls, cur, frozen = obj.cls, dict(obj.fields), obj.frozen
    else:
        cls = type(obj)
        cur = {f.name: getattr(obj, f.name) for f in dataclasses.fields(obj)}
        frozen = cls.__dataclass_params__.frozen
    names = {f.name for f in dataclasses.fields(cls)}
    for k in kwargs:
        if k not in names:
            raise PyRaise(mk_exc(TypeError, f"unexpected field {k}"))
    return SObj(cls, {**cur, **kwargs}, frozen=frozen)


# int.from_bytes on symbolic bytes: an uninterpreted non-negative function of the bytes (its exact value is
# never used by the functions under contract: it is stored or compared for equality only)
_from_bytes_le = SpecFn("int_from_bytes_le", ["bytes"], "int", lambda d: int.from_bytes(bytes(d), "little"),
                        lambda I, ts, r: [r >= 0])


@external("builtins.int.from_bytes")
def _(I, args, kwargs):
    order = kwargs.get("byteorder", args[1] if len(args) > 1 else "big")
    from pyvc.interp import _has_sym

    if not _has_sym(args[0]):
        return int.from_bytes(bytes(args[0]), order, **{k: v for k, v in kwargs.items() if k == "signed"})
    if order != "little" or kwargs.get("signed"):
        from pyvc.ctx import Unsupported

        raise Unsupported("int.from_bytes big-endian / signed on symbolic bytes")
    return _from_bytes_le.apply(I, [args[0]])


import asyncio as _asyncio

from pyvc.contracts import constructor


@constructor(_asyncio.Future)
def _(I, cls, args, kwargs):
    f = SFuture(0)
    f.fresh_in_call = True
    ctl = getattr(I, "await_ctl", None)
    pr = getattr(ctl.con, "created_future_promise", None) if ctl is not None else None
    if pr is not None:
        f.ghost["promise"] = pr
    I.ctx.emit("loop.create_future", f)
    return f


# zigpy value wrappers applied to opaque values (KeyData(x), EUI64(x)): the same value, of that wire type
import zigpy.state as _zstate
import zigpy.types as _zt


def _value_wrapper(I, cls, args, kwargs):
    from pyvc.interp import PyRaise
    from pyvc.values import Opaque

    from pyvc.values import SOpt

    if len(args) == 1 and isinstance(args[0], SOpt):
        args = [I.unwrap_opt(args[0], "wire value")]
    if len(args) == 1 and isinstance(args[0], Opaque):
        return args[0]
    try:
        return cls(*args, **kwargs)
    except Exception as e:
        raise PyRaise(e)


constructor(_zt.KeyData)(_value_wrapper)
constructor(_zt.EUI64)(_value_wrapper)


@constructor(_zstate.Key)
def _(I, cls, args, kwargs):
    from pyvc.calls import construct_dataclass

    return construct_dataclass(I, cls, args, kwargs)


@external("random.Random.randint")
def _(I, args, kwargs):
    """random.randint(a, b): any integer of [a, b]; ValueError for an empty range"""
    import z3

    from pyvc.interp import PyRaise, int_term, mk_exc
    from pyvc.values import SInt

    a, b = args[-2], args[-1]
    ta, tb = int_term(a), int_term(b)
    if not I.ctx.branch(ta <= tb):
        raise PyRaise(mk_exc(ValueError, "empty range for randrange()"))
    r = I.ctx.fresh_int("randint")
    I.ctx.assume(z3.And(r >= ta, r <= tb))
    I.ctx.assumptions_used.add("external:random.randint (any value of the range)")
    return SInt(r)


GATHER_FUTURE = ext_class("gather_future", add_done_callback=effect())


@external("asyncio.tasks.gather")
def _(I, args, kwargs):
    """asyncio.gather(*aws, return_exceptions=...): a future over all of them.  Awaited: see asyncrule.GatherAwait (one
    legal schedule is followed and the concurrency is recorded as an effect).  Not awaited: done-callbacks can be
    attached; it completes when ALL awaitables have finished iff return_exceptions is true (otherwise as soon as one
    of them fails or is cancelled) -- contracts speak about the recorded call"""
    from pyvc.values import SObj

    I.ctx.emit("asyncio.gather.created", None, tuple(args), dict(kwargs))
    return SObj(GATHER_FUTURE, {"aws": list(args), "kwargs": dict(kwargs)}, tag="gather")
