"""Assumed contracts on things outside /repo/bellows (DESIGN 2.5).  Every use is recorded in the
evidence file's trusted_base."""
import binascii

import z3

from pyvc.contracts import external
from pyvc.ext import effect, ext_class, field
from pyvc.interp import bytes_term, int_term
from pyvc.spec import SpecFn
from pyvc.values import SFuture, SInt, SObj, SReal, Sym


def _crc_axioms(I, ts, r):
    return [z3.And(r >= 0, r < 65536)]


# CRC-CCITT (poly 0x1021) of a byte string from a given 16-bit seed.  Uninterpreted in proofs; the
# identification with the specification's bitwise CRC is an assumption validated by a bounded stand-in.
crc_hqx = SpecFn("crc_hqx", ["bytes", "int"], "int", lambda d, s: binascii.crc_hqx(bytes(d), s), _crc_axioms)


@external("binascii.crc_hqx")
def _(I, args, kwargs):
    data, seed = args
    return crc_hqx.apply(I, [data, seed])


@external("time.monotonic")
def _(I, args, kwargs):
    # ghost clock: monotone non-decreasing reals
    now = I.ctx.fresh_real("now")
    last = I.ctx.ghost.get("clock")
    if last is not None:
        I.ctx.assume(now >= last)
    I.ctx.ghost["clock"] = now
    return SReal(now)


LOOP = ext_class("event_loop")


def _create_future(I, self_obj, args, kwargs):
    f = SFuture(0)
    f.fresh_in_call = True
    I.ctx.emit("loop.create_future", f)
    return f


from pyvc.calls import ExtMethod

LOOP.methods["create_future"] = ExtMethod("create_future", fn=_create_future)


def _get_loop(I, args, kwargs):
    return SObj(LOOP, {}, tag="loop")


external("asyncio.events.get_running_loop")(_get_loop)
external("asyncio.get_running_loop")(_get_loop)
external("asyncio.events.get_event_loop")(_get_loop)
external("asyncio.get_event_loop")(_get_loop)
external("_asyncio.get_running_loop")(_get_loop)
external("_asyncio.get_event_loop")(_get_loop)
