"""C13: incoming NCP callbacks -> zigpy (bellows/zigbee/application.py), for every protocol version."""
import asyncio

import bellows.ezsp as ezsp
import bellows.types as t
import bellows.zigbee.application as app
import zigpy.types

from contracts import index as _index
from contracts.application import STATE, COUNTERS
from pyvc.calls import ExtMethod
from pyvc.contracts import ClassSpec, T, contract, external
from pyvc.ext import effect, ext_class, field
from pyvc.values import SObj


def _zigpy_effect(qualname, name):
    @external(qualname)
    def _(I, args, kwargs):
        I.ctx.emit(name, args[0] if args else None, tuple(args[1:]), dict(kwargs))
        return None


_zigpy_effect("zigpy.application.ControllerApplication.packet_received", "zigpy.packet_received")
_zigpy_effect("zigpy.application.ControllerApplication.handle_join", "zigpy.handle_join")
_zigpy_effect("zigpy.application.ControllerApplication.handle_leave", "zigpy.handle_leave")
_zigpy_effect("zigpy.application.ControllerApplication.handle_relays", "zigpy.handle_relays")
_zigpy_effect("zigpy.application.ControllerApplication.create_task", "zigpy.create_task")
_zigpy_effect("zigpy.application.ControllerApplication.connection_lost", "zigpy.connection_lost")

NODE_INFO = ext_class("node_info", fields={"nwk": T.typed_int(t.EmberNodeId)}, stable_fields=("nwk",))
STATE_CB = ext_class("state", fields={"counters": T.ext(COUNTERS), "node_info": T.ext(NODE_INFO)},
                     stable_fields=("counters", "node_info"))
EZSP_CB = ext_class("ezsp", fields={"ezsp_version": T.range(4, 255)}, stable_fields=("ezsp_version",))

APP_CB = ClassSpec(
    "bellows.zigbee.application.ControllerApplication",
    fields=dict(
        _ezsp=T.ext(EZSP_CB),
        state=T.ext(STATE_CB),
        _mfg_id_task=T.opt(T.future()),
    ),
)

ApsFrameT = T.record(
    t.EmberApsFrame, frozen=False,
    profileId=T.typed_int(t.uint16_t), clusterId=T.typed_int(t.uint16_t), sourceEndpoint=T.typed_int(t.uint8_t),
    destinationEndpoint=T.typed_int(t.uint8_t), options=T.enum(t.EmberApsOption), groupId=T.typed_int(t.uint16_t),
    sequence=T.typed_int(t.uint8_t),
)


def packets(fx):
    return [r[2][0] for r in fx if r[0] == "zigpy.packet_received"]


@contract("bellows.zigbee.application.ControllerApplication._handle_frame", props=["C13"])
def _(c):
    c.self(APP_CB)
    c.effect_name = "app.handle_frame"
    c.arg("message_type", T.enum(t.EmberIncomingMessageType))
    c.arg("aps_frame", ApsFrameT)
    c.arg("lqi", T.typed_int(t.uint8_t))
    c.arg("rssi", T.typed_int(t.int8s))
    c.arg("sender", T.typed_int(t.EmberNodeId))
    c.arg("binding_index", T.typed_int(t.uint8_t))
    c.arg("address_index", T.typed_int(t.uint8_t))
    c.arg("message", T.bytes)
    # "Every incoming unicast, multicast or broadcast message callback yields exactly one packet ...; other
    #  message types yield none"
    c.ensures(
        "post.one_packet_iff_incoming_message",
        lambda message_type, fx: len(packets(fx))
        == (1 if message_type in (t.EmberIncomingMessageType.INCOMING_UNICAST, t.EmberIncomingMessageType.INCOMING_MULTICAST,
                                  t.EmberIncomingMessageType.INCOMING_BROADCAST) else 0),
    )
    # "whose source address, endpoints, profile, cluster, APS sequence, payload bytes, LQI and RSSI equal
    #  those in the callback"
    c.ensures(
        "post.fields_equal_callback",
        lambda aps_frame, lqi, rssi, sender, message, fx: all(
            p.src.addr_mode == zigpy.types.AddrMode.NWK
            and p.src.address == sender
            and p.src_ep == aps_frame.sourceEndpoint
            and p.dst_ep == aps_frame.destinationEndpoint
            and p.tsn == aps_frame.sequence
            and p.profile_id == aps_frame.profileId
            and p.cluster_id == aps_frame.clusterId
            and p.data.value == message
            and p.lqi == lqi
            and p.rssi == rssi
            for p in packets(fx)
        ),
    )
    # "whose destination reflects the message type (own address, group ID, or broadcast)"
    c.ensures(
        "post.destination_by_type",
        lambda self, message_type, aps_frame, fx: all(
            (
                p.dst.addr_mode == zigpy.types.AddrMode.NWK and p.dst.address == self.state.node_info.nwk
                if message_type == t.EmberIncomingMessageType.INCOMING_UNICAST
                else p.dst.addr_mode == zigpy.types.AddrMode.Group and p.dst.address == aps_frame.groupId
                if message_type == t.EmberIncomingMessageType.INCOMING_MULTICAST
                else p.dst.addr_mode == zigpy.types.AddrMode.Broadcast
                and p.dst.address == zigpy.types.BroadcastAddress.ALL_ROUTERS_AND_COORDINATOR
            )
            for p in packets(fx)
        ),
    )
    c.modifies()


@contract("bellows.zigbee.application.ControllerApplication._handle_tc_join_handler", props=["C13"])
def _(c):
    c.self(APP_CB)
    c.effect_name = "app.handle_tc_join"
    c.arg("nwk", T.typed_int(t.EmberNodeId))
    c.arg("ieee", T.opaque)
    c.arg("device_update_status", T.enum(t.EmberDeviceUpdate))
    c.arg("decision", T.enum(t.EmberJoinDecision))
    c.arg("parent_nwk", T.typed_int(t.EmberNodeId))
    # "Trust-centre join callbacks yield a join with the reported addresses and parent for allowed joins, a
    #  leave for departures and nothing for denied joins"
    c.ensures(
        "post.leave_for_departures",
        lambda nwk, ieee, device_update_status, fx: implies(
            device_update_status == t.EmberDeviceUpdate.DEVICE_LEFT,
            [r[2] for r in fx if r[0] == "zigpy.handle_leave"] == [(nwk, ieee)]
            and [r for r in fx if r[0] == "zigpy.handle_join"] == [],
        ),
    )
    c.ensures(
        "post.nothing_for_denied_joins",
        lambda device_update_status, decision, fx: implies(
            device_update_status != t.EmberDeviceUpdate.DEVICE_LEFT and decision == t.EmberJoinDecision.DENY_JOIN,
            [r for r in fx if r[0] in ("zigpy.handle_join", "zigpy.handle_leave")] == [],
        ),
    )
    c.ensures(
        "post.join_for_allowed_joins",
        lambda nwk, ieee, device_update_status, decision, parent_nwk, fx: implies(
            device_update_status != t.EmberDeviceUpdate.DEVICE_LEFT and decision != t.EmberJoinDecision.DENY_JOIN,
            [r[2] for r in fx if r[0] == "zigpy.handle_join"] == [(nwk, ieee, parent_nwk)]
            and [r for r in fx if r[0] == "zigpy.handle_leave"] == [],
        ),
    )
    c.modifies("self._mfg_id_task")


# ---------------------------------------------------------------------------
# ezsp_callback_handler: unpacking by role against the live rx schemas of every version
# ---------------------------------------------------------------------------
# Wire layout of the two message callbacks, by role, in wire order, for the two field orders -- written from the EZSP
# reference (UG100; v14: the sl_zigbee_* order), not from the code.  A position is (role, wire kind); the names the
# command tables give to the fields do not matter, their position and wire type do: the NCP fixes both.
U8, S8, U16, U32 = ("int", 1, False), ("int", 1, True), ("int", 2, False), ("int", 4, False)
APS, EUI, LVB = ("struct", "EmberApsFrame"), ("eui64",), ("lvbytes", 1)
INCOMING_LAYOUT = {
    "legacy": [("message_type", U8), ("aps_frame", APS), ("lqi", U8), ("rssi", S8), ("sender", U16), ("binding_index", U8),
               ("address_index", U8), ("message", LVB)],
    "v14": [("message_type", U8), ("aps_frame", APS), ("sender", U16), ("sender_eui64", EUI), ("binding_index", U8),
            ("address_index", U8), ("lqi", U8), ("rssi", S8), ("timestamp", U32), ("message", LVB)],
}
SENT_LAYOUT = {
    "legacy": [("message_type", U8), ("destination", U16), ("aps_frame", APS), ("message_tag", U8), ("status", U8), ("message", LVB)],
    "v14": [("status", U32), ("message_type", U8), ("destination", U16), ("aps_frame", APS), ("message_tag", U16), ("message", LVB)],
}
INCOMING_ROLES = ("message_type", "aps_frame", "lqi", "rssi", "sender", "binding_index", "address_index", "message")
SENT_ROLES = ("message_type", "destination", "aps_frame", "message_tag", "status", "message")
LAYOUTS = {"incomingMessageHandler": INCOMING_LAYOUT, "messageSentHandler": SENT_LAYOUT}


def family_of(version):
    return "v14" if version >= 14 else "legacy"


def wire_kind(ty):
    import zigpy.types as zt

    if isinstance(ty, type) and issubclass(ty, zt.EUI64):
        return ("eui64",)
    if isinstance(ty, type) and issubclass(ty, int) and getattr(ty, "_size", None):
        return ("int", ty._size, bool(getattr(ty, "_signed", False)))
    if isinstance(ty, type) and issubclass(ty, zt.LVBytes):
        return ("lvbytes", getattr(ty, "_prefix_length", 1))
    if isinstance(ty, type) and issubclass(ty, zt.Struct):
        return ("struct", ty.__name__)
    return ("other", getattr(ty, "__name__", str(ty)))


TCJOIN_ORDER = ("nwk", "ieee", "device_update_status", "decision", "parent_nwk")


class _SchemaArgsT:
    """the decoded values of one callback frame of one version: a list shaped by the live rx schema"""

    def __init__(self, cls, frame):
        self.cls, self.frame = cls, frame

    def fresh(self, I, name):
        from pyvc import ncp

        rx = self.cls.COMMANDS[self.frame][2]
        return [ncp.fresh_of_type(I, ty, f"{name}.{k}") for k, ty in rx.items()]


def role_value(version, frame, roles, role, args):
    """the value at the wire position of `role` in this version's field order"""
    layout = LAYOUTS[frame][family_of(version)]
    return args[[r for r, _k in layout].index(role)]


def _callback_wire_layouts(tier):
    """every version's rx schema of the two message callbacks decodes the wire layout above: same number of fields,
    the same wire kind at every position (a signed RSSI byte decoded as unsigned, or two fields of different kinds
    swapped, is a different decoding of the same bytes)"""
    out = []
    for v, cls in sorted(ezsp.EZSP._BY_VERSION.items()):
        for frame, layouts in LAYOUTS.items():
            rx = cls.COMMANDS[frame][2]
            live = [wire_kind(ty) for ty in rx.values()]
            want = [k for _r, k in layouts[family_of(v)]]
            ok = live == want
            out.append({"name": f"{cls.__module__}.{cls.__qualname__}::table.callback_wire_layout[{frame}]",
                        "verdict": "proved" if ok else "refuted", "backend": "live-table", "t": 0.0,
                        "detail": f"{len(live)} fields against the {family_of(v)} layout",
                        "witness": {"version": v, "frame": frame, "live": [list(rx.keys()), live], "specified": layouts[family_of(v)]} if not ok else None})
    return out


_index.extra("C13")(_callback_wire_layouts)


def _cb_cases():
    cases = []
    for v, cls in sorted(ezsp.EZSP._BY_VERSION.items()):
        for frame in ("incomingMessageHandler", "messageSentHandler", "trustCenterJoinHandler"):
            cases.append((f"v{v}:{frame}", {"__self__": {"_ezsp": T.ext(_ezsp_const(v))}, "frame_name": T.const(frame),
                                            "args": _SchemaArgsT(cls, frame)}))
        cases.append((f"v{v}:other", {"__self__": {"_ezsp": T.ext(_ezsp_const(v))}, "frame_name": T.const("childJoinHandler"),
                                      "args": _SchemaArgsT(cls, "childJoinHandler")}))
    return cases


_EZC = {}


def _ezsp_const(v):
    if v not in _EZC:
        _EZC[v] = ext_class(f"ezsp_v{v}", fields={"ezsp_version": T.const(v)}, stable_fields=("ezsp_version",))
    return _EZC[v]


def kw(fx, name):
    return [r[3] for r in fx if r[0] == name]


@contract("bellows.zigbee.application.ControllerApplication._handle_frame_sent", props=["C13"])
def _(c):
    c.self(APP_CB)
    c.trusted = True  # proved as part of C12 (contracts/app_send.py); here only the call record matters
    c.effect_name = "app.handle_frame_sent"
    c.modifies()


@contract("bellows.zigbee.application.ControllerApplication.ezsp_callback_handler", props=["C13"])
def _(c):
    c.self(APP_CB)
    c.cases(*_cb_cases())
    # "this holds for the pre-v14 and the v14 field orders alike": each role receives the value at the live
    # schema position of the field playing that role, in every version's own table
    c.ensures(
        "post.incoming_message_by_role",
        lambda self, frame_name, args, fx: implies(
            frame_name == "incomingMessageHandler",
            len(kw(fx, "app.handle_frame")) == 1
            and all(
                kw(fx, "app.handle_frame")[0][role] == role_value(self._ezsp.ezsp_version, frame_name, INCOMING_ROLES, role, args)
                for role in INCOMING_ROLES
            ),
        ),
    )
    c.ensures(
        "post.message_sent_by_role",
        lambda self, frame_name, args, fx: implies(
            frame_name == "messageSentHandler",
            len(kw(fx, "app.handle_frame_sent")) == 1
            and all(
                kw(fx, "app.handle_frame_sent")[0][role] == role_value(self._ezsp.ezsp_version, frame_name, SENT_ROLES, role, args)
                for role in SENT_ROLES
                if role != "status"
            )
            and kw(fx, "app.handle_frame_sent")[0]["status"]
            == t.sl_Status.from_ember_status(role_value(self._ezsp.ezsp_version, frame_name, SENT_ROLES, "status", args)),
        ),
    )
    c.ensures(
        "post.tc_join_in_schema_order",
        lambda frame_name, args, fx: implies(
            frame_name == "trustCenterJoinHandler",
            [r[2] for r in fx if r[0] == "app.handle_tc_join"] == [tuple(args)],
        ),
    )
    c.ensures(
        "post.other_frames_yield_nothing",
        lambda frame_name, fx: implies(
            frame_name not in ("incomingMessageHandler", "messageSentHandler", "trustCenterJoinHandler"),
            [r for r in fx if r[0] in ("app.handle_frame", "app.handle_frame_sent", "app.handle_tc_join", "zigpy.packet_received")] == [],
        ),
    )
    c.modifies("self._mfg_id_task")


def _tc_join_schema_order(tier):
    """the trust-centre join callback is passed positionally: its schema must list (node id, EUI64, device
    update, join decision, parent node id) in this order in every version"""
    want = (t.EmberNodeId, t.EUI64, t.EmberDeviceUpdate, t.EmberJoinDecision, t.EmberNodeId)
    out = []
    for v, cls in sorted(ezsp.EZSP._BY_VERSION.items()):
        rx = cls.COMMANDS["trustCenterJoinHandler"][2]
        tys = tuple(rx.values())
        ok = len(tys) == 5 and all(issubclass(a, b) or a is b for a, b in zip(tys, want))
        out.append({"name": f"{cls.__module__}.{cls.__qualname__}::table.tc_join_field_order", "verdict": "proved" if ok else "refuted",
                    "backend": "live-table", "t": 0.0, "detail": str(list(rx.items()))[:200],
                    "witness": {"version": v, "schema": [getattr(x, "__name__", str(x)) for x in tys]} if not ok else None})
    return out


_index.extra("C13")(_tc_join_schema_order)
