"""Per-version accessors of the protocol handlers (C14 network settings, C12 send wrappers): each method is
verified on an object of every version class that inherits it, against that version's LIVE command tables --
which named response field flows into which output, and under which named request parameter each input is
passed.  A wrong unpack order or a renamed / reordered schema fails for exactly the versions where it is wrong."""
import asyncio

import zigpy.state
import zigpy.types as zigpy_t
from zigpy.exceptions import NetworkNotFormed

import bellows.ezsp as ezsp
import bellows.types as t
import bellows.zigbee.util as util

from contracts import index as _index
from pyvc.contracts import ClassSpec, REGISTRY, T, contract

_SPECS = {}


def handler_spec(cls):
    if cls not in _SPECS:
        _SPECS[cls] = ClassSpec(f"{cls.__module__}.{cls.__qualname__}",
                                fields=dict(_seq=T.range(0, 255), tc_policy=T.int, _address_table_size=T.opt(T.int)),
                                interference=[])
    return _SPECS[cls]


def versions_of(method):
    """{defining class: [version classes that inherit the method from it]}"""
    groups = {}
    for v, cls in sorted(ezsp.EZSP._BY_VERSION.items()):
        d = next(k for k in cls.__mro__ if method in k.__dict__)
        groups.setdefault(d, []).append(cls)
    return groups


def cases_for(classes, extra=None):
    return [(f"v{c.VERSION}", {"__selfspec__": handler_spec(c), **(extra or {})}) for c in classes]


# ---- the effects list of a handler method: commands issued and their (live-shaped) responses -----------------
def commands(fx):
    """[(name, kwargs)] of the NCP commands issued, in order"""
    return [(r[2][0], r[3]) for r in fx if r[0] == "call" and r[1] == "ncp.command"]


def responses(fx):
    return [r[2] for r in fx if r[0] == "ret" and r[1] == "ncp.command"]


def field(rsp, name):
    """the value the NCP returned in the response field called `name` in this version's table"""
    return rsp.items[rsp.field_names.index(name)]


def has_field(rsp, name):
    return name in rsp.field_names


def yielded(fx):
    return [r[2][0] for r in fx if r[0] == "yield"]


FAILS = (TimeoutError, Exception)


def _std_raises(c):
    c.raises("command_failed", Exception)  # timeout, link failure, stopped layer
    c.raises("cancelled", asyncio.CancelledError)


# ---------------------------------------------------------------------------
# pure converters (C14)
# ---------------------------------------------------------------------------
KeyT = T.record(
    zigpy.state.Key, frozen=False,
    key=T.opaque, tx_counter=T.opt(T.range(0, 0xFFFFFFFF)), rx_counter=T.opt(T.range(0, 0xFFFFFFFF)),
    seq=T.opt(T.range(0, 255)), partner_ieee=T.opt(T.opaque),
)


@contract("bellows.zigbee.util.zigpy_key_to_ezsp_key", props=["C14"])
def _(c):
    c.arg("zigpy_key", KeyT)
    c.inline = True
    # presence flags match the supplied fields; values carried over
    c.ensures(
        "post.flags_match_supplied_fields",
        lambda zigpy_key, result: ((t.EmberKeyStructBitmask.KEY_HAS_SEQUENCE_NUMBER in result.bitmask) == (zigpy_key.seq is not None))
        and ((t.EmberKeyStructBitmask.KEY_HAS_OUTGOING_FRAME_COUNTER in result.bitmask) == (zigpy_key.tx_counter is not None))
        and ((t.EmberKeyStructBitmask.KEY_HAS_INCOMING_FRAME_COUNTER in result.bitmask) == (zigpy_key.rx_counter is not None))
        and ((t.EmberKeyStructBitmask.KEY_HAS_PARTNER_EUI64 in result.bitmask) == (zigpy_key.partner_ieee is not None)),
    )
    c.ensures(
        "post.values",
        lambda zigpy_key, result: result.key == zigpy_key.key
        and implies(zigpy_key.seq is not None, result.sequenceNumber == zigpy_key.seq)
        and implies(zigpy_key.tx_counter is not None, result.outgoingFrameCounter == zigpy_key.tx_counter)
        and implies(zigpy_key.rx_counter is not None, result.incomingFrameCounter == zigpy_key.rx_counter)
        and implies(zigpy_key.partner_ieee is not None, result.partnerEUI64 == zigpy_key.partner_ieee),
    )


EzspKeyT = T.record(
    t.EmberKeyStruct, frozen=False,
    bitmask=T.enum(t.EmberKeyStructBitmask), type=T.enum(t.EmberKeyType), key=T.opaque,
    outgoingFrameCounter=T.range(0, 0xFFFFFFFF), incomingFrameCounter=T.range(0, 0xFFFFFFFF),
    sequenceNumber=T.range(0, 255), partnerEUI64=T.opaque,
)


@contract("bellows.zigbee.util.ezsp_key_to_zigpy_key", props=["C14"])
def _(c):
    c.arg("key", EzspKeyT)
    c.inline = True
    c.ensures(
        "post.values_by_presence_flag",
        lambda key, result: result.key == key.key
        and implies(t.EmberKeyStructBitmask.KEY_HAS_SEQUENCE_NUMBER in key.bitmask, result.seq == key.sequenceNumber)
        and implies(t.EmberKeyStructBitmask.KEY_HAS_OUTGOING_FRAME_COUNTER in key.bitmask, result.tx_counter == key.outgoingFrameCounter)
        and implies(t.EmberKeyStructBitmask.KEY_HAS_INCOMING_FRAME_COUNTER in key.bitmask, result.rx_counter == key.incomingFrameCounter)
        and implies(t.EmberKeyStructBitmask.KEY_HAS_PARTNER_EUI64 in key.bitmask, result.partner_ieee == key.partnerEUI64),
    )


def key_roundtrip(zigpy_key):
    return util.ezsp_key_to_zigpy_key(util.zigpy_key_to_ezsp_key(zigpy_key))


@contract("contracts.ezsp_accessors.key_roundtrip", props=["C14"])
def _(c):
    c.arg("zigpy_key", T.record(zigpy.state.Key, frozen=False, key=T.opaque, tx_counter=T.range(0, 0xFFFFFFFF),
                                rx_counter=T.range(0, 0xFFFFFFFF), seq=T.range(0, 255), partner_ieee=T.opaque))
    c.inline_callees = True
    # "link-key table entries (key and partner)", sequence and counters survive the conversion pair
    c.ensures(
        "lemma.conversion_pair_is_identity",
        lambda zigpy_key, result: result.key == zigpy_key.key and result.seq == zigpy_key.seq
        and result.tx_counter == zigpy_key.tx_counter and result.rx_counter == zigpy_key.rx_counter
        and result.partner_ieee == zigpy_key.partner_ieee,
    )


# ---------------------------------------------------------------------------
# zha_security: "The security state sent to the NCP carries exactly these keys, with presence flags that match
# the fields supplied"
# ---------------------------------------------------------------------------
HASHED_HEX = "00112233445566778899aabbccddeeff"


def _network_info(partner):
    KeyRec = lambda p: T.record(zigpy.state.Key, frozen=False, key=T.opaque, tx_counter=T.range(0, 0xFFFFFFFF),  # noqa: E731
                                rx_counter=T.range(0, 0xFFFFFFFF), seq=T.range(0, 255), partner_ieee=p)
    return T.record(
        zigpy.state.NetworkInfo, frozen=False,
        network_key=KeyRec(T.opaque), tc_link_key=KeyRec(partner),
        stack_specific=T.const({"ezsp": {"hashed_tclk": HASHED_HEX}}),
    )


@contract("bellows.zigbee.util.zha_security", props=["C14"])
def _(c):
    c.cases(
        ("known trust centre, plain link key", {"network_info": _network_info(T.opaque), "use_hashed_tclk": T.const(False)}),
        ("known trust centre, hashed link key", {"network_info": _network_info(T.opaque), "use_hashed_tclk": T.const(True)}),
        ("unknown trust centre, plain link key", {"network_info": _network_info(T.const(zigpy_t.EUI64.UNKNOWN)), "use_hashed_tclk": T.const(False)}),
        ("unknown trust centre, hashed link key", {"network_info": _network_info(T.const(zigpy_t.EUI64.UNKNOWN)), "use_hashed_tclk": T.const(True)}),
    )
    c.ensures(
        "post.network_key_and_sequence",
        lambda network_info, result: result.networkKey == network_info.network_key.key
        and result.networkKeySequenceNumber == network_info.network_key.seq
        and t.EmberInitialSecurityBitmask.HAVE_NETWORK_KEY in result.bitmask
        and t.EmberInitialSecurityBitmask.HAVE_PRECONFIGURED_KEY in result.bitmask,
    )
    c.ensures(
        "post.trust_centre_flag_matches_field",
        lambda network_info, result: (t.EmberInitialSecurityBitmask.HAVE_TRUST_CENTER_EUI64 in result.bitmask)
        == (network_info.tc_link_key.partner_ieee != zigpy_t.EUI64.UNKNOWN)
        and implies(
            network_info.tc_link_key.partner_ieee != zigpy_t.EUI64.UNKNOWN,
            result.preconfiguredTrustCenterEui64 == network_info.tc_link_key.partner_ieee,
        ),
    )
    # "(including the hashed form kept in stack-specific data)"
    c.ensures(
        "post.link_key_plain_or_hashed_as_requested",
        lambda network_info, use_hashed_tclk, result: (t.EmberInitialSecurityBitmask.TRUST_CENTER_USES_HASHED_LINK_KEY in result.bitmask)
        == use_hashed_tclk
        and (
            result.preconfiguredKey == t.KeyData.deserialize(bytes.fromhex(HASHED_HEX))[0]
            if use_hashed_tclk
            else result.preconfiguredKey == network_info.tc_link_key.key
        ),
    )


# ---------------------------------------------------------------------------
# accessors, per inheriting version
# ---------------------------------------------------------------------------
def _accessor(method, by_defining_class):
    """by_defining_class: {class name: function(contract)} -- one contract per defining function, cases = the
    version classes that inherit it"""
    for dcls, classes in versions_of(method).items():
        build = by_defining_class.get(dcls.__name__)
        if build is None:
            continue
        qn = f"{dcls.__module__}.{dcls.__qualname__}.{method}"

        @contract(qn, props=["C14"])
        def _(c, classes=classes, build=build, dcls=dcls):
            c.self(handler_spec(dcls))
            c.cases(*cases_for(classes))
            _std_raises(c)
            build(c)


def _legacy_get_key(key_type):
    def build(c):
        c.ensures(
            "post.reads_the_right_key",
            lambda fx: [q for q in commands(fx)] == [("getKey", {"keyType": key_type})],
            on="any",
        )
        c.ensures(
            "post.key_from_the_key_struct_field",
            lambda result, fx: result.key == field(responses(fx)[0], "keyStruct").key
            and implies(t.EmberKeyStructBitmask.KEY_HAS_SEQUENCE_NUMBER in field(responses(fx)[0], "keyStruct").bitmask,
                        result.seq == field(responses(fx)[0], "keyStruct").sequenceNumber)
            and implies(t.EmberKeyStructBitmask.KEY_HAS_OUTGOING_FRAME_COUNTER in field(responses(fx)[0], "keyStruct").bitmask,
                        result.tx_counter == field(responses(fx)[0], "keyStruct").outgoingFrameCounter),
        )
        c.ensures(
            "post.only_on_success",
            lambda fx: t.sl_Status.from_ember_status(field(responses(fx)[0], "status")) == t.sl_Status.OK,
        )

    return build


def _export_key(core_type, with_info):
    def build(c):
        c.raises("not_formed", NetworkNotFormed)
        c.ensures(
            "post.exports_the_right_key",
            lambda fx: commands(fx)[0][0] == "exportKey" and commands(fx)[0][1]["context"].core_key_type == core_type,
            on="any",
        )
        c.ensures(
            "post.key_from_the_key_field",
            lambda result, fx: result.key == field(responses(fx)[0], "key")
            and t.sl_Status.from_ember_status(field(responses(fx)[0], "status")) == t.sl_Status.OK,
        )
        if with_info:
            c.ensures(
                "post.counter_and_sequence_from_key_info",
                lambda result, fx: [q[0] for q in commands(fx)] == ["exportKey", "getNetworkKeyInfo"]
                and result.tx_counter == field(responses(fx)[1], "network_key_info").network_key_frame_counter
                and result.seq == field(responses(fx)[1], "network_key_info").network_key_sequence_number
                and t.sl_Status.from_ember_status(field(responses(fx)[1], "status")) == t.sl_Status.OK,
            )

    return build


_accessor("get_network_key", {
    "EZSPv4": _legacy_get_key(t.EmberKeyType.CURRENT_NETWORK_KEY),
    "EZSPv13": _export_key(t.SecurityManagerKeyType.NETWORK, True),
    "EZSPv14": _export_key(t.SecurityManagerKeyType.NETWORK, True),
})
_accessor("get_tc_link_key", {
    "EZSPv4": _legacy_get_key(t.EmberKeyType.TRUST_CENTER_LINK_KEY),
    "EZSPv13": _export_key(t.SecurityManagerKeyType.TC_LINK, False),
    "EZSPv14": _export_key(t.SecurityManagerKeyType.TC_LINK, False),
})


def _read_link_keys_export(c):
    """v13+: one exportLinkKeyByIndex per index; an entry whose status field is OK yields exactly one key made of
    the plaintext_key / key_data / partner fields *of this version's response schema*"""
    c.loop(
        0,
        invariants=[("index_in_range", lambda _i: _i >= 0)],
        each=[
            ("one_export_per_index", lambda _i, fx: commands(fx) == [("exportLinkKeyByIndex", {"index": _i})]),
            (
                "ok_entry_yields_its_key",
                lambda fx: implies(
                    len(responses(fx)) == 1 and t.sl_Status.from_ember_status(field(responses(fx)[0], "status")) == t.sl_Status.OK,
                    len(yielded(fx)) == 1
                    and yielded(fx)[0].key == field(responses(fx)[0], "plaintext_key")
                    and yielded(fx)[0].tx_counter == field(responses(fx)[0], "key_data").outgoing_frame_counter
                    and yielded(fx)[0].rx_counter == field(responses(fx)[0], "key_data").incoming_frame_counter
                    and yielded(fx)[0].partner_ieee
                    == (field(responses(fx)[0], "eui64") if has_field(responses(fx)[0], "eui64") else field(responses(fx)[0], "context").eui64),
                ),
            ),
            (
                "other_entries_yield_nothing",
                lambda fx: implies(
                    len(responses(fx)) == 1 and t.sl_Status.from_ember_status(field(responses(fx)[0], "status")) != t.sl_Status.OK,
                    yielded(fx) == [],
                ),
            ),
        ],
    )


def _read_link_keys_legacy(c):
    c.loop(
        0,
        invariants=[("index_in_range", lambda _i: _i >= 0)],
        each=[
            ("one_read_per_index", lambda _i, fx: commands(fx) == [("getKeyTableEntry", {"index": _i})]),
            (
                "ok_entry_yields_its_key",
                lambda fx: implies(
                    len(responses(fx)) == 1 and t.sl_Status.from_ember_status(field(responses(fx)[0], "status")) == t.sl_Status.OK,
                    len(yielded(fx)) == 1 and yielded(fx)[0].key == field(responses(fx)[0], "keyStruct").key
                    and implies(t.EmberKeyStructBitmask.KEY_HAS_PARTNER_EUI64 in field(responses(fx)[0], "keyStruct").bitmask,
                                yielded(fx)[0].partner_ieee == field(responses(fx)[0], "keyStruct").partnerEUI64),
                ),
            ),
        ],
    )
    c.raises("unexpected_status", AssertionError)


_accessor("read_link_keys", {"EZSPv4": _read_link_keys_legacy, "EZSPv13": _read_link_keys_export, "EZSPv14": _read_link_keys_export})


# ---------------------------------------------------------------------------
# send wrappers (C12) and link-key / counter writers (C14), by role against the live request schemas
# ---------------------------------------------------------------------------
def tx_names(self, command):
    return list(type(self).COMMANDS[command][1].keys())


def passed(fx, i, names):
    """the value passed to command #i under whichever of `names` this version's request schema uses"""
    kw = commands(fx)[i][1]
    cands = [n for n in names if n in kw]
    return kw[cands[0]] if len(cands) == 1 else None


ApsT = T.record(t.EmberApsFrame, frozen=False, profileId=T.typed_int(t.uint16_t), clusterId=T.typed_int(t.uint16_t),
                sourceEndpoint=T.typed_int(t.uint8_t), destinationEndpoint=T.typed_int(t.uint8_t),
                options=T.enum(t.EmberApsOption), groupId=T.typed_int(t.uint16_t), sequence=T.typed_int(t.uint8_t))


def _send_wrapper(method, command, arg_types, roles):
    for dcls, classes in versions_of(method).items():
        qn = f"{dcls.__module__}.{dcls.__qualname__}.{method}"

        @contract(qn, props=["C12"])
        def _(c, classes=classes, dcls=dcls):
            c.self(handler_spec(dcls))
            c.cases(*cases_for(classes, arg_types))
            _std_raises(c)
            c.ensures("post.one_command", lambda fx: [q[0] for q in commands(fx)] == [command], on="any")
            # every keyword is a parameter of this version's request schema, none is missing
            c.ensures(
                "post.keywords_are_this_versions_parameters",
                lambda self, fx: sorted(commands(fx)[0][1].keys()) == sorted(tx_names(self, command)),
                on="any",
            )
            # "statuses normalised": (unified status of the response's status field, its sequence field)
            c.ensures(
                "post.returns_normalised_status_and_sequence",
                lambda result, fx: result[0] == t.sl_Status.from_ember_status(field(responses(fx)[0], "status"))
                and result[1] == field(responses(fx)[0], "sequence"),
            )
            _role_clauses(c, roles)


def _role_clauses(c, roles):
    if "aps_frame" in roles:
        c.ensures("post.aps_frame_passed", lambda aps_frame, fx: passed(fx, 0, ("apsFrame", "aps_frame")) is aps_frame, on="any")
    if "message_tag" in roles:
        c.ensures("post.tag_passed", lambda message_tag, fx: passed(fx, 0, ("messageTag", "message_tag")) == message_tag, on="any")
    if "data" in roles:
        c.ensures("post.payload_passed", lambda data, fx: passed(fx, 0, ("messageContents", "message")) == data, on="any")
    if "nwk" in roles:
        c.ensures("post.destination_passed", lambda nwk, fx: passed(fx, 0, ("indexOrDestination", "nwk")) == nwk, on="any")
        c.ensures(
            "post.direct_unicast",
            lambda fx: passed(fx, 0, ("type", "message_type")) == t.EmberOutgoingMessageType.OUTGOING_DIRECT,
            on="any",
        )
    if "address" in roles:
        c.ensures("post.broadcast_address_passed", lambda address, fx: passed(fx, 0, ("destination", "nwk")) == address, on="any")
    if "radius" in roles:
        c.ensures("post.radius_passed", lambda radius, fx: passed(fx, 0, ("hops", "radius")) == radius, on="any")


_COMMON = {"aps_frame": ApsT, "message_tag": T.typed_int(t.uint8_t), "data": T.bytes}
_send_wrapper("send_unicast", "sendUnicast", {**_COMMON, "nwk": T.typed_int(t.EmberNodeId)},
              {"nwk": 1, "aps_frame": 1, "message_tag": 1, "data": 1})
_send_wrapper("send_multicast", "sendMulticast",
              {**_COMMON, "radius": T.typed_int(t.uint8_t), "non_member_radius": T.typed_int(t.uint8_t)},
              {"aps_frame": 1, "message_tag": 1, "data": 1, "radius": 1})
_send_wrapper("send_broadcast", "sendBroadcast",
              {**_COMMON, "address": T.enum(t.BroadcastAddress), "radius": T.typed_int(t.uint8_t), "aps_sequence": T.typed_int(t.uint8_t)},
              {"aps_frame": 1, "message_tag": 1, "data": 1, "radius": 1, "address": 1})


def _write_link_keys(command, key_param, addr_param, with_index):
    def build(c):
        c.cases_ = [(lab, {**ty, "keys": T.list(
            T.record(zigpy.state.Key, frozen=False, key=T.opaque, partner_ieee=T.opaque, tx_counter=T.range(0, 0xFFFFFFFF),
                     rx_counter=T.range(0, 0xFFFFFFFF), seq=T.range(0, 255)),
            T.record(zigpy.state.Key, frozen=False, key=T.opaque, partner_ieee=T.opaque, tx_counter=T.range(0, 0xFFFFFFFF),
                     rx_counter=T.range(0, 0xFFFFFFFF), seq=T.range(0, 255)))}) for lab, ty in c.cases_]
        # "link-key table entries (key and partner)": one table write per key, in order, carrying that key's key
        # and partner under this version's parameter names; a rejected entry does not stop the rest
        c.ensures(
            "post.one_write_per_key_with_key_and_partner",
            lambda self, keys, fx: [q[0] for q in commands(fx)] == [command] * len(keys)
            and all(q[1][key_param] == k.key and q[1][addr_param] == k.partner_ieee for q, k in zip(commands(fx), keys))
            and all(sorted(q[1].keys()) == sorted(tx_names(self, command)) for q in commands(fx))
            and (not with_index or all(q[1]["index"] == i for i, q in enumerate(commands(fx)))),
        )

    return build


_accessor("write_link_keys", {
    "EZSPv4": _write_link_keys("addOrUpdateKeyTableEntry", "keyData", "address", False),
    "EZSPv13": _write_link_keys("importLinkKey", "key", "address", True),
})


# ---------------------------------------------------------------------------
# frame-counter writers and child table accessors (C14: "where the protocol version can store them")
# ---------------------------------------------------------------------------
def _with_args(c, extra):
    c.cases_ = [(lab, {**ty, **extra}) for lab, ty in c.cases_]


def _not_stored(arg_types):
    """this version cannot store the item: nothing is sent to the NCP, nothing raised"""
    def build(c):
        _with_args(c, arg_types)
        c.ensures("post.nothing_sent", lambda fx: commands(fx) == [], on="any")

    return build


def _write_frame_counter(value_id):
    def build(c):
        _with_args(c, {"frame_counter": T.range(0, 0xFFFFFFFF)})
        c.raises("wrong_state_or_rejected", AssertionError)
        # the counter supplied -- whatever its value, zero included -- is written under the right value id,
        # as its 4-byte little-endian image, after checking that no network is up; success only if accepted
        c.ensures(
            "post.counter_written_as_given",
            lambda self, frame_counter, fx: [q[0] for q in commands(fx)] == ["networkState", "setValue"]
            and commands(fx)[1][1]["valueId"] == value_id
            and commands(fx)[1][1]["value"] == t.uint32_t(frame_counter).serialize()
            and sorted(commands(fx)[1][1].keys()) == sorted(tx_names(self, "setValue")),
        )
        c.ensures(
            "post.only_when_no_network_and_accepted",
            lambda fx: field(responses(fx)[0], "status") == t.EmberNetworkStatus.NO_NETWORK
            and t.sl_Status.from_ember_status(field(responses(fx)[1], "status")) == t.sl_Status.OK,
        )
        c.ensures("post.at_most_one_write", lambda fx: len([q for q in commands(fx) if q[0] == "setValue"]) <= 1, on="any")

    return build


_accessor("write_nwk_frame_counter", {
    "EZSPv4": _not_stored({"frame_counter": T.range(0, 0xFFFFFFFF)}),
    "EZSPv5": _write_frame_counter(t.EzspValueId.VALUE_NWK_FRAME_COUNTER),
})
_accessor("write_aps_frame_counter", {
    "EZSPv4": _not_stored({"frame_counter": T.range(0, 0xFFFFFFFF)}),
    "EZSPv5": _write_frame_counter(t.EzspValueId.VALUE_APS_FRAME_COUNTER),
})


# ---- wiping what a previous network left (restore sequence, first step) --------------------------------------------
def _factory_reset(with_tokens):
    def build(c):
        # "link-key table entries (key and partner)" read back equal those written only if the table is cleared first:
        # every normal return has issued clearKeyTable; versions with a token store also reset the tokens, frame
        # counters included (a stale outgoing counter would outlive the restore)
        c.ensures(
            "post.key_table_cleared",
            lambda fx: len([q for q in commands(fx) if q[0] == "clearKeyTable"]) == 1,
        )
        c.ensures(
            "post.tokens_reset_where_the_version_has_them",
            lambda fx: [q for q in commands(fx) if q[0] == "tokenFactoryReset"]
            == ([("tokenFactoryReset", {"excludeOutgoingFC": False, "excludeBootCounter": False})] if with_tokens else []),
        )
        c.ensures(
            "post.nothing_else_sent",
            lambda fx: all(q[0] in ("clearKeyTable", "tokenFactoryReset") for q in commands(fx)), on="any",
        )

    return build


_accessor("factory_reset", {"EZSPv4": _factory_reset(False), "EZSPv13": _factory_reset(True)})


# ---- child table ------------------------------------------------------------------------------------------------
class _ChildMapT:
    """{child0: nwk0, child1: nwk1}: two distinct children (concrete spine, symbolic addresses)"""

    def fresh(self, I, name):
        c0, c1 = T.opaque.fresh(I, "child0"), T.opaque.fresh(I, "child1")
        I.ctx.assume(c0.t != c1.t)
        return {c0: T.typed_int(t.EmberNodeId).fresh(I, "nwk0"), c1: T.typed_int(t.EmberNodeId).fresh(I, "nwk1")}


def _write_child_data(struct_name):
    def build(c):
        _with_args(c, {"children": _ChildMapT()})
        # "the child table": one setChildData per child, at consecutive indices from 0, carrying that child's
        # address pair; written as a sleepy end device (the only kind the NCP keeps a table entry for)
        c.ensures(
            "post.one_entry_per_child_with_its_addresses",
            lambda self, children, fx: [q[0] for q in commands(fx)] == ["setChildData"] * len(children)
            and all(q[1]["index"] == i for i, q in enumerate(commands(fx)))
            and all(q[1]["child_data"].eui64 == k and q[1]["child_data"].id == children[k]
                    and q[1]["child_data"].type == t.EmberNodeType.SLEEPY_END_DEVICE
                    for q, k in zip(commands(fx), list(children.keys())))
            and all(sorted(q[1].keys()) == sorted(tx_names(self, "setChildData")) for q in commands(fx)),
        )
        # the struct handed over is the one this version's request schema declares
        c.ensures(
            "post.child_struct_of_this_version",
            lambda self, fx: all(type(q[1]["child_data"]) is type(self).COMMANDS["setChildData"][1]["child_data"] for q in commands(fx)),
        )

    return build


_accessor("write_child_data", {
    "EZSPv4": _not_stored({"children": _ChildMapT()}),
    "EZSPv9": _write_child_data("EmberChildDataV7"),
    "EZSPv10": _write_child_data("EmberChildDataV10"),
})


def child_struct(rsp):
    """the child struct of a getChildData response: the field is called childData up to v9, child_data from v10"""
    return field(rsp, "child_data") if has_field(rsp, "child_data") else field(rsp, "childData")


def _read_child_data(flat):
    """one getChildData per index 0..255; an entry is yielded unless the NCP says there is no child at that index;
    what is yielded is (nwk, eui64, type) of that entry -- from this version's response fields"""
    def build(c):
        c.loop(
            0,
            generic=T.range(0, 255),  # the body is verified once, for an arbitrary index of the table
            iteration_raises=(Exception, asyncio.CancelledError),  # a failed / cancelled command ends the read
            at_entry=[("whole_table_is_walked", lambda _items: _items == list(range(0, 256)))],
            each=[
                ("one_read_per_index", lambda _item, fx: commands(fx) == [("getChildData", {"index": _item})]),
                (
                    "child_entries_are_yielded_with_their_fields",
                    lambda fx: implies(
                        len(responses(fx)) == 1 and t.sl_Status.from_ember_status(field(responses(fx)[0], "status")) != t.sl_Status.NOT_JOINED,
                        len(yielded(fx)) == 1
                        and yielded(fx)[0][0] == (field(responses(fx)[0], "childId") if flat else child_struct(responses(fx)[0]).id)
                        and yielded(fx)[0][1] == (field(responses(fx)[0], "childEui64") if flat else child_struct(responses(fx)[0]).eui64)
                        and yielded(fx)[0][2] == (field(responses(fx)[0], "childType") if flat else child_struct(responses(fx)[0]).type),
                    ),
                ),
                (
                    "empty_slots_yield_nothing",
                    lambda fx: implies(
                        len(responses(fx)) == 1 and t.sl_Status.from_ember_status(field(responses(fx)[0], "status")) == t.sl_Status.NOT_JOINED,
                        yielded(fx) == [],
                    ),
                ),
            ],
        )

    return build


_accessor("read_child_data", {"EZSPv4": _read_child_data(True), "EZSPv7": _read_child_data(False)})


# ---------------------------------------------------------------------------
# route / extended-timeout set-up wrappers used by send_packet (C12)
# ---------------------------------------------------------------------------
def _c12_accessor(method, by_defining_class):
    for dcls, classes in versions_of(method).items():
        build = by_defining_class.get(dcls.__name__)
        if build is None:
            continue
        qn = f"{dcls.__module__}.{dcls.__qualname__}.{method}"

        @contract(qn, props=["C12"])
        def _(c, classes=classes, build=build, dcls=dcls):
            c.self(handler_spec(dcls))
            c.cases(*cases_for(classes))
            _std_raises(c)
            build(c)


def _set_source_route_command(c):
    _with_args(c, {"nwk": T.typed_int(t.EmberNodeId), "relays": T.const([t.EmberNodeId(0x1234), t.EmberNodeId(0x5678)])})
    # the route of THIS destination is handed to the NCP, under this version's parameter names; the normalised status
    # of the answer is returned
    c.ensures(
        "post.route_of_this_destination_set",
        lambda self, nwk, relays, fx: [q[0] for q in commands(fx)] == ["setSourceRoute"]
        and commands(fx)[0][1]["destination"] == nwk and commands(fx)[0][1]["relayList"] == relays
        and sorted(commands(fx)[0][1].keys()) == sorted(tx_names(self, "setSourceRoute")),
        on="any",
    )
    c.ensures("post.normalised_status", lambda result, fx: result == t.sl_Status.from_ember_status(field(responses(fx)[0], "status")))


def _set_source_route_noop(c):
    _with_args(c, {"nwk": T.typed_int(t.EmberNodeId), "relays": T.const([t.EmberNodeId(0x1234)])})
    # from v9 on the NCP keeps its own route table: nothing is sent, success is reported
    c.ensures("post.nothing_sent_and_ok", lambda result, fx: commands(fx) == [] and result == t.sl_Status.OK)


_c12_accessor("set_source_route", {"EZSPv4": _set_source_route_command, "EZSPv9": _set_source_route_noop})


def _set_extended_timeout(c):
    _with_args(c, {"nwk": T.typed_int(t.EmberNodeId), "ieee": T.opaque, "extended_timeout": T.bool})
    c.raises("table_size_unusable", ValueError)  # random.randint over an empty range: the NCP reported a table of size 0
    # everything this wrapper asks or tells the NCP is about THIS device (its EUI64 / its NWK address), the flag
    # written is the one requested, and it writes at most once
    c.ensures(
        "post.only_this_device",
        lambda self, nwk, ieee, extended_timeout, fx: commands(fx)[0] == ("getExtendedTimeout", {"remoteEui64": ieee})
        and all(
            (q[0] == "lookupNodeIdByEui64" and q[1] == {"eui64": ieee})
            or (q[0] == "setExtendedTimeout" and q[1] == {"remoteEui64": ieee, "extendedTimeout": extended_timeout})
            or (q[0] == "getConfigurationValue" and q[1] == {"configId": t.EzspConfigId.CONFIG_ADDRESS_TABLE_SIZE} or q[0] == "getConfigurationValue")
            or (q[0] == "replaceAddressTableEntry" and q[1]["newEui64"] == ieee and q[1]["newId"] == nwk
                and q[1]["newExtendedTimeout"] == extended_timeout)
            for q in commands(fx)[1:]
        )
        and len([q for q in commands(fx) if q[0] in ("setExtendedTimeout", "replaceAddressTableEntry")]) <= 1,
        on="any",
    )
    # nothing is written when the NCP already has the requested flag for this device
    c.ensures(
        "post.no_write_when_already_set",
        lambda extended_timeout, fx: implies(
            field(responses(fx)[0], "extendedTimeout") == extended_timeout, len(commands(fx)) == 1
        ),
    )
    c.ensures(
        "post.otherwise_one_write",
        lambda extended_timeout, fx: implies(
            field(responses(fx)[0], "extendedTimeout") != extended_timeout,
            len([q for q in commands(fx) if q[0] in ("setExtendedTimeout", "replaceAddressTableEntry")]) == 1,
        ),
    )
    c.modifies("self._address_table_size", "self._seq", "self._awaiting")  # (commands advance the sequence counter)


_c12_accessor("set_extended_timeout", {"EZSPv4": _set_extended_timeout})
