"""Contracts on bellows/ezsp/protocol.py: ProtocolHandler.command / __call__ (C06, C08) and the shape of
NCP command results used at every call site (C09, C12, C14-C17, C19)."""
import asyncio

import bellows.ezsp.protocol as protocol
import bellows.types as t
from bellows.exception import EzspError, InvalidCommandError

from pyvc.calls import ExtMethod
from pyvc.contracts import REGISTRY, ClassSpec, T, contract
from pyvc.ext import effect, ext_class, field
from pyvc.spec import SpecFn

# ---------------------------------------------------------------------------
# collaborators (assumed)
# ---------------------------------------------------------------------------
CB_HANDLER = ext_class("cb_handler", __call__=effect())
GATEWAY_PROXY = ext_class(
    "gw",
    send_data=ExtMethod("send_data", effect=True, is_async=True, raises=[lambda I: _link_failure(I)]),
    reset=ExtMethod("reset", effect=True, is_async=True, raises=[asyncio.TimeoutError, ConnectionResetError]),
    wait_for_startup_reset=ExtMethod("wait_for_startup_reset", effect=True, is_async=True,
                                     raises=[ConnectionResetError]),
    close=effect(),
)


def _link_failure(I):
    import bellows.ash as ash
    from pyvc.values import SObj

    return SObj(ash.NcpFailure, {"args": (), "code": T.enum(t.NcpResetCode).fresh(I, "code")})


# zigpy's PriorityDynamicBoundedSemaphore: `sem(priority=p)` is an async context manager admitting at
# most max_value holders, waiters served by priority then FIFO (assumed, DESIGN 2.5)
PSEM_CM = ext_class(
    "psem_cm",
    __aenter__=ExtMethod("__aenter__", effect=True, is_async=True),
    __aexit__=ExtMethod("__aexit__", effect=True),
)


def _psem_call(I, self_obj, args, kwargs):
    from pyvc.values import SObj

    I.ctx.emit("psem.acquire_request", self_obj, tuple(args), dict(kwargs))
    return SObj(PSEM_CM, {}, tag="psem_cm")


PSEM = ext_class("psem", fields={"is_locked": T.bool}, locked=field("is_locked"))
PSEM.methods["__call__"] = ExtMethod("__call__", fn=_psem_call)
# the same semaphore through its explicit API: acquire(priority) suspends (and may be cancelled while waiting,
# in which case no slot is held); release() gives a slot back -- the bounded semaphore raises ValueError when
# more slots are released than were acquired
PSEM.methods["acquire"] = ExtMethod("acquire", effect=True, is_async=True, returns=lambda I, s, a, k: True)
PSEM.methods["release"] = ExtMethod("release", effect=True)


def slot_requests(fx):
    """priority of every request for a send slot, whichever API was used"""
    return [{"priority": (r[3]["priority"] if "priority" in r[3] else (r[2][0] if len(r[2]) > 0 else 0))}
            for r in fx if r[0] == "psem.acquire_request" or (r[0] == "call" and r[1] == "psem.acquire")]


def slots_acquired(fx):
    return [r for r in fx if r[0] == "await" and r[1] in ("psem_cm.__aenter__", "psem.acquire") and r[2] == "return"]


def slots_released(fx):
    return [r for r in fx if r[0] in ("psem_cm.__aexit__", "psem.release")]

# schema objects: a dict schema (name -> type) or a struct class with deserialize()
STRUCT_SCHEMA = ext_class(
    "struct_schema",
    deserialize=ExtMethod("deserialize", raises=[ValueError],
                          returns=lambda I, s, a, k: (T.opaque.fresh(I, "struct_value"), T.bytes.fresh(I, "rest"))),
)
DICT_SCHEMA = {"<dict schema>": None}  # stands for any dict schema: the code only tests isinstance(_, dict)

SchemaT = T.oneof(T.const(DICT_SCHEMA), T.ext(STRUCT_SCHEMA))

# who may complete the future of a pending command: only __call__ for a frame with that sequence
CMD_PROMISE = {"result": T.opaque, "excs": [lambda I: _invalid_command(I)], "no_cancel": True}


def _invalid_command(I):
    from pyvc.values import SObj

    return SObj(InvalidCommandError, {"args": ("invalid command",)})


PH = ClassSpec(
    "bellows.ezsp.protocol.ProtocolHandler",
    fields=dict(
        _handle_callback=T.ext(CB_HANDLER),
        _awaiting=T.map(T.tuple(T.range(0, 0xFFFF), SchemaT, T.future(promise=CMD_PROMISE))),
        _gw=T.ext(GATEWAY_PROXY),
        _seq=T.int,
        # any command table: the proof holds for every table, hence for all eleven versions at once
        COMMANDS=T.map(T.tuple(T.range(0, 0xFFFF), T.opaque, SchemaT)),
        COMMANDS_BY_ID=T.map(T.tuple(T.str, T.opaque, SchemaT)),
        tc_policy=T.int,
        _send_semaphore=T.ext(PSEM),
        _address_table_size=T.opt(T.int),
    ),
    invariants=[("seq_is_a_byte", lambda self: 0 <= self._seq < 256)],
    # while a command is suspended, other commands register / advance, replies pop entries
    interference=["_awaiting", "_seq", "tc_policy", "_address_table_size"],
)

# decoded values of a payload under a schema (assumed per-type codec, C07)
decoded_values = SpecFn("decoded_values", ["bytes"], "int", lambda d: hash(bytes(d)))


def _deserialize_dict_result(I, b):
    from pyvc.values import Opaque, OpaqueSort
    import z3

    data = b["data"]
    f = z3.Function("deserialize_dict.values", data.t.sort() if hasattr(data, "t") else z3.SeqSort(z3.BitVecSort(8)), OpaqueSort)
    from pyvc.interp import bytes_term

    v = Opaque(f(bytes_term(data)), "decoded")
    return ({"<values>": v}, T.bytes.fresh(I, "rest"))


@contract("bellows.types.deserialize_dict", props=["C06", "C08"])
def _(c):
    c.trusted = True  # proved as a fold in contracts/codec.py (C07); here only its outcome shape is used
    c.arg("data", T.bytes)
    c.arg("schema", T.const(DICT_SCHEMA))
    c.raises("undecodable", ValueError)  # stands for any Exception subclass raised by a type's deserialize
    c.returns_fn = _deserialize_dict_result


@contract("bellows.ezsp.protocol.ProtocolHandler._ezsp_frame_rx", props=["C06", "C08"])
def _(c):
    c.self(PH)
    c.trusted = True  # the three concrete readers are proved against their layouts in contracts/codec.py
    c.arg("data", T.bytes)
    c.raises("too_short", IndexError)
    c.raises("bad_id_field", ValueError)
    c.returns(T.tuple(T.byte, T.range(0, 0xFFFF), T.bytes))
    c.ensures("post.sequence_is_first_byte", lambda data, result: len(data) >= 1 and result[0] == data[0])
    c.modifies()


@contract("bellows.ezsp.protocol.ProtocolHandler._ezsp_frame", props=["C06"])
def _(c):
    c.self(PH)
    c.trusted = True  # proved per version in contracts/codec.py (C07)
    c.arg("name", T.str)
    c.raises("bad_arguments", KeyError)
    c.raises("bad_value", ValueError)
    c.returns(T.bytes_(minlen=3))
    c.ensures("post.carries_current_sequence", lambda self, result: result[0] == self._seq)
    c.modifies()


def _arbitrary_awaiting_key(I, b):
    from pyvc import smap

    k0 = T.range(0, 255).fresh(I, "k0")
    b["k0"] = k0
    smap.find_slot(I, b["self"].fields["_awaiting"], k0.t)


def results_set(fx):
    return [r for r in fx if r[0] == "future.set_result"]


def exceptions_set(fx):
    return [r for r in fx if r[0] == "future.set_exception"]


def callbacks_delivered(fx):
    return [r for r in fx if r[0] == "cb_handler.__call__"]


@contract("bellows.ezsp.protocol.ProtocolHandler.__call__", props=["C06", "C08", "C19"])
def _(c):
    c.self(PH)
    c.arg("data", T.bytes)
    c.setup = _arbitrary_awaiting_key
    # whatever is raised is an Exception subclass (so that EZSP.frame_received's handler is total)
    c.raises("malformed", Exception)
    c.ensures("post.only_exceptions", lambda raised: isinstance(raised, Exception), on="raise")
    # "replies that arrive late, twice or under another sequence number never complete a different
    #  call": only the entry registered under the frame's own sequence number can be touched ...
    c.ensures(
        "post.other_entries_untouched",
        lambda self, data, k0: implies(
            len(data) == 0 or k0 != data[0],
            (k0 in self._awaiting) == old(k0 in self._awaiting)
            and implies(
                k0 in self._awaiting,
                fut_state(self._awaiting[k0][2]) == old(fut_state(self._awaiting[k0][2])),
            ),
        ),
        on="any",
    )
    c.ensures(
        "post.others_unchanged",
        lambda self, data: implies(len(data) > 0, unchanged_except(self._awaiting, old(self._awaiting), [data[0]]))
        and implies(len(data) == 0, unchanged_except(self._awaiting, old(self._awaiting), [])),
        on="any",
    )
    # ... and a pending call is completed with a result only by a frame whose id is the id it expects
    # ("no pending command is completed with the payload of a different command")
    c.ensures(
        "post.completion_needs_matching_id",
        lambda self, data, fx: len(results_set(fx)) <= 1
        and all(
            len(data) > 0
            and old(data[0] in self._awaiting)
            and r[1] is old(self._awaiting[data[0]][2])
            and old(self._awaiting[data[0]][0]) == frame_id_of(fx)
            for r in results_set(fx)
        ),
        on="any",
    )
    c.ensures(
        "post.failure_only_for_invalid_command",
        lambda self, data, fx: len(exceptions_set(fx)) <= 1
        and all(
            old(data[0] in self._awaiting) and r[1] is old(self._awaiting[data[0]][2]) and type(r[2]) is InvalidCommandError
            for r in exceptions_set(fx)
        ),
        on="any",
    )
    # C19 "failed by timeout or EZSP error": whatever failure the receive path reports to a waiting command is an
    # EzspError -- the failure kind the watchdog (and every other caller) counts; a reply-borne failure of any other
    # class would pass through their handlers uncounted
    c.ensures(
        "post.command_failures_are_ezsp_errors",
        lambda fx: all(isinstance(r[2], EzspError) for r in exceptions_set(fx)),
        on="any",
    )
    # "frames that answer no pending call are delivered to the registered callbacks exactly once";
    # "no callback is invoked unless the frame decodes fully as a known frame of the active version"
    c.ensures(
        "post.callback_iff_no_pending_call",
        lambda self, data, fx: len(callbacks_delivered(fx))
        == (1 if (frame_id_of(fx) in self.COMMANDS_BY_ID and not old(data[0] in self._awaiting)) else 0),
    )
    c.ensures(
        "post.callback_only_after_full_decode",
        lambda self, data, fx: all(
            decoded(fx) and frame_id_of(fx) in self.COMMANDS_BY_ID and not old(data[0] in self._awaiting)
            for r in callbacks_delivered(fx)
        ),
        on="any",
    )
    c.ensures(
        "post.callback_gets_decoded_values",
        lambda fx: all(r[2][1] == decoded_result(fx) for r in callbacks_delivered(fx)),
        on="any",
    )
    c.ensures(
        "post.result_is_decoded_values",
        lambda fx: all(r[2] == decoded_result(fx) for r in results_set(fx)),
        on="any",
    )
    # "Commands issued afterwards still complete normally": nothing a later command depends on changes
    c.modifies("self._awaiting")


REGISTRY.contracts["bellows.ezsp.protocol.ProtocolHandler.__call__"].restrict(
    "C19", obligations=lambda name: "command_failures_are_ezsp_errors" in name or "::exc." in name
)


def frame_id_of(fx):
    """frame id returned by the header reader for this frame"""
    return [r for r in fx if r[0] == "ret" and r[1] == "bellows.ezsp.protocol.ProtocolHandler._ezsp_frame_rx"][0][2][1]


def decoded(fx):
    return len([r for r in fx if r[0] == "ret" and r[1] in ("bellows.types.deserialize_dict", "struct_schema.deserialize")]) == 1


def known_frame(fx):
    return True


def decoded_result(fx):
    r = [r for r in fx if r[0] == "ret" and r[1] in ("bellows.types.deserialize_dict", "struct_schema.deserialize")][0]
    return list(r[2][0].values()) if r[1] == "bellows.types.deserialize_dict" else r[2][0]


# ---------------------------------------------------------------------------
# command (C06)
# ---------------------------------------------------------------------------
def awaits_of(fx):
    return [r for r in fx if r[0] == "await"]


def created_futures(fx):
    return [r[1] for r in fx if r[0] == "loop.create_future"]


def ext_calls(fx, name):
    return [r for r in fx if r[0] == name]


def rets(fx, name):
    return [r[2] for r in fx if r[0] == "ret" and r[1] == name]


def _command_result(I, b):
    """What a command call returns at a call site: shaped by the live rx schema of the version class."""
    from pyvc import ncp
    from pyvc.values import SObj

    self_obj, name = b["self"], b["name"]
    cls = self_obj.cls if isinstance(self_obj, SObj) else type(self_obj)
    if not isinstance(name, str) or not isinstance(getattr(cls, "COMMANDS", None), dict) or not cls.COMMANDS:
        return T.opaque.fresh(I, "response")
    return ncp.response_of(I, cls, name)


def _command_pre_call(I, b):
    """TypeError/KeyError/AttributeError of a call that does not fit the live tx schema"""
    from pyvc import ncp
    from pyvc.values import SObj

    self_obj, name = b["self"], b["name"]
    cls = self_obj.cls if isinstance(self_obj, SObj) else type(self_obj)
    if isinstance(name, str) and isinstance(getattr(cls, "COMMANDS", None), dict) and cls.COMMANDS:
        ncp.check_request(I, cls, name, list(b.get("args", ())), dict(b.get("kwargs", {})))


@contract("bellows.ezsp.protocol.ProtocolHandler.command", props=["C06", "C10"])
def _(c):
    c.self(PH)
    c.effect_name = "ncp.command"
    c.arg("name", T.str)
    c.returns_fn = _command_result
    c.pre_call = _command_pre_call
    c.observe(lambda self: {"seq": self._seq})
    c.raises("timeout", TimeoutError)  # "raises a timeout once the command timeout passes without one"
    c.raises("link_failure", Exception)  # the send failed (link down) or the frame could not be built
    c.raises("cancelled", asyncio.CancelledError)
    # "queued commands start in priority order": the slot is requested with this command's class
    c.ensures(
        "post.priority_class_requested",
        lambda fx: slot_requests(fx)
        == [{"priority": p} for p in rets(fx, "bellows.ezsp.protocol.ProtocolHandler._get_command_priority")]
        and len(rets(fx, "bellows.ezsp.protocol.ProtocolHandler._get_command_priority")) == 1,
        on="any",
    )
    # "At most one command is awaiting its response at any time": everything between registration and
    # completion happens while holding the send slot (one permit: table obligation below)
    c.ensures(
        "post.sends_only_while_holding_slot",
        lambda fx: [r[0] for r in fx if r[0] in ("await", "gw.send_data")][:1] != ["gw.send_data"]
        and all(r[2] == "return" for r in awaits_of(fx)[:1] if len(ext_calls(fx, "gw.send_data")) > 0)
        and all(r[1] in ("psem_cm.__aenter__", "psem.acquire") for r in awaits_of(fx)[:1]),
        on="any",
    )
    c.ensures(
        "post.slot_released",
        lambda fx: len(slots_released(fx)) == len(slots_acquired(fx)),
        on="any",
    )
    # at the moment the request is handed to the link: the frame carries the sequence number the call
    # registered under, the entry holds this command's id / schema / a fresh pending future, and the
    # counter has advanced by exactly one modulo 256
    c.at_effect(
        "gw.send_data",
        "registered_under_own_sequence",
        lambda self, fx, eargs: len(created_futures(fx)) == 1
        and eargs[0][0] == (self._seq - 1) % 256
        and ((self._seq - 1) % 256) in self._awaiting
        and self._awaiting[(self._seq - 1) % 256][2] is created_futures(fx)[0]
        and fut_state(created_futures(fx)[0]) == 0,
    )
    c.at_effect(
        "gw.send_data",
        "sequence_advanced_by_one",
        lambda self, fx: self._seq == ([r[2]["seq"] for r in fx if r[0] == "observe" and r[1] == "resume"][-1] + 1) % 256,
    )
    c.at_effect(
        "gw.send_data",
        "frame_is_this_commands_frame",
        lambda fx, eargs: eargs[0] == rets(fx, "bellows.ezsp.protocol.ProtocolHandler._ezsp_frame")[0],
    )
    c.ensures("post.one_request_per_call", lambda fx: len(ext_calls(fx, "gw.send_data")) <= 1, on="any")
    # "frames that answer no pending call are delivered to the registered callbacks": once the call is over
    # (result, timeout, send failure, cancellation) its registration is gone, so a later frame carrying this
    # sequence number is not swallowed as a reply to it
    c.ensures(
        "post.no_stale_registration",
        lambda self, fx: all(
            ((s_["seq"] - 1) % 256) not in self._awaiting
            for s_ in [r[2] for r in fx if r[0] == "observe" and r[1] == "ext:gw.send_data"]
        ),
        on="any",
    )
    # "A command call returns exactly the decoded payload of the response frame that carries the sequence
    #  number placed in its own request": a normal return hands back the result of the future registered
    #  by this call (CMD_PROMISE: only __call__ on a frame with that sequence and id completes it)
    c.ensures(
        "post.returns_own_future_result",
        lambda result, fx: len(created_futures(fx)) == 1
        and awaits_of(fx)[-1][1] == "future"
        and awaits_of(fx)[-1][2] == "result"
        and fut_state(created_futures(fx)[0]) == 1
        and result == fut_result(created_futures(fx)[0]),
    )
    # "raises a timeout once the command timeout passes without one"
    c.ensures(
        "post.response_wait_bounded_by_command_timeout",
        lambda fx: all(r[2][0] == protocol.EZSP_CMD_TIMEOUT for r in fx if r[0] == "timeout.armed")
        and len([r for r in fx if r[0] == "timeout.armed"]) <= 1,
        on="any",
    )
    # "every command call that was in progress returns or raises within the sum of the command and link timeouts" (C10):
    # while it holds the send slot a call suspends at most twice -- once handing the frame to the link (bounded by the
    # link's retry budget, C05 post.total_wait_within_the_retry_budget) and once waiting for the response under the
    # command timeout -- and never otherwise
    c.ensures(
        "post.only_bounded_waits_while_holding_the_slot",
        lambda fx: [r[1] for r in awaits_of(fx)[1:]] in ([], ["gw.send_data"], ["gw.send_data", "future"])
        and all(r[1] in ("psem_cm.__aenter__", "psem.acquire") for r in awaits_of(fx)[:1]),
        on="any",
    )
    c.ensures(
        "post.waits_only_under_the_timeout",
        lambda fx: all(
            len([q for q in fx[: pos(fx, r)] if q[0] == "timeout.armed"]) == 1 for r in awaits_of(fx) if r[1] == "future"
        ),
        on="any",
    )
    c.modifies("self._awaiting", "self._seq")


@contract("bellows.ezsp.protocol.ProtocolHandler._get_command_priority", props=["C06"])
def _(c):
    c.self(PH)
    c.arg("name", T.str)
    c.returns(T.int)
    # "keep-alive and counter reads before ordinary commands before packet-send commands"
    c.ensures(
        "post.keepalive_first_packets_last",
        lambda name, result: implies(name in KEEPALIVE, result > 0)
        and implies(name in PACKET_SENDS, result < 0)
        and implies(name not in KEEPALIVE and name not in PACKET_SENDS and name not in OTHER_RANKED, result == 0),
    )
    c.ensures(
        "post.same_rank_within_class",
        lambda name, result: implies(name in KEEPALIVE, result == 999) and implies(name in PACKET_SENDS, result == -1),
    )
    c.modifies()


KEEPALIVE = ("nop", "readCounters", "readAndClearCounters")
PACKET_SENDS = ("sendUnicast", "sendMulticast", "sendBroadcast", "setSourceRoute", "setExtendedTimeout")
OTHER_RANKED = ("getValue",)  # ranked with the keep-alives by the code (watchdog free-buffer query); not required


def _one_command_slot(tier):
    ok = protocol.MAX_COMMAND_CONCURRENCY == 1
    import ast as _ast

    from pyvc import source

    node, _m, _h = source.find_function("bellows.ezsp.protocol.ProtocolHandler.__init__")
    sem = [_ast.unparse(s.value) for s in _ast.walk(node) if isinstance(s, _ast.Assign)
           and any(_ast.unparse(t_) == "self._send_semaphore" for t_ in s.targets)]
    ok = ok and sem == ["PriorityDynamicBoundedSemaphore(value=MAX_COMMAND_CONCURRENCY)"]
    return [{"name": "bellows.ezsp.protocol.ProtocolHandler.__init__::table.one_command_slot",
             "verdict": "proved" if ok else "refuted", "backend": "live-constant", "t": 0.0,
             "detail": f"MAX_COMMAND_CONCURRENCY={protocol.MAX_COMMAND_CONCURRENCY}, semaphore={sem}",
             "witness": None if ok else {"MAX_COMMAND_CONCURRENCY": protocol.MAX_COMMAND_CONCURRENCY}}]


from contracts import index as _index

_index.extra("C06")(_one_command_slot)

# C06 / C08 rest on the dispatch table being the inverse of the active version's COMMANDS ("frames that answer no
# pending call", "a known frame of the active version"): the contracts treat the table as symbolic, this ties it
# to what the real constructor builds for every version
from contracts.tables import by_id_obligations  # noqa: E402

_index.extra("C06")(by_id_obligations)
_index.extra("C08")(by_id_obligations)


def pos(fx, r):
    """position of the record r itself (identity, not equality) in the effects list"""
    return [i for i, q in enumerate(fx) if q is r][0]
