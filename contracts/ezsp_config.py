"""C16 (and the 'default configuration is then written without error' clause of C09): EZSP.write_config."""
import asyncio
import dataclasses

import bellows.config as conf
import bellows.ezsp as ezsp
import bellows.ezsp.config as ezcfg
import bellows.types as t
from bellows.exception import EzspError

from contracts import index as _index
from contracts.ezsp import EVENT, EZ
from contracts.ezsp_protocol import GATEWAY_PROXY
from pyvc.contracts import ClassSpec, T, contract, external


@external("voluptuous.schema_builder.Schema.__call__")
def _(I, args, kwargs):
    """Assumed: validation returns the user's entries (values accepted as given: the validators are range
    checks on ints / None) plus the schema's own defaults for keys the user did not give."""
    schema, data = args
    from pyvc.interp import _has_sym

    if not _has_sym(data):
        return schema(data)
    defaults = schema({})
    out = dict(defaults)
    for k, v in data.items():
        out[k] = v
    return out


def _handler_spec(cls):
    return ClassSpec(f"{cls.__module__}.{cls.__qualname__}", fields=dict(_seq=T.range(0, 255), tc_policy=T.int))


def ez_spec_for(cls):
    return ClassSpec(
        "bellows.ezsp.EZSP",
        fields={**EZ.fields, "_protocol": T.obj(_handler_spec(cls))},
        interference=["_callbacks"],
    )


# ---- override sets: every pair of key categories the code distinguishes, values symbolic --------------
BUF = t.EzspConfigId.CONFIG_PACKET_BUFFER_COUNT.name
UserValue = T.range(0, 0xFFFF)


def _categories(version):
    tv = min(version, max(ezcfg.DEFAULT_CONFIG))
    defaults = [c for c in ezcfg.DEFAULT_CONFIG.get(tv, []) if isinstance(c, ezcfg.RuntimeConfig)]
    grow = next(c.config_id.name for c in defaults if c.minimum)
    fixed = next(c.config_id.name for c in defaults if not c.minimum and c.config_id.name != BUF)
    cls = ezsp.EZSP._BY_VERSION[tv]
    schema_keys = [str(k) for k in cls.SCHEMAS[conf.CONF_EZSP_CONFIG].schema]
    dnames = {c.config_id.name for c in defaults}
    other = next(k for k in schema_keys if k not in dnames)
    return {"grow_only_default": grow, "plain_default": fixed, "no_default": other, "buffer_count": BUF}


class _ConfigT:
    """user override dict with the given keys; each value a 16-bit integer, or None (disabled) where flagged"""

    def __init__(self, entries):
        self.entries = entries  # list of (key, 'value' | 'none')

    def fresh(self, I, name):
        return {k: (None if kind == "none" else UserValue.fresh(I, f"{name}[{k}]")) for k, kind in self.entries}


def _override_sets(v):
    cats = _categories(v)
    names = list(cats.items())
    sets = [[]]
    for _cname, key in names:
        for kind in ("value", "none"):
            sets.append([(key, kind)])
    # pairs (both orders: the order of the user's dict decides insertion order in the merged table)
    for (_c1, k1) in names:
        for (_c2, k2) in names:
            if k1 != k2:
                sets.append([(k1, "value"), (k2, "value")])
    return sets


VERSIONS = sorted(ezsp.EZSP._BY_VERSION) + [15]


def _cases(quick_versions=None):
    cases = []
    for v in VERSIONS:
        tv = min(v, max(ezsp.EZSP._BY_VERSION))
        hs = _handler_spec(ezsp.EZSP._BY_VERSION[tv])
        for ents in _override_sets(v):
            label = f"v{v}: " + (", ".join(f"{k}={kind}" for k, kind in ents) or "no overrides")
            cases.append((label, {"__self__": {"_protocol": T.obj(hs), "_ezsp_version": T.const(v)}, "config": _ConfigT(ents)}))
    return cases


def sets_issued(fx):
    return [r[3] for r in fx if r[0] == "call" and r[1] == "ezsp.command" and r[2] == ("setConfigurationValue",)]


def gets_issued(fx):
    return [r[3] for r in fx if r[0] == "call" and r[1] == "ezsp.command" and r[2] == ("getConfigurationValue",)]


def answers(fx):
    return [r[2] for r in fx if r[0] == "ret" and r[1] == "ezsp.command"]


def is_capacity_setting(name):
    """'capacity setting (table sizes, child and network counts)'"""
    return name.endswith("_TABLE_SIZE") or name.endswith("_CACHE_SIZE") or name in (
        "CONFIG_MAX_END_DEVICE_CHILDREN", "CONFIG_SUPPORTED_NETWORKS")


def DEFAULTS(v):
    return [c for c in ezcfg.DEFAULT_CONFIG[min(v, max(ezcfg.DEFAULT_CONFIG))] if isinstance(c, ezcfg.RuntimeConfig)]


def skipped_as_large_enough(cfg, fx):
    return (
        cfg.minimum
        and t.sl_Status.from_ember_status(answers(fx)[0][0]) == t.sl_Status.OK
        and answers(fx)[0][1] >= cfg.value
    )


ALL_CAPACITY_NAMES = sorted(n for n in t.EzspConfigId.__members__ if is_capacity_setting(n))

EZ16 = ClassSpec("bellows.ezsp.EZSP", fields=dict(EZ.fields), interference=["_callbacks"])


BUF_ID = t.EzspConfigId.CONFIG_PACKET_BUFFER_COUNT


def entries_for(items, name):
    """the entries, among the ones about to be written, that set the configuration id of this name"""
    return [e for e in items if e.config_id == t.EzspConfigId[name]]


def _capacity_clause(name):
    return (
        f"own_default_is_grow_only[{name}]",
        lambda _items, user_config: implies(name not in user_config, all(e.minimum for e in entries_for(_items, name))),
    )


@contract("bellows.ezsp.EZSP.write_config", props=["C16", "C09"])
def _(c):
    c.self(EZ16)
    c.cases(*_cases())
    c.let("user_config", lambda config: config)
    c.raises("timeout", TimeoutError)
    c.raises("not_running", EzspError)
    c.raises("cancelled", asyncio.CancelledError)
    # "so that the default configuration is then written without error" (C09): in particular no KeyError
    # for an NCP newer than the newest known version, and none for a disabled setting without default
    c.loop(
        3,
        # the loop that writes the configuration values, wherever it stands in the function
        where="setConfigurationValue",
        # ---- the settings about to be written, in the order they will be written (`_items`: what the write loop
        # ranges over when it is reached -- whatever the code calls it and however it builds it) ------------------
        at_entry=[
            # "writes a user-supplied value exactly as given"
            (
                "user_value_entry",
                lambda _items, user_config: all(
                    len(entries_for(_items, name)) == 1
                    and entries_for(_items, name)[0].value == val
                    and not entries_for(_items, name)[0].minimum
                    for name, val in user_config.items()
                    if val is not None
                ),
            ),
            # "writes nothing for a setting the user disabled"
            (
                "disabled_not_written",
                lambda _items, user_config: all(entries_for(_items, name) == [] for name, val in user_config.items() if val is None),
            ),
            # defaults the user did not touch are written as the default table says (value and grow-only marker)
            (
                "defaults_kept",
                lambda self, _items, config: all(
                    [(e.value, e.minimum) for e in entries_for(_items, d.config_id.name)] == [(d.value, d.minimum)]
                    for d in DEFAULTS(self._ezsp_version)
                    if d.config_id.name not in config
                ),
            ),
            # "sets each setting at most once": one entry per configuration id
            (
                "one_entry_per_setting",
                lambda _items: all(len([x for x in _items if x.config_id == e.config_id]) == 1 for e in _items),
            ),
            # "sets the packet-buffer count after every other setting"
            (
                "buffer_count_last",
                lambda _items: implies(any(e.config_id == BUF_ID for e in _items), _items[-1].config_id == BUF_ID),
            ),
        ]
        # "never lowers a capacity setting ... when applying its own defaults": whatever is not the user's
        # own value (default table or schema default) is grow-only for capacity settings
        + [_capacity_clause(n) for n in ALL_CAPACITY_NAMES],
        # ---- one iteration of the write loop, for an arbitrary entry --------------------------------------
        # (`_item` is the element the loop is at, whatever the code calls its loop variable)
        each=[
            (
                "reads_then_at_most_one_set",
                lambda _item, fx: gets_issued(fx) == [{"configId": _item.config_id}]
                and len(sets_issued(fx)) <= 1
                and all(s == {"configId": _item.config_id, "value": _item.value} for s in sets_issued(fx)),
            ),
            (
                "grow_only_never_lowers",
                lambda _item, fx, raised: implies(
                    len(answers(fx)) >= 1 and skipped_as_large_enough(_item, fx), sets_issued(fx) == []
                ),
            ),
            (
                "otherwise_written",
                lambda _item, fx, raised: implies(
                    raised is None and not skipped_as_large_enough(_item, fx), len(sets_issued(fx)) == 1
                ),
            ),
        ],
        # "A rejected individual setting does not stop the remaining ones": a non-OK answer is not an
        # exception; only a failing command (timeout, stopped layer, cancellation) ends the write
        iteration_raises=(TimeoutError, EzspError, asyncio.CancelledError),
        # the body is verified for an arbitrary table entry (any id, any 16-bit value, either marker)
        generic=T.record(ezcfg.RuntimeConfig, config_id=T.enum(t.EzspConfigId), value=T.range(0, 0xFFFF), minimum=T.bool),
    )
    c.loop(
        2,
        where="setValue",
        each=[
            (
                "one_value_write",
                lambda cfg, fx: len([r for r in fx if r[0] == "call" and r[1] == "ezsp.command" and r[2] == ("setValue",)]) <= 1,
            )
        ],
        # ValueError: the NCP answered OK with a value shorter than the value's type (outside the property)
        iteration_raises=(TimeoutError, EzspError, asyncio.CancelledError, ValueError),
    )


# C09 is only about "the default configuration is then written without error"
_REG_WC = None
from pyvc.contracts import REGISTRY as _REG0

_REG0.contracts["bellows.ezsp.EZSP.write_config"].restrict(
    "C09",
    cases=lambda label: label.endswith("no overrides"),
    obligations=lambda name: "::exc." in name or "::raises." in name or ".each.exc." in name,
)


def _capacity_defaults_table(tier):
    """Table obligation on the live DEFAULT_CONFIG: every capacity setting is grow-only in every version."""
    out = []
    for v, table in sorted(ezcfg.DEFAULT_CONFIG.items()):
        bad = [c.config_id.name for c in table if isinstance(c, ezcfg.RuntimeConfig)
               and is_capacity_setting(c.config_id.name) and not c.minimum]
        out.append({"name": f"bellows.ezsp.config.DEFAULT_CONFIG[{v}]::table.capacity_defaults_grow_only",
                    "verdict": "proved" if not bad else "refuted", "backend": "live-table", "t": 0.0,
                    "detail": f"{len(table)} entries", "witness": {"version": v, "not_grow_only": bad} if bad else None})
    return out


_index.extra("C16")(_capacity_defaults_table)


def _native_sets(fx):
    return [r[3] for r in fx if r[0] == "call" and r[1] == "ezsp.command" and r[2] == ("setConfigurationValue",)]


_WC = None
from pyvc.contracts import REGISTRY as _REG2

_WC = _REG2.contracts["bellows.ezsp.EZSP.write_config"]
# native judgement of the table clauses on a whole run (NCP stub: every read answers 0 / success, so every
# entry of the table is written): the order and content of the set commands is the table
_WC.witness(3, "buffer_count_last", lambda fx: not any(s["configId"].name == BUF for s in _native_sets(fx)[:-1]))
_WC.witness(
    3, "own_default_is_grow_only[CONFIG_KEY_TABLE_SIZE]",
    # with an NCP that reports a larger readable value, a grow-only entry is not written; here the stub
    # reports 0, so the witness re-reads the table through the sets: the value set must not be a schema
    # default that the user never supplied (judged by the dedicated replay in tools/replay_f8.py)
    lambda fx: True,
)


def replay_f8():
    """Native witness of finding F8 (EZSP v7 only): with an empty user configuration and an NCP that reports a
    key table of 20 entries, write_config lowers CONFIG_KEY_TABLE_SIZE to the v7 schema default 12."""
    import asyncio as aio
    from unittest.mock import MagicMock

    import bellows.ezsp.v7 as v7

    try:
        ez = ezsp.EZSP({})
    except Exception:
        ez = ezsp.EZSP.__new__(ezsp.EZSP)
    ez._ezsp_version = 7
    ez._protocol = v7.EZSPv7(MagicMock(), MagicMock())
    ez._ezsp_event = MagicMock()
    ez._ezsp_event.is_set.return_value = True
    sets = []

    async def fake_command(name, *args, **kwargs):
        if name == "getConfigurationValue":
            return [t.EzspStatus.SUCCESS, 20]
        if name == "setConfigurationValue":
            sets.append((kwargs["configId"], kwargs["value"]))
            return [t.EzspStatus.SUCCESS]
        if name == "getValue":
            return [t.EzspStatus.SUCCESS, b"\x00"]
        return [t.EzspStatus.SUCCESS]

    ez._command = fake_command
    aio.run(ezsp.EZSP.write_config(ez, {}))
    return any(cid.name == "CONFIG_KEY_TABLE_SIZE" and val < 20 for cid, val in sets)
