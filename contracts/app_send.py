"""C12: a unicast is reported delivered only on its own delivery confirmation
(ControllerApplication.send_packet, _handle_frame_sent)."""
import asyncio

import zigpy.config
import zigpy.exceptions
import zigpy.types

import bellows.types as t
import bellows.zigbee.application as app
from bellows.exception import ControllerError, EzspError

from contracts import index as _index
from contracts.application import COUNTERS
from contracts.ezsp import EVENT
from pyvc.calls import ExtMethod
from pyvc.contracts import ClassSpec, REGISTRY, T, contract, external
from pyvc.ext import effect, ext_class, field
from pyvc.values import SObj

# ---------------------------------------------------------------------------
# collaborators (assumed: zigpy.util.Requests is absent from the installed zigpy; this is its contract)
# ---------------------------------------------------------------------------
# who completes the confirmation future of a request: _handle_frame_sent for the request's own key
CONFIRM_PROMISE = {"result": T.tuple(T.enum(t.sl_Status), T.opaque), "excs": [], "no_cancel": True}
REQUEST = ext_class("request", fields={"result": T.future(promise=CONFIRM_PROMISE)}, stable_fields=("result",))


def _req_enter(I, self_obj, args, kwargs):
    req = SObj(REQUEST, {"result": T.future(pending=True, promise=CONFIRM_PROMISE).fresh(I, "confirmation")}, tag="request")
    I.ctx.emit("pending.register", self_obj.fields["key"], req)
    return req


PENDING_CM = ext_class("pending_cm", fields={"key": T.opaque}, stable_fields=("key",))
PENDING_CM.methods["__enter__"] = ExtMethod("__enter__", fn=_req_enter)
PENDING_CM.methods["__exit__"] = ExtMethod("__exit__", effect=True)


def _pending_new(I, self_obj, args, kwargs):
    return SObj(PENDING_CM, {"key": args[0]}, tag="pending_cm")


def _pending_lookup(I, self_obj, args, kwargs):
    from pyvc.interp import PyRaise, mk_exc

    I.ctx.emit("pending.lookup", None, (args[0],), {})
    if I.ctx.choose(2, "pending: registered / KeyError") == 1:
        raise PyRaise(mk_exc(KeyError, args[0]))
    req = SObj(REQUEST, {"result": T.future(promise=CONFIRM_PROMISE).fresh(I, "registered_confirmation")}, tag="request")
    I.ctx.emit("pending.found", None, (args[0], req), {})
    return req


def _pending_contains(I, self_obj, args, kwargs):
    # the table is a dict keyed by (destination, tag): membership of an arbitrary key is unconstrained
    I.ctx.emit("pending.contains", None, (args[0],), {})
    from pyvc.values import SBool

    return SBool(I.ctx.fresh_bool("pending.has"))


def _pending_iter(I, self_obj, args, kwargs):
    # keys of the other requests in flight: none, one or two arbitrary (destination, tag) pairs
    n = I.ctx.choose(3, "requests in flight: 0 / 1 / 2")
    keys = [(T.typed_int(t.EmberNodeId).fresh(I, f"other_dest{i}"), T.range(0, 255).fresh(I, f"other_tag{i}")) for i in range(n)]
    I.ctx.emit("pending.iterate", None, tuple(keys), {})
    return keys


PENDING = ext_class("requests")
PENDING.methods["new"] = ExtMethod("new", fn=_pending_new)
PENDING.methods["__getitem__"] = ExtMethod("__getitem__", fn=_pending_lookup)
PENDING.methods["__contains__"] = ExtMethod("__contains__", fn=_pending_contains)
PENDING.methods["__iter__"] = ExtMethod("__iter__", fn=_pending_iter)

ASYNC_CM = lambda name: ext_class(  # noqa: E731
    name,
    __aenter__=ExtMethod("__aenter__", effect=True, is_async=True),
    __aexit__=ExtMethod("__aexit__", effect=True),
)
LOCK = ASYNC_CM("req_lock")
CONCURRENCY_CM = ASYNC_CM("concurrency_slot")

SEND_FAILURES = [asyncio.TimeoutError, EzspError]


def _enqueue_answer(I, s, a, k):
    return (T.enum(t.sl_Status).fresh(I, "enqueue_status"), T.typed_int(t.uint8_t).fresh(I, "aps_sequence"))


EZSP_SEND = ext_class(
    "ezsp",
    fields={"is_ezsp_running": T.bool},
    set_extended_timeout=ExtMethod("set_extended_timeout", effect=True, is_async=True, raises=SEND_FAILURES),
    set_source_route=ExtMethod("set_source_route", effect=True, is_async=True, raises=SEND_FAILURES,
                               returns=lambda I, s, a, k: T.enum(t.sl_Status).fresh(I, "route_status")),
    send_unicast=ExtMethod("send_unicast", effect=True, is_async=True, raises=SEND_FAILURES, returns=_enqueue_answer),
    send_multicast=ExtMethod("send_multicast", effect=True, is_async=True, raises=SEND_FAILURES, returns=_enqueue_answer),
    send_broadcast=ExtMethod("send_broadcast", effect=True, is_async=True, raises=SEND_FAILURES, returns=_enqueue_answer),
)
DEVICE = ext_class("device", fields={"nwk": T.typed_int(t.EmberNodeId), "ieee": T.opaque}, stable_fields=("nwk", "ieee"))
PAYLOAD = ext_class("payload", serialize=ExtMethod("serialize", returns=lambda I, s, a, k: T.bytes.fresh(I, "payload_bytes")))


@external("zigpy.application.ControllerApplication.get_device_with_address")
def _(I, args, kwargs):
    from pyvc.interp import PyRaise, mk_exc

    if I.ctx.choose(2, "device known?") == 1:
        raise PyRaise(mk_exc(KeyError, "unknown device"))
    return T.ext(DEVICE).fresh(I, "device")


@external("zigpy.application.ControllerApplication.get_sequence")
def _(I, args, kwargs):
    v = T.range(0, 255).fresh(I, "message_tag")
    I.ctx.emit("zigpy.get_sequence", None, (v,), {})
    return v


@external("zigpy.application.ControllerApplication._limit_concurrency")
def _(I, args, kwargs):
    I.ctx.emit("zigpy.limit_concurrency", None, (), dict(kwargs))
    return SObj(CONCURRENCY_CM, {}, tag="concurrency_slot")


class _ConfigT:
    def fresh(self, I, name):
        return {zigpy.config.CONF_SOURCE_ROUTING: T.bool.fresh(I, "source_routing")}


APP_SEND = ClassSpec(
    "bellows.zigbee.application.ControllerApplication",
    fields=dict(
        _ezsp=T.ext(EZSP_SEND),
        _ctrl_event=T.ext(EVENT),
        _pending=T.ext(PENDING),
        _req_lock=T.ext(LOCK),
        config=_ConfigT(),
        state=T.ext(ext_class("state_send", fields={"counters": T.ext(COUNTERS)}, stable_fields=("counters",))),
    ),
    interference=[],
)


def _packet(mode):
    AddrT = T.record(zigpy.types.AddrModeAddress, frozen=False, addr_mode=T.const(mode),
                     address=T.typed_int(t.EmberNodeId) if mode != zigpy.types.AddrMode.IEEE else T.opaque)
    return T.record(
        zigpy.types.ZigbeePacket, frozen=False,
        priority=T.opaque, src=T.none, src_ep=T.typed_int(t.uint8_t), dst=AddrT, dst_ep=T.opt(T.typed_int(t.uint8_t)),
        source_route=T.oneof(T.none, T.const([t.EmberNodeId(0x1234)])), extended_timeout=T.bool,
        tsn=T.typed_int(t.uint8_t), profile_id=T.typed_int(t.uint16_t), cluster_id=T.typed_int(t.uint16_t),
        data=T.ext(PAYLOAD), radius=T.typed_int(t.uint8_t), non_member_radius=T.typed_int(t.uint8_t),
    )


def ezsp_calls(fx):
    return [r for r in fx if r[0] == "call" and r[1].startswith("ezsp.")]


def sends(fx):
    return [r for r in fx if r[0] == "call" and r[1] in ("ezsp.send_unicast", "ezsp.send_multicast", "ezsp.send_broadcast")]


def enqueue_statuses(fx):
    return [r[2][0] for r in fx if r[0] == "ret" and r[1] in ("ezsp.send_unicast", "ezsp.send_multicast", "ezsp.send_broadcast")]


def awaits_of(fx):
    return [r for r in fx if r[0] == "await"]


def is_busy(s):
    return s in (t.sl_Status.ZIGBEE_MAX_MESSAGE_LIMIT_REACHED, t.sl_Status.TRANSMIT_BUSY, t.sl_Status.ALLOCATION_FAILED)


def lock_depth_before(fx, r):
    i = pos(fx, r)
    acquired = len([q for q in fx[:i] if q[0] == "await" and q[1] == "req_lock.__aenter__" and q[2] == "return"])
    released = len([q for q in fx[:i] if q[0] == "req_lock.__aexit__"])
    return acquired - released


@contract("bellows.zigbee.application.ControllerApplication.send_packet", props=["C12"])
def _(c):
    c.self(APP_SEND)
    c.cases(
        ("unicast", {"packet": _packet(zigpy.types.AddrMode.NWK)}),
        ("multicast", {"packet": _packet(zigpy.types.AddrMode.Group)}),
        ("broadcast", {"packet": _packet(zigpy.types.AddrMode.Broadcast)}),
        ("ieee", {"packet": _packet(zigpy.types.AddrMode.IEEE)}),
    )
    c.raises("not_running", ControllerError)
    c.raises("unknown_ieee", ValueError)
    c.raises("delivery", zigpy.exceptions.DeliveryError)
    c.raises("timeout", TimeoutError)
    c.raises("ezsp", EzspError)
    c.raises("cancelled", asyncio.CancelledError)
    # "returns normally only if the NCP accepted the message and a delivery confirmation for the same
    #  destination and message tag reported success"
    c.ensures(
        "post.normal_return_means_accepted",
        lambda fx: len(enqueue_statuses(fx)) >= 1 and enqueue_statuses(fx)[-1] == t.sl_Status.OK
        and all(is_busy(s) for s in enqueue_statuses(fx)[:-1]),
    )
    c.ensures(
        "post.unicast_needs_own_successful_confirmation",
        lambda packet, fx: implies(
            packet.dst.addr_mode in (zigpy.types.AddrMode.NWK, zigpy.types.AddrMode.IEEE),
            awaits_of(fx)[-1][1] == "future"
            and awaits_of(fx)[-1][2] == "result"
            and len([r for r in fx if r[0] == "pending.register"]) == 1
            and fut_state([r[2] for r in fx if r[0] == "pending.register"][0].result) == 1
            and t.sl_Status.from_ember_status(fut_result([r[2] for r in fx if r[0] == "pending.register"][0].result)[0]) == t.sl_Status.OK,
        ),
    )
    # "it raises a delivery error if the NCP refuses the message" -- at once, no further attempt
    c.ensures(
        "post.refusal_is_final",
        lambda fx: all(is_busy(s) or s == t.sl_Status.OK for s in enqueue_statuses(fx)[:-1]),
        on="any",
    )
    # "is still busy after the fixed number of spaced retries"
    c.ensures(
        "post.at_most_the_fixed_number_of_attempts",
        lambda fx: len(sends(fx)) <= len(app.RETRY_DELAYS)
        and [r[2][0] for r in fx if r[0] == "asyncio.sleep"] == app.RETRY_DELAYS[: len([r for r in fx if r[0] == "asyncio.sleep"])]
        and len([r for r in fx if r[0] == "asyncio.sleep"]) <= sum([(1 if is_busy(s) else 0) for s in enqueue_statuses(fx)]),
        on="any",
    )
    # "a timeout if no confirmation arrives"
    c.ensures(
        "post.confirmation_wait_bounded",
        lambda fx: all(
            [q[2][0] for q in fx[: pos(fx, r)] if q[0] == "timeout.armed"] == [app.APS_ACK_TIMEOUT]
            for r in awaits_of(fx) if r[1] == "future"
        ),
        on="any",
    )
    # "Whatever the outcome no bookkeeping for the request remains": registered under (destination, tag),
    # removed on every exit
    c.ensures(
        "post.bookkeeping_removed",
        lambda fx: len([r for r in fx if r[0] == "pending_cm.__exit__"]) == len([r for r in fx if r[0] == "pending.register"])
        and len([r for r in fx if r[0] == "pending.register"]) <= 1,
        on="any",
    )
    c.ensures(
        "post.registered_under_destination_and_tag",
        lambda fx: all(
            r[1] == (sends_destination(fx, r), [q[2][0] for q in fx if q[0] == "zigpy.get_sequence"][0])
            for r in fx if r[0] == "pending.register"
        ),
        on="any",
    )
    # every request carries the tag it registered
    c.ensures(
        "post.sends_carry_the_registered_tag",
        lambda fx: all(s[3]["message_tag"] == [q[2][0] for q in fx if q[0] == "zigpy.get_sequence"][0] for s in sends(fx)),
        on="any",
    )
    # "the route or extended-timeout set-up commands of one request are never interleaved with another
    #  request's set-up and send": every NCP command of an attempt is issued while this task holds the
    #  request lock, and the lock is released after each attempt
    c.ensures("post.ncp_commands_only_under_the_lock", lambda fx: all(lock_depth_before(fx, r) == 1 for r in ezsp_calls(fx)), on="any")
    c.ensures(
        "post.lock_released",
        lambda fx: len([q for q in fx if q[0] == "req_lock.__aexit__"])
        == len([q for q in fx if q[0] == "await" and q[1] == "req_lock.__aenter__" and q[2] == "return"]),
        on="any",
    )
    c.ensures(
        "post.setup_precedes_its_send_in_the_same_critical_section",
        lambda fx: all(
            lock_releases_between(fx, r, next_send_after(fx, r)) == 0
            for r in ezsp_calls(fx) if r[1] in ("ezsp.set_source_route", "ezsp.set_extended_timeout") and next_send_after(fx, r) is not None
        ),
        on="any",
    )
    c.modifies()


def sends_destination(fx, reg):
    """the destination address the packet is finally sent to (after the IEEE fallback)"""
    return reg[1][0]


def next_send_after(fx, r):
    i = pos(fx, r)
    for q in fx[i + 1:]:
        if q[0] == "call" and q[1] in ("ezsp.send_unicast", "ezsp.send_multicast", "ezsp.send_broadcast"):
            return q
    return None


def lock_releases_between(fx, a, b):
    i, j = pos(fx, a), pos(fx, b)
    return len([q for q in fx[i:j] if q[0] == "req_lock.__aexit__"])


# ---------------------------------------------------------------------------
# the confirmation side
# ---------------------------------------------------------------------------
@contract("bellows.zigbee.application.ControllerApplication._handle_frame_sent", props=["C12"])
def _(c):
    c.self(APP_SEND)
    c.effect_name = "app.handle_frame_sent"
    c.arg("message_type", T.enum(t.EmberOutgoingMessageType))
    c.arg("destination", T.typed_int(t.EmberNodeId))
    c.arg("aps_frame", T.opaque)
    c.arg("message_tag", T.range(0, 255))
    c.arg("status", T.enum(t.sl_Status))
    c.arg("message", T.bytes)
    # "confirmations for other tags or destinations, duplicates and unsolicited ones never complete it":
    # only the request registered under exactly (destination, tag) is looked up and completed; a missing or
    # already completed request is absorbed; nothing escapes
    c.ensures(
        "post.looks_up_destination_and_tag",
        lambda destination, message_tag, fx: [r[2][0] for r in fx if r[0] == "pending.lookup"] == [(destination, message_tag)],
    )
    c.ensures(
        "post.completes_only_the_found_request",
        lambda status, fx: len([r for r in fx if r[0] == "future.set_result"]) <= 1
        and all(
            len([q for q in fx if q[0] == "pending.found"]) == 1
            and r[1] is [q for q in fx if q[0] == "pending.found"][0][2][1].result
            and r[2][0] == status
            for r in fx if r[0] == "future.set_result"
        ),
    )
    c.ensures("post.counted_once", lambda fx: len([r for r in fx if r[0] == "counter.increment"]) == 1)
    c.modifies()


def pos(fx, r):
    """position of the record r itself (identity, not equality) in the effects list"""
    return [i for i, q in enumerate(fx) if q is r][0]
