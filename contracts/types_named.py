"""C18 - status normalisation: contract on sl_Status.from_ember_status.

Clauses are taken from the property statement: never raises; unified statuses unchanged; result is OK
exactly for the family's success code; the steering codes map to their unified counterparts.  The
live SL_STATUS_MAP is data of the current tree (concrete dict), so the obligations quantify over
every value the status type can hold (all 256 of each 8-bit family, every 32-bit unified value).
"""
import bellows.types as t

from pyvc.contracts import T, contract

# steering codes named in the statement -> the unified statuses that steer the same decision
BUSY_SET = (
    t.sl_Status.ZIGBEE_MAX_MESSAGE_LIMIT_REACHED,
    t.sl_Status.TRANSMIT_BUSY,
    t.sl_Status.ALLOCATION_FAILED,
    t.sl_Status.BUSY,
)
STEERING = (
    (t.EmberStatus.MAX_MESSAGE_LIMIT_REACHED, BUSY_SET),
    (t.EmberStatus.NETWORK_BUSY, BUSY_SET),
    (t.EmberStatus.NO_BUFFERS, BUSY_SET),
    (t.EmberStatus.NOT_JOINED, (t.sl_Status.NOT_JOINED,)),
    (t.EmberStatus.NOT_FOUND, (t.sl_Status.NOT_FOUND,)),
    (t.EmberStatus.INDEX_OUT_OF_RANGE, (t.sl_Status.INVALID_INDEX,)),
    (t.EmberStatus.NETWORK_UP, (t.sl_Status.NETWORK_UP,)),
    (t.EmberStatus.NETWORK_DOWN, (t.sl_Status.NETWORK_DOWN,)),
)


@contract("bellows.types.named.sl_Status.from_ember_status", props=["C18"])
def _(c):
    c.cases(
        ("unified", {"cls": T.const(t.sl_Status), "status": T.enum(t.sl_Status)}),
        ("ember", {"cls": T.const(t.sl_Status), "status": T.enum(t.EmberStatus)}),
        ("ezsp", {"cls": T.const(t.sl_Status), "status": T.enum(t.EzspStatus)}),
    )
    # total: no raises clause is declared, so any exception on any path is a failed obligation
    c.returns(T.enum(t.sl_Status))
    c.ensures("post.is_unified", lambda result: type(result) is t.sl_Status)
    c.ensures(
        "post.unified_unchanged",
        lambda status, result: result == status if type(status) is t.sl_Status else True,
    )
    c.ensures(
        "post.ok_iff_success",
        lambda status, result: (result == t.sl_Status.OK) == (status == 0),
    )
    c.ensures(
        "post.steering",
        lambda status, result: all(
            (result in targets) if status == code else True for code, targets in STEERING
        )
        if type(status) is t.EmberStatus
        else True,
    )


def _deterministic_result(I, b):
    """from_ember_status is a function of (family, value): the same argument gives the same result at every
    call site (its value is constrained by the ensures clauses above)"""
    import enum

    import z3

    from pyvc.interp import int_term
    from pyvc.values import SEnum

    status = b["status"]
    cls = status.cls if isinstance(status, SEnum) else type(status)
    fams = {t.sl_Status: 0, t.EmberStatus: 1, t.EzspStatus: 2}
    f = z3.Function("from_ember_status", z3.IntSort(), z3.IntSort(), z3.IntSort())
    r = f(z3.IntVal(fams.get(cls, 9)), int_term(status))
    I.ctx.assume(z3.And(r >= 0, r <= 0xFFFFFFFF))
    return SEnum(t.sl_Status, r)


from pyvc.contracts import REGISTRY as _REGT

_REGT.contracts["bellows.types.named.sl_Status.from_ember_status"].returns_fn = _deterministic_result
