"""C18 - status normalisation: contract on sl_Status.from_ember_status.

Clauses are taken from the property statement: never raises; unified statuses unchanged; result is OK
exactly for the family's success code; the steering codes map to their unified counterparts.  The
live SL_STATUS_MAP is data of the current tree (concrete dict), so the obligations quantify over
every value the status type can hold (all 256 of each 8-bit family, every 32-bit unified value).
"""
import bellows.types as t

from pyvc.contracts import T, contract

# steering codes named in the statement -> the unified statuses that steer the same decision
# "busy ... codes that steer retries": the unified statuses on which send_packet retries the enqueue (the retry
# decision reads exactly these three; a busy code mapped anywhere else -- sl_Status.BUSY included -- is a refusal)
BUSY_SET = (
    t.sl_Status.ZIGBEE_MAX_MESSAGE_LIMIT_REACHED,
    t.sl_Status.TRANSMIT_BUSY,
    t.sl_Status.ALLOCATION_FAILED,
)
STEERING = (
    (t.EmberStatus.MAX_MESSAGE_LIMIT_REACHED, BUSY_SET),
    (t.EmberStatus.NETWORK_BUSY, BUSY_SET),
    (t.EmberStatus.NO_BUFFERS, BUSY_SET),
    (t.EmberStatus.NOT_JOINED, (t.sl_Status.NOT_JOINED,)),
    (t.EmberStatus.NOT_FOUND, (t.sl_Status.NOT_FOUND,)),
    (t.EmberStatus.INDEX_OUT_OF_RANGE, (t.sl_Status.INVALID_INDEX,)),
    (t.EmberStatus.NETWORK_UP, (t.sl_Status.NETWORK_UP,)),
    (t.EmberStatus.NETWORK_DOWN, (t.sl_Status.NETWORK_DOWN,)),
)


@contract("bellows.types.named.sl_Status.from_ember_status", props=["C18", "C12"])
def _(c):
    c.cases(
        ("unified", {"cls": T.const(t.sl_Status), "status": T.enum(t.sl_Status)}),
        ("ember", {"cls": T.const(t.sl_Status), "status": T.enum(t.EmberStatus)}),
        ("ezsp", {"cls": T.const(t.sl_Status), "status": T.enum(t.EzspStatus)}),
    )
    # total: no raises clause is declared, so any exception on any path is a failed obligation
    c.returns(T.enum(t.sl_Status))
    c.ensures("post.is_unified", lambda result: type(result) is t.sl_Status)
    c.ensures(
        "post.unified_unchanged",
        lambda status, result: result == status if type(status) is t.sl_Status else True,
    )
    c.ensures(
        "post.ok_iff_success",
        lambda status, result: (result == t.sl_Status.OK) == (status == 0),
    )
    c.ensures(
        "post.steering",
        lambda status, result: all(
            (result in targets) if status == code else True for code, targets in STEERING
        )
        if type(status) is t.EmberStatus
        else True,
    )


def _deterministic_result(I, b):
    """from_ember_status is a function of (family, value): the same argument gives the same result at every
    call site (its value is constrained by the ensures clauses above)"""
    import enum

    import z3

    from pyvc.interp import int_term
    from pyvc.values import SEnum

    status = b["status"]
    cls = status.cls if isinstance(status, SEnum) else type(status)
    fams = {t.sl_Status: 0, t.EmberStatus: 1, t.EzspStatus: 2}
    f = z3.Function("from_ember_status", z3.IntSort(), z3.IntSort(), z3.IntSort())
    r = f(z3.IntVal(fams.get(cls, 9)), int_term(status))
    I.ctx.assume(z3.And(r >= 0, r <= 0xFFFFFFFF))
    return SEnum(t.sl_Status, r)


from pyvc.contracts import REGISTRY as _REGT

_REGT.contracts["bellows.types.named.sl_Status.from_ember_status"].returns_fn = _deterministic_result


# ---------------------------------------------------------------------------
# memoisation (functools.lru_cache / cache) of the conversion: sound only if the result is a function of the
# cache key.  Int-backed enum members of different families with the same number are == and hash alike, so a
# cache keyed on (cls, status) must give equal results for them.
# ---------------------------------------------------------------------------
from contracts import index as _index


def same_key_same_result(status1, status2):
    """two conversions whose arguments a cache cannot tell apart"""
    return (t.sl_Status.from_ember_status(status1), t.sl_Status.from_ember_status(status2))


_FAMILIES = (("unified", t.sl_Status), ("ember", t.EmberStatus), ("ezsp", t.EzspStatus))


@contract("contracts.types_named.same_key_same_result", props=[])  # run only when the function is memoised
def _(c):
    c.cases(*[(f"{a}/{b}", {"status1": T.enum(ca), "status2": T.enum(cb)}) for a, ca in _FAMILIES for b, cb in _FAMILIES if a < b])
    c.inline_callees = True
    c.requires("pre.equal_cache_keys", lambda status1, status2: status1 == status2)
    c.ensures("lemma.result_depends_on_the_cache_key_only", lambda result: result[0] == result[1])


_MEMO_DECORATORS = ("functools.lru_cache", "functools.cache", "lru_cache", "cache")


def _decorators_of(qualname):
    import ast as _ast

    from pyvc import source

    node, _m, _h = source.find_function(qualname)
    return [_ast.unparse(d) for d in node.decorator_list]


_fes = _REGT.contracts["bellows.types.named.sl_Status.from_ember_status"]
# the body proof accepts a memoising decorator; whether memoising is sound is the relational obligation below
_fes.accepted_decorators = tuple(
    d for d in ("functools.lru_cache", "functools.cache", "lru_cache", "cache", "functools.lru_cache(maxsize=None)",
                "functools.lru_cache()", "lru_cache(maxsize=None)", "lru_cache()")
)


def _replay_memo(inputs):
    """runs the real (memoised) function on the two arguments and compares with the un-memoised body"""
    from pyvc.replay import Builder, Recorder

    b = Builder(Recorder())
    s1, s2 = b.build(inputs["status1"]), b.build(inputs["status2"])
    f = t.sl_Status.from_ember_status
    raw = getattr(f, "__wrapped__", None)
    if hasattr(f, "cache_clear"):
        f.cache_clear()
    r1, r2 = f(s1), f(s2)
    want2 = raw(t.sl_Status, s2) if raw is not None else None
    return {"first_call": repr(s1) + " -> " + repr(r1), "second_call": repr(s2) + " -> " + repr(r2),
            "second_call_without_cache": repr(want2), "confirmed": raw is not None and r2 != want2}


def _memoisation_sound(tier):
    from pyvc import engine

    decs = _decorators_of("bellows.types.named.sl_Status.from_ember_status")
    memo = [d for d in decs if d.split("(")[0] in _MEMO_DECORATORS]
    name = "bellows.types.named.sl_Status.from_ember_status::memo.result_depends_on_cache_key_only"
    if not memo:
        return [{"name": name, "verdict": "proved", "backend": "source", "t": 0.0,
                 "detail": f"not memoised (decorators: {decs})", "witness": None}]
    con = _REGT.contracts["contracts.types_named.same_key_same_result"]
    worst, detail, witness, tsum = "proved", [], None, 0.0
    for case in engine.cases_of(con):
        rep = engine.verify(con, case).to_dict()
        tsum += rep["solver_s"]
        for k, o in rep["obligations"].items():
            if k.endswith("__canary__"):
                continue
            if o["verdict"] == "refuted" and k.endswith("lemma.result_depends_on_the_cache_key_only"):
                worst = "refuted"
                ref = [r for r in rep["refutations"] if r["obligation"] == k]
                witness = {"families": case[0], "inputs": ref[0]["inputs"] if ref else None}
                witness["native_replay"] = _replay_memo(ref[0]["inputs"]) if ref else None
            elif o["verdict"] != "proved" and worst == "proved":
                worst = "undecided"
        if rep["outside_reach"] and worst == "proved":
            worst = "undecided"
            detail.append(rep["outside_reach"])
    return [{"name": name, "verdict": worst, "backend": "z3", "t": tsum,
             "detail": f"memoised with {memo}: equal cache keys must give equal results; {detail}", "witness": witness}]


_index.extra("C18")(_memoisation_sound)
