"""C07 (and the header readers used by C06/C08): EZSP frame headers and command schemas as a codec.

* the three header writers / readers against the layouts of UG100 (any command table: the command id
  is symbolic), and their round trip as a lemma over the two contracts;
* serialize_dict / deserialize_dict over an *abstract* per-type codec (assumed: deserialize(serialize(v)
  + r) == (v, r)), for every schema length that occurs in the live tables; positional == keyword;
* table obligations evaluated on the eleven live command tables (finite, exhaustive).
"""
import z3

import bellows.ezsp as ezsp_mod
import bellows.ezsp.protocol as protocol
import bellows.ezsp.v4 as v4
import bellows.ezsp.v5 as v5
import bellows.ezsp.v8 as v8
import bellows.types as t

from contracts import index as _index
from contracts.codec_headers import V4, V5, V8  # noqa: F401  (header contracts are part of C07)
from pyvc.calls import ExtMethod
from pyvc.contracts import ClassSpec, T, contract, external
from pyvc.ext import effect, ext_class, field
from pyvc.values import ByteSeq, Opaque, OpaqueSort, SBytes, SInt, SObj

# ---------------------------------------------------------------------------
# schemas over an abstract per-type codec
# ---------------------------------------------------------------------------
_SER = z3.Function("ser", z3.IntSort(), OpaqueSort, ByteSeq)  # ser(type id, value) : bytes


def _type_call(I, self_obj, args, kwargs):
    (v,) = args
    tv = SObj(TYPED_VALUE, {"tid": self_obj.fields["tid"], "v": v}, tag="typed_value")
    return tv


def _value_serialize(I, self_obj, args, kwargs):
    from pyvc.interp import int_term

    v = self_obj.fields["v"]
    if not isinstance(v, Opaque):
        from pyvc.ctx import Unsupported

        raise Unsupported("abstract codec over non-opaque value")
    I.ctx.emit("type.serialize", self_obj.fields["tid"], v)
    return SBytes(_SER(int_term(self_obj.fields["tid"]), v.t))


def _type_deserialize(I, self_obj, args, kwargs):
    """Assumed per-type codec: T.deserialize(T(v).serialize() + r) == (T(v), r); anything else either
    yields some value and remainder or raises."""
    from pyvc.interp import PyRaise, bytes_term, int_term, mk_exc

    (data,) = args
    d = z3.simplify(bytes_term(data))
    tid = z3.simplify(int_term(self_obj.fields["tid"]))
    parts = list(d.children()) if z3.is_app(d) and d.decl().kind() == z3.Z3_OP_SEQ_CONCAT else [d]
    head = parts[0]
    if z3.is_app(head) and head.decl().name() == "ser" and z3.eq(z3.simplify(head.arg(0)), tid):
        rest = parts[1:]
        r = z3.Empty(ByteSeq) if not rest else (rest[0] if len(rest) == 1 else z3.Concat(*rest))
        return (Opaque(head.arg(1), "value"), SBytes(r))
    if I.ctx.choose(2, "deserialize: ok / raise") == 1:
        raise PyRaise(mk_exc(ValueError, "undecodable"))
    return (T.opaque.fresh(I, "decoded"), T.bytes.fresh(I, "rest"))


ABSTRACT_TYPE = ext_class("wire_type", fields={"tid": T.int}, stable_fields=("tid",))
ABSTRACT_TYPE.methods["__call__"] = ExtMethod("__call__", fn=_type_call)
ABSTRACT_TYPE.methods["deserialize"] = ExtMethod("deserialize", fn=_type_deserialize)
TYPED_VALUE = ext_class("typed_value", fields={}, stable_fields=("tid", "v"))
TYPED_VALUE.methods["serialize"] = ExtMethod("serialize", fn=_value_serialize)


def _schema(n):
    return T.const(None) if n is None else _SchemaT(n)


class _SchemaT:
    """dict of n declared parameters k0..k{n-1} -> abstract wire types (distinct type ids are not assumed)"""

    def __init__(self, n):
        self.n = n

    def fresh(self, I, name):
        return {f"k{i}": T.ext(ABSTRACT_TYPE).fresh(I, f"{name}.k{i}") for i in range(self.n)}


def spec_join(schema, values):
    """the specification: concatenation, in declared order, of each value serialised as its declared type"""
    out = b""
    for (k, ty), v in zip(schema.items(), values):
        out = out + ty(v).serialize()
    return out


def _live_schema_lengths():
    lens = set()
    for cls in ezsp_mod.EZSP._BY_VERSION.values():
        for _name, (_cid, tx, rx) in cls.COMMANDS.items():
            for s in (tx, rx):
                if isinstance(s, dict):
                    lens.add(len(s))
    return sorted(lens)


LENGTHS = _live_schema_lengths()


def _vals(n):
    return T.tuple(*[T.opaque for _ in range(n)])


class _KwT:
    def __init__(self, n, order):
        self.n, self.order = n, order

    def fresh(self, I, name):
        vals = [T.opaque.fresh(I, f"{name}.k{i}") for i in range(self.n)]
        idx = list(range(self.n))
        if self.order == "reversed":
            idx.reverse()
        elif self.order == "rotated":
            idx = idx[1:] + idx[:1]
        return {f"k{i}": vals[i] for i in idx}


def _ser_cases():
    cases = []
    for n in LENGTHS:
        cases.append((f"positional[{n}]", {"args": _vals(n), "kwargs": T.const({}), "schema": _SchemaT(n)}))
        if n >= 1:
            cases.append((f"keywords[{n}]", {"args": T.const(()), "kwargs": _KwT(n, "declared"), "schema": _SchemaT(n)}))
        if n >= 2:
            cases.append((f"keywords_reversed[{n}]", {"args": T.const(()), "kwargs": _KwT(n, "reversed"), "schema": _SchemaT(n)}))
    return cases


@contract("bellows.types.serialize_dict", props=["C07"])
def _(c):
    c.cases(*_ser_cases())
    # "its arguments serialised in declared order (positional and keyword forms being equivalent)"
    c.ensures(
        "post.declared_order",
        lambda args, kwargs, schema, result: result
        == spec_join(schema, [(kwargs[k] if k in kwargs else args[i]) for i, k in enumerate(schema.keys())]),
    )


def _des_cases():
    return [(f"schema[{n}]", {"data": T.bytes, "schema": _SchemaT(n)}) for n in LENGTHS]


@contract("bellows.types.deserialize_dict", props=["C07"])
def _(c):
    c.cases(*_des_cases())
    c.raises("undecodable", ValueError)
    c.ensures("post.all_declared_fields", lambda schema, result: list(result[0].keys()) == list(schema.keys()))


def schema_roundtrip(values, schema):
    return t.deserialize_dict(t.serialize_dict(values, {}, schema), schema)


@contract("contracts.codec.schema_roundtrip", props=["C07"])
def _(c):
    c.cases(*[(f"schema[{n}]", {"values": _vals(n), "schema": _SchemaT(n)}) for n in LENGTHS])
    # "feeding the encoding of any value tuple back through the receive path yields exactly those
    #  values with no bytes left over" (given the assumed per-type codec)
    c.ensures(
        "lemma.decode_inverts_encode",
        lambda values, schema, result: list(result[0].values()) == list(values) and result[1] == b"",
    )
    c.inline_callees = True


# ---------------------------------------------------------------------------
# _ezsp_frame: header ++ arguments (any version: the header writer enters through its contract)
# ---------------------------------------------------------------------------
STRUCT_TX = ext_class("tx_struct_schema")


def _struct_call(I, self_obj, args, kwargs):
    I.ctx.emit("tx_struct.construct", self_obj, tuple(args), dict(kwargs))
    return SObj(TYPED_VALUE, {"tid": SInt(I.ctx.fresh_int("struct_tid")), "v": T.opaque.fresh(I, "struct_value")},
                tag="typed_value")


STRUCT_TX.methods["__call__"] = ExtMethod("__call__", fn=_struct_call)

PHF = ClassSpec(
    "bellows.ezsp.protocol.ProtocolHandler",
    fields=dict(
        _seq=T.range(0, 255),
        COMMANDS=T.map(T.tuple(T.range(0, 0xFFFF), T.oneof(_SchemaT(2), T.ext(STRUCT_TX)), T.opaque)),
    ),
)


@contract("bellows.ezsp.protocol.ProtocolHandler._ezsp_frame_tx", props=["C07"])
def _(c):
    c.self(PHF)
    c.trusted = True  # abstract method: the three implementations are proved above
    c.arg("name", T.str)
    c.returns(T.bytes_(minlen=3))
    c.ensures("post.starts_with_sequence", lambda self, result: result[0] == self._seq)
    c.modifies()


@contract("bellows.ezsp.protocol.ProtocolHandler._ezsp_frame", props=["C07"])
def _(c):
    c.self(PHF)
    c.cases(
        ("positional", {"name": T.str, "args": _vals(2), "kwargs": T.const({})}),
        ("keywords", {"name": T.str, "args": T.const(()), "kwargs": _KwT(2, "reversed")}),
    )
    c.raises("unknown_command", KeyError, when=lambda self, name: name not in self.COMMANDS)
    # "a command call emits [the header] followed by its arguments serialised in declared order"
    c.ensures(
        "post.header_then_arguments",
        lambda self, name, args, kwargs, result, fx: result
        == [r[2] for r in fx if r[0] == "ret" and r[1] == "bellows.ezsp.protocol.ProtocolHandler._ezsp_frame_tx"][0]
        + (
            [r[2] for r in fx if r[0] == "ret" and r[1] == "bellows.types.serialize_dict"][0]
            if isinstance(self.COMMANDS[name][1], dict)
            else b""
        )
        or not isinstance(self.COMMANDS[name][1], dict),
    )
    c.ensures(
        "post.arguments_against_this_commands_schema",
        lambda self, name, args, kwargs, fx: implies(
            isinstance(self.COMMANDS[name][1], dict),
            [r[2] for r in fx if r[0] == "call" and r[1] == "bellows.types.serialize_dict"]
            == [(args, kwargs, self.COMMANDS[name][1])],
        ),
    )
    c.ensures("post.sequence_first", lambda self, result: len(result) >= 3 and result[0] == self._seq)
    c.modifies()


# ---------------------------------------------------------------------------
# table obligations on the eleven live command tables (finite, evaluated exhaustively)
# ---------------------------------------------------------------------------
def _greedy(ty):
    """types that consume the rest of the frame (no length prefix / fixed size)"""
    import zigpy.types as zt

    try:
        if issubclass(ty, (zt.LVBytes, zt.LVList, zt.LongOctetString)):
            return False
    except TypeError:
        return False
    name = getattr(ty, "__name__", "")
    if issubclass(ty, bytes) and getattr(ty, "_prefix_length", None) is None and getattr(ty, "_length", None) is None \
            and not hasattr(ty, "_size"):
        return True
    if issubclass(ty, list) and getattr(ty, "_length", None) is None and getattr(ty, "_prefix_length", None) is None \
            and not hasattr(ty, "_header"):
        return True
    return False


def _table_obligations(tier):
    out = []

    def ob(name, ok, detail, witness=None):
        out.append({"name": name, "verdict": "proved" if ok else "refuted", "backend": "live-table", "t": 0.0,
                    "detail": detail, "witness": witness if not ok else None})

    for ver, cls in sorted(ezsp_mod.EZSP._BY_VERSION.items()):
        q = f"{cls.__module__}.{cls.__qualname__}"
        cmds = cls.COMMANDS
        ids = {}
        dup = []
        for name, (cid, tx, rx) in cmds.items():
            if cid in ids:
                dup.append((hex(cid), ids[cid], name))
            ids.setdefault(cid, name)
        # "each frame ID belongs to exactly one command"
        ob(f"{q}::table.frame_ids_unique", not dup, f"{len(cmds)} commands", {"version": ver, "duplicates": dup[:5]})
        hi = 0xFF if ver < 8 else 0xFFFF
        big = [(n, hex(c[0])) for n, c in cmds.items() if not (0 <= c[0] <= hi)]
        ob(f"{q}::table.ids_fit_header_field", not big, f"id field of v{ver} holds 0..{hex(hi)}", {"version": ver, "ids": big[:5]})
        # every schema entry is a wire type with a serialize / deserialize pair
        bad = []
        greedy_not_last = []
        for name, (cid, tx, rx) in cmds.items():
            for kind, s in (("tx", tx), ("rx", rx)):
                if isinstance(s, dict):
                    items = list(s.items())
                    for i, (k, ty) in enumerate(items):
                        if not (hasattr(ty, "deserialize") and (hasattr(ty, "serialize") or isinstance(ty, type))):
                            bad.append((name, kind, k))
                        # (the round-trip clause of the property is about response / callback schemas)
                        if kind == "rx" and isinstance(ty, type) and _greedy(ty) and i != len(items) - 1:
                            greedy_not_last.append((name, kind, k))
                elif not (hasattr(s, "deserialize")):
                    bad.append((name, kind, "<struct>"))
        ob(f"{q}::table.schema_entries_are_wire_types", not bad, "serialize/deserialize present", {"version": ver, "entries": bad[:5]})
        ob(f"{q}::table.greedy_types_only_last", not greedy_not_last,
           "a type without length prefix may only end a schema (else no remainder-free round trip)",
           {"version": ver, "entries": greedy_not_last[:5]})
        # the handler's own resolution of reader / writer: MRO gives the intended pair
        want = v4.EZSPv4 if ver == 4 else v5.EZSPv5 if ver < 8 else v8.EZSPv8
        got_tx = next(k for k in cls.__mro__ if "_ezsp_frame_tx" in k.__dict__)
        got_rx = next(k for k in cls.__mro__ if "_ezsp_frame_rx" in k.__dict__)
        ob(f"{q}::table.header_codec_resolution", got_tx is want and got_rx is want,
           f"v{ver} uses {got_tx.__name__}/{got_rx.__name__}", {"version": ver, "tx": got_tx.__name__, "rx": got_rx.__name__})
        ob(f"{q}::table.version_constant", cls.VERSION == ver, f"VERSION={cls.VERSION}", {"version": ver, "VERSION": cls.VERSION})
    out.extend(by_id_obligations(tier))
    return out


from contracts.tables import by_id_obligations  # noqa: E402

_index.extra("C07")(_table_obligations)


# ---------------------------------------------------------------------------
# bounded stand-in for the ASSUMED per-type codec (never counted as proved)
# ---------------------------------------------------------------------------
def _type_codec_standin(seed, tier):
    import random

    rnd = random.Random(seed)
    types = {}
    for cls in ezsp_mod.EZSP._BY_VERSION.values():
        for name, (cid, tx, rx) in cls.COMMANDS.items():
            for s in (tx, rx):
                if isinstance(s, dict):
                    for k, ty in s.items():
                        types.setdefault(ty, (cls.VERSION, name, k))
    evaluations = 0
    failures = []
    samples = []
    n = 40 if tier == "thorough" else 6
    for ty, where in types.items():
        for _ in range(n):
            size = rnd.choice([0, 1, 2, 3, 4, 8, 16, 17, 40])
            blob = bytes(rnd.getrandbits(8) for _ in range(size)) + bytes(rnd.getrandbits(8) for _ in range(20))
            try:
                v, rest = ty.deserialize(blob)
            except Exception:
                continue
            evaluations += 1
            try:
                enc = ty(v).serialize() if not hasattr(v, "serialize") else v.serialize()
                tail = b"" if (isinstance(ty, type) and _greedy(ty)) else b"\xAA\x55"
                v2, rest2 = ty.deserialize(enc + tail)
                ok = (v2 == v) and rest2 == tail
            except Exception as e:
                ok = False
            if not ok:
                failures.append({"obligation": "assumed.per_type_codec_roundtrip", "inputs": {"type": getattr(ty, "__name__", str(ty)), "where": list(where), "blob": blob.hex()}})
            elif len(samples) < 3:
                samples.append({"type": getattr(ty, "__name__", str(ty)), "value": repr(v)[:60], "encoded": enc.hex()[:40]})
    return {"name": "per-type codec round trip (assumed contract of zigpy.types / bellows.types)", "evaluations": evaluations,
            "distinct": len(types), "bound": f"{len(types)} distinct schema types x {n} random decodable blobs, seed {seed}",
            "samples": samples, "failures": failures[:5], "label": "bounded"}


_index.standin("C07")(_type_codec_standin)
