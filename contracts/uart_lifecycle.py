"""Gateway life cycle (C11 / C10): the state a new Gateway starts in (no reset in progress, no start-up waiter) and
connection_made."""
import bellows.uart as uart

from contracts.uart import APPLICATION, ASH_TRANSPORT, GW
from pyvc.contracts import T, contract


def new_gateway(application, connected_future, connection_done_future):
    return uart.Gateway(application, connected_future, connection_done_future)


@contract("contracts.uart_lifecycle.new_gateway", props=["C11", "C10"])
def _(c):
    c.arg("application", T.ext(APPLICATION))
    c.arg("connected_future", T.opt(T.future(pending=True)))
    c.arg("connection_done_future", T.opt(T.future(pending=True)))
    # C11: "completes only when an RSTACK with the software-reset code arrives" -- a new gateway has no reset in progress
    # and no start-up waiter, so the first reset() sends an RST of its own and the first wait_for_startup_reset() does
    # not trip over a stale waiter; nothing is reported upward by the construction
    c.ensures(
        "post.initial_state",
        lambda result, application, connected_future, connection_done_future: result._application is application
        and result._reset_future is None
        and result._startup_reset_future is None
        and result._connected_future is connected_future
        and result._connection_done_future is connection_done_future
        and result._transport is None,
    )
    c.ensures("post.no_effect", lambda fx: [r for r in fx if r[0].startswith("application.") or r[0].startswith("future.")] == [])


@contract("bellows.uart.Gateway.connection_made", props=["C11", "C10"])
def _(c):
    c.self(GW)
    c.arg("transport", T.ext(ASH_TRANSPORT))
    c.ensures("post.transport_kept", lambda self, transport: self._transport is transport)
    # the connect waiter (if any) is told once; the reset waiters and the application are not touched
    c.ensures(
        "post.only_the_connect_waiter_is_completed",
        lambda self, fx: len([r for r in fx if r[0] == "future.set_result"]) == (1 if self._connected_future is not None else 0)
        and all(r[1] is self._connected_future for r in fx if r[0] == "future.set_result")
        and [r for r in fx if r[0].startswith("application.") or r[0] == "future.set_exception"] == [],
    )
    c.raises("already_connected", Exception, when=lambda self: self._connected_future is not None and fut_done(self._connected_future))
    c.modifies("self._transport")
