"""C17: operations completed by an event (stack status, scan completion) -- bellows/ezsp/__init__.py and
ControllerApplication._ensure_network_running."""
import asyncio

import zigpy.exceptions

import bellows.ezsp as ezsp
import bellows.types as t
import bellows.zigbee.application as app
from bellows.exception import ControllerError, EzspError
from zigpy.exceptions import NetworkNotFormed

from contracts import index as _index
from contracts.ezsp import CALLBACK, EVENT, EZ, PROTO_RX
from contracts.ezsp_protocol import GATEWAY_PROXY
from pyvc.calls import ExtMethod
from pyvc.contracts import REGISTRY, ClassSpec, T, contract
from pyvc.ext import effect, ext_class, field
from pyvc.values import SObj

# who completes a stack-status listener: stack_status_callback with the status it waits for
LISTENER_PROMISE = {"result": T.enum(t.sl_Status), "excs": []}


def _empty_listeners(I):
    from pyvc import smap

    return smap.SColl("listeners[new]", T.future(promise=LISTENER_PROMISE), [], None)


EZE = ClassSpec(
    "bellows.ezsp.EZSP",
    fields={
        **EZ.fields,
        "_stack_status_listeners": T.map(T.coll(T.future(promise=LISTENER_PROMISE)), default_factory=_empty_listeners),
    },
    invariants=[],
    # while an operation waits, other operations register / remove *their own* listeners and callbacks, and
    # events complete listeners; the containers themselves are never replaced
    interference=["_callbacks"],
)


def listeners_of(self, status):
    return self._stack_status_listeners[status]


def results_set(fx):
    return [r for r in fx if r[0] == "future.set_result"]


def created_futures(fx):
    return [r[1] for r in fx if r[0] == "loop.create_future"]


def awaits_of(fx):
    return [r for r in fx if r[0] == "await"]


def commands_issued(fx):
    return [(r[2], r[3]) for r in fx if r[0] == "call" and r[1] == "ezsp.command"]


# ---------------------------------------------------------------------------
# the event side
# ---------------------------------------------------------------------------
def _one_listed_future(I, b):
    """a ghost listener f0 of an arbitrary status s0, materialised"""
    from pyvc import smap
    from pyvc.contracts import EnumT

    s0 = EnumT(t.sl_Status).fresh(I, "s0")
    b["s0"] = s0
    m = b["self"].fields["_stack_status_listeners"]
    slot = smap.find_slot(I, m, s0.v)
    coll = slot.value
    f0 = T.future(promise=LISTENER_PROMISE).fresh(I, "f0")
    listed = I.ctx.fresh_bool("f0.listed")
    import z3

    I.ctx.assume(z3.Implies(listed, z3.Select(m.has, s0.v)))  # listed in a list that exists
    coll.members.append([listed, f0])
    from pyvc.snapshot import clone_graph

    coll.entry_members.append(clone_graph({"v": f0})["v"])
    b["f0"] = f0


@contract("bellows.ezsp.EZSP.stack_status_callback", props=["C17"])
def _(c):
    c.self(EZE)
    c.cases(
        ("status_event_legacy", {"frame_name": T.const("stackStatusHandler"), "args": T.list(T.enum(t.EmberStatus))}),
        ("status_event_unified", {"frame_name": T.const("stackStatusHandler"), "args": T.list(T.enum(t.sl_Status))}),
        ("other_frame", {"frame_name": T.const("incomingMessageHandler"), "args": T.list(T.enum(t.EmberStatus))}),
    )
    c.setup = _one_listed_future
    # no raises clause: an escaping exception (InvalidStateError on a listener that is already done but still
    # listed) makes the listeners after it miss the event
    # "they observe that event whenever it arrives": every *pending* listener of the event's status gets it
    c.ensures(
        "post.pending_listeners_of_this_status_complete",
        lambda self, frame_name, args, s0, f0: implies(
            frame_name == "stackStatusHandler"
            and f0 in old(self._stack_status_listeners[s0])
            and old(fut_state(f0)) == 0
            and s0 == t.sl_Status.from_ember_status(args[0]),
            fut_state(f0) == 1 and fut_result(f0) == s0,
        ),
        on="any",
    )
    # "non-matching status events" complete nothing; done listeners are left alone
    c.ensures(
        "post.nothing_else_touched",
        lambda self, frame_name, args, s0, f0: implies(
            frame_name != "stackStatusHandler"
            or s0 != t.sl_Status.from_ember_status(args[0])
            or old(fut_state(f0)) != 0
            or not (f0 in old(self._stack_status_listeners[s0])),
            fut_state(f0) == old(fut_state(f0)),
        ),
        on="any",
    )
    # guarantee side of what a waiting operation relies on ("the containers themselves are never replaced", EZE above):
    # the event callback completes listeners, it never takes a list or a listener out of the table -- removing a
    # listener is its owner's job (done-callback / exit of wait_for_stack_status).  Stated on a listener that was
    # already done before the event (done but still listed: its done-callback has not run yet), whatever the status.
    c.ensures(
        "guarantee.listener_lists_are_not_taken_out_by_the_event",
        lambda self, s0, f0: implies(
            f0 in old(self._stack_status_listeners[s0]) and old(fut_state(f0)) != 0,
            f0 in self._stack_status_listeners[s0],
        ),
        on="any",
    )
    c.modifies("self._stack_status_listeners.*")


# ---------------------------------------------------------------------------
# form / leave / bring-up
# ---------------------------------------------------------------------------
NetworkParametersT = T.record(
    t.EmberNetworkParameters, frozen=False,
    extendedPanId=T.opaque, panId=T.typed_int(t.EmberPanId), radioTxPower=T.typed_int(t.uint8_t),
    radioChannel=T.typed_int(t.uint8_t), joinMethod=T.enum(t.EmberJoinMethod), nwkManagerId=T.typed_int(t.EmberNodeId),
    nwkUpdateId=T.typed_int(t.uint8_t), channels=T.typed_int(t.uint32_t),
)


def _event_op(qualname, status, command, timeout_of, refused_exc):
    @contract(qualname, props=["C17", "C14"] if command == "formNetwork" else ["C17"])
    def _(c):
        c.self(EZE)
        if command == "formNetwork":
            c.arg("parameters", NetworkParametersT)
            # C14 "writing network settings ... returns the same PAN ID, extended PAN ID, channel and channel mask,
            # update ID": write_network_info hands these to formNetwork (its own contract); here: they reach the NCP
            # command as given -- the very object, with every field as it was
            c.ensures(
                "post.parameters_reach_the_ncp_as_given",
                lambda parameters, fx: [q[1] for q in commands_issued(fx)] == [{"parameters": parameters}]
                and parameters.extendedPanId == old(parameters.extendedPanId)
                and parameters.panId == old(parameters.panId)
                and parameters.radioTxPower == old(parameters.radioTxPower)
                and parameters.radioChannel == old(parameters.radioChannel)
                and parameters.joinMethod == old(parameters.joinMethod)
                and parameters.nwkManagerId == old(parameters.nwkManagerId)
                and parameters.nwkUpdateId == old(parameters.nwkUpdateId)
                and parameters.channels == old(parameters.channels),
                on="any",
            )
        else:
            c.arg("timeout", T.const(ezsp.NETWORK_OPS_TIMEOUT))
        c.raises("refused", refused_exc)
        c.raises("timeout", TimeoutError)
        c.raises("not_running", EzspError)
        c.raises("no_protocol", AttributeError)
        c.raises("cancelled", asyncio.CancelledError)
        c.setup = _one_listed_future
        # guarantee side of what *another* waiting operation relies on: an operation only ever unregisters its own
        # listener -- a listener of any status that was registered before this operation started is still registered
        # when it ends (by any exit), unless its own owner took it out meanwhile (then it is done)
        c.ensures(
            "guarantee.listeners_of_other_operations_stay_registered",
            lambda self, s0, f0: implies(
                f0 in old(self._stack_status_listeners[s0]) and fut_state(f0) == 0,
                f0 in self._stack_status_listeners[s0],
            ),
            on="any",
        )
        # "they observe that event whenever it arrives after the command was issued - even before the
        #  command's own response": the listener is registered when the command is issued
        c.at_effect(
            "ezsp.command", "listener_registered_before_command",
            lambda self, fx: len(created_futures(fx)) >= 1
            and created_futures(fx)[-1] in self._stack_status_listeners[status]
            and fut_state(created_futures(fx)[-1]) == 0,
        )
        c.ensures("post.one_command", lambda fx: [q[0] for q in commands_issued(fx)] == [(command,)], on="any")
        # "complete only after both the command succeeded and the matching stack-status event arrived"
        c.ensures(
            "post.completes_only_on_success_and_event",
            lambda fx: t.sl_Status.from_ember_status([r[2] for r in fx if r[0] == "ret" and r[1] == "ezsp.command"][0][0]) == t.sl_Status.OK
            and awaits_of(fx)[-1][1] == "future"
            and awaits_of(fx)[-1][2] == "result"
            and fut_state(created_futures(fx)[-1]) == 1,
        )
        # "they raise if the command is refused": without waiting for an event
        c.ensures(
            "post.refusal_does_not_wait",
            lambda raised, fx: implies(isinstance(raised, refused_exc) and not isinstance(raised, asyncio.TimeoutError),
                                       [r for r in awaits_of(fx) if r[1] == "future"] == []),
            on="raise",
        )
        # "... or the event does not arrive within the operation timeout"
        c.ensures(
            "post.event_wait_bounded",
            lambda fx: all(
                [q[2][0] for q in fx[: pos(fx, r)] if q[0] == "timeout.armed"] == [timeout_of]
                for r in awaits_of(fx) if r[1] == "future"
            ),
            on="any",
        )
        # "when any of these operations ends, by success, failure or cancellation, no listener ... remains"
        c.ensures(
            "post.no_listener_left",
            lambda self, fx: all(not (f in self._stack_status_listeners[status]) for f in created_futures(fx)),
            on="any",
        )
        c.modifies("self._stack_status_listeners.*")


_event_op("bellows.ezsp.EZSP.formNetwork", t.sl_Status.NETWORK_UP, "formNetwork", ezsp.NETWORK_OPS_TIMEOUT,
          zigpy.exceptions.FormationFailure)
_event_op("bellows.ezsp.EZSP.leaveNetwork", t.sl_Status.NETWORK_DOWN, "leaveNetwork", ezsp.NETWORK_OPS_TIMEOUT, EzspError)


# ---------------------------------------------------------------------------
# callbacks registry (add / remove) and the scan-style list commands
# ---------------------------------------------------------------------------
@contract("bellows.ezsp.EZSP.add_callback", props=["C17", "C06"])
def _(c):
    c.self(EZ)
    c.effect_name = "ezsp.add_callback"
    c.arg("cb", T.ext(CALLBACK))
    # (the search for a free id needs no invariant beyond the state's own shape; stated over the table, not over the
    # name of the local that holds the candidate id)
    c.loop(0, invariants=[("id_is_an_int", lambda self: len(self._callbacks) >= 0)])
    c.returns(T.int)
    c.ensures("post.registered_under_fresh_id", lambda self, cb, result: not old(result in self._callbacks) and self._callbacks[result] is cb,
              at_calls=False)
    c.ensures("post.id_was_free", lambda self, result: not old(result in self._callbacks) and result in self._callbacks)
    c.ensures("post.others_unchanged", lambda self, result: unchanged_except(self._callbacks, old(self._callbacks), [result]))
    c.ensures("post.one_more", lambda self: len(self._callbacks) == old(len(self._callbacks)) + 1)
    c.modifies("self._callbacks")


@contract("bellows.ezsp.EZSP.remove_callback", props=["C17", "C06"])
def _(c):
    c.self(EZ)
    c.effect_name = "ezsp.remove_callback"
    c.arg("id_", T.int)
    c.raises("unknown_id", KeyError, when=lambda self, id_: id_ not in self._callbacks)
    c.ensures("post.removed", lambda self, id_: id_ not in self._callbacks)
    c.ensures("post.others_unchanged", lambda self, id_: unchanged_except(self._callbacks, old(self._callbacks), [id_]))
    c.modifies("self._callbacks")


# ---------------------------------------------------------------------------
# _list_command (startScan & co): registration before issue, no callback left behind
# ---------------------------------------------------------------------------
import bellows.ezsp.v8 as v8

PHV8 = ClassSpec("bellows.ezsp.v8.EZSPv8", fields=dict(_seq=T.range(0, 255), tc_policy=T.int))
# the completion callback hands the scan-complete frame's values to the future: [channel, status]
SCAN_DONE_PROMISE = {"result": T.list(T.typed_int(t.uint8_t), T.enum(t.EmberStatus)), "excs": []}


@contract("bellows.ezsp.EZSP._list_command", props=["C17"])
def _(c):
    c.self(EZE, _protocol=T.opt(T.obj(PHV8)))
    c.created_future_promise = SCAN_DONE_PROMISE
    c.cases(
        (
            "startScan",
            {
                "name": T.const("startScan"),
                "item_frames": T.const(["energyScanResultHandler", "networkFoundHandler"]),
                "completion_frame": T.const("scanCompleteHandler"),
                "spos": T.const(1),
                "kwargs": T.const({"scanType": t.EzspNetworkScanType.ENERGY_SCAN, "channelMask": t.uint32_t(0x07FFF800), "duration": t.uint8_t(2)}),
            },
        ),
    )
    c.raises("refused_or_failed", Exception)
    c.raises("cancelled", asyncio.CancelledError)
    # "every result callback received between issuing it and its completion callback": the collecting
    # callback is registered when the command is issued
    c.at_effect(
        "ezsp.command", "callback_registered_before_issue",
        lambda fx: len([r for r in fx if r[0] == "ret" and r[1] == "ezsp.add_callback"]) == 1,
    )
    # "when any of these operations ends, by success, failure or cancellation, no ... callback registered for
    #  it remains": the callback registered by this call is removed exactly once on every exit
    c.ensures(
        "post.callback_removed_on_every_exit",
        lambda fx: [r[2] for r in fx if r[0] == "call" and r[1] == "ezsp.remove_callback"]
        == [(i,) for i in [r[2] for r in fx if r[0] == "ret" and r[1] == "ezsp.add_callback"]],
        on="any",
    )
    c.ensures(
        "post.completes_only_on_accept_and_completion",
        lambda fx: awaits_of(fx)[-1][1] == "future" and awaits_of(fx)[-1][2] == "result",
    )
    c.ensures("post.returns_the_collected_list", lambda result: isinstance(result, list))
    # "... and none received before it was issued": nothing can be delivered between the registration of the collecting
    # callback and the moment the command is handed over -- there is no suspension point in between
    c.at_effect(
        "ezsp.command", "no_suspension_between_registration_and_issue",
        lambda fx: [r for r in fx[[i for i, q in enumerate(fx) if q[0] == "ret" and q[1] == "ezsp.add_callback"][0]:] if r[0] == "await"] == [],
    )


# ---- the collecting callback itself (a closure of _list_command): "A scan returns, in order, every result callback
# received between issuing it and its completion callback".  `results` is only ever touched by this closure (it is a
# local of _list_command, returned at the end); the closure is proved for an arbitrary content of the list so far:
# a result frame appends exactly its response at the end, the completion frame completes the waiter with its response
# and leaves the list alone, any other frame does nothing.  With registration-before-issue, no suspension between
# registration and issue, and removal on every exit (above), the returned list is the sequence of result responses
# delivered while the operation ran, in arrival order.
@contract("bellows.ezsp.EZSP._list_command.cb", props=["C17"])
def _(c):
    c.closure("results", T.any_list())
    c.closure("fut", T.future(pending=True, promise=SCAN_DONE_PROMISE))
    # should the code rename them: the collected list is the local that starts as `[]`, the waiter the one made by
    # create_future(); the closure itself is the function of _list_command that looks at `item_frames`
    c.closure_role("results", "=[]")
    c.closure_role("fut", "uture(")  # create_future() / asyncio.Future()
    c.located_by = ("bellows.ezsp.EZSP._list_command", "item_frames")
    c.closure("item_frames", T.const(["energyScanResultHandler", "networkFoundHandler"]))
    c.closure("completion_frame", T.const("scanCompleteHandler"))
    c.arg("response", T.opaque)
    c.cases(
        ("a result frame", {"frame_name": T.const("networkFoundHandler")}),
        ("the other result frame", {"frame_name": T.const("energyScanResultHandler")}),
        ("the completion frame", {"frame_name": T.const("scanCompleteHandler")}),
        ("an unrelated frame", {"frame_name": T.const("stackStatusHandler")}),
    )
    c.let("results0", lambda results: results.copy())
    c.ensures(
        "post.result_frames_are_appended_in_arrival_order",
        lambda frame_name, response, results, results0, item_frames, fx: implies(
            frame_name in item_frames, results == results0 + [response] and results_set(fx) == []
        ),
    )
    c.ensures(
        "post.completion_frame_completes_the_waiter",
        lambda frame_name, response, results, results0, completion_frame, item_frames, fut, fx: implies(
            frame_name == completion_frame and frame_name not in item_frames,
            results == results0 and len(results_set(fx)) == 1 and results_set(fx)[0][1] is fut and results_set(fx)[0][2] is response,
        ),
    )
    c.ensures(
        "post.other_frames_are_ignored",
        lambda frame_name, results, results0, completion_frame, item_frames, fx: implies(
            frame_name != completion_frame and frame_name not in item_frames, results == results0 and results_set(fx) == []
        ),
    )


# ---------------------------------------------------------------------------
# ControllerApplication._ensure_network_running
# ---------------------------------------------------------------------------
def _listener_enter(I, self_obj, args, kwargs):
    f = T.future(pending=True, promise=LISTENER_PROMISE).fresh(I, "stack_status")
    I.ctx.emit("listener.register", self_obj.fields.get("status"), f)
    return f


WAITCM = ext_class("status_wait", fields={"status": T.opaque}, stable_fields=("status",))
WAITCM.methods["__enter__"] = ExtMethod("__enter__", fn=_listener_enter)
WAITCM.methods["__exit__"] = ExtMethod("__exit__", effect=True)


def _wait_for(I, self_obj, args, kwargs):
    return SObj(WAITCM, {"status": args[0]}, tag="status_wait")


EZSP_NET = ext_class(
    "ezsp",
    networkState=ExtMethod("networkState", effect=True, is_async=True, raises=[asyncio.TimeoutError, EzspError],
                           returns=lambda I, s, a, k: (T.enum(t.EmberNetworkStatus).fresh(I, "state"),)),
    initialize_network=ExtMethod("initialize_network", effect=True, is_async=True, raises=[asyncio.TimeoutError, EzspError],
                                 returns=lambda I, s, a, k: T.enum(t.sl_Status).fresh(I, "init_status")),
)
EZSP_NET.methods["wait_for_stack_status"] = ExtMethod("wait_for_stack_status", fn=_wait_for)

APP_NET = ClassSpec("bellows.zigbee.application.ControllerApplication", fields=dict(_ezsp=T.ext(EZSP_NET)), interference=[])


@contract("bellows.zigbee.application.ControllerApplication._ensure_network_running", props=["C17"])
def _(c):
    c.self(APP_NET)
    c.raises("not_formed", NetworkNotFormed)
    c.raises("refused", ControllerError)
    c.raises("timeout", TimeoutError)
    c.raises("ezsp", EzspError)
    c.raises("cancelled", asyncio.CancelledError)
    # "observe that event whenever it arrives after the command was issued - even before the command's own
    #  response": the NETWORK_UP listener exists when initialize_network is called
    c.at_effect(
        "ezsp.initialize_network", "listener_registered_before_init",
        lambda fx: [r[1] for r in fx if r[0] == "listener.register"] == [t.sl_Status.NETWORK_UP],
    )
    c.ensures(
        "post.already_joined_does_nothing",
        lambda result, fx: implies(result is False, [r[1] for r in fx if r[0] == "call"] == ["ezsp.networkState"]),
    )
    c.ensures(
        "post.started_only_after_ok_and_event",
        lambda result, fx: implies(
            result is True,
            [r[2] for r in fx if r[0] == "ret" and r[1] == "ezsp.initialize_network"] == [t.sl_Status.OK]
            and awaits_of(fx)[-1][1] == "future"
            and awaits_of(fx)[-1][2] == "result",
        ),
    )
    c.ensures(
        "post.event_wait_bounded",
        lambda fx: all(
            [q[2][0] for q in fx[: pos(fx, r)] if q[0] == "timeout.armed"] == [app.NETWORK_UP_TIMEOUT_S]
            for r in awaits_of(fx) if r[1] == "future"
        ),
        on="any",
    )
    c.ensures(
        "post.listener_removed_on_every_exit",
        lambda fx: len([r for r in fx if r[0] == "status_wait.__exit__"]) == len([r for r in fx if r[0] == "listener.register"]),
        on="any",
    )
    c.modifies()


def pos(fx, r):
    """position of the record r itself (identity, not equality) in the effects list"""
    return [i for i, q in enumerate(fx) if q is r][0]
