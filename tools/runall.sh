#!/bin/sh
# runs every claimed check on the current tree (quick tier), in sequence; prints one line per property
cd /verif
for p in $(python3 -c "import json;print(' '.join(c['property_id'] for c in json.load(open('MANIFEST.json'))['checks']))"); do
  out=$(./check $p --tier ${TIER:-quick} 2>&1); rc=$?
  echo "$p rc=$rc $(echo "$out" | grep '^\[' | tail -1)"
  echo "$out" | grep "^VIOLATION\|^KNOWN-FINDING\|^UNDECIDED property" | head -5
done
