#!/bin/sh
# tools/trial.sh <seed-id> [prop] [extra check args] : the property's check against a scratch worktree with the seeded change applied
id=$1; prop=${2:-$(echo $id | cut -d- -f1)}; shift; [ $# -gt 0 ] && shift
s=$(mktemp -d /tmp/trial.XXXXXX)
git -C /repo worktree add --detach -f $s/wt HEAD >/dev/null 2>&1
(cd $s/wt && git apply /verif/seeded/$id/patch.diff) || echo "PATCH DID NOT APPLY"
(cd /verif && PYTHONPATH=$s/wt PYVC_EVIDENCE_DIR=$s/ev ./check $prop "$@" 2>&1 | grep -v "^  File\|^    " | tail -${TAIL:-12})
git -C /repo worktree remove --force $s/wt; rm -rf $s
