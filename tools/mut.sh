#!/bin/sh
# tools/mut.sh <prop> <file-in-repo> <python-regex> <replacement>   : apply a one-off edit to /repo, run ./check, revert
prop=$1; file=$2; pat=$3; rep=$4
cd /repo && python3 - "$file" "$pat" "$rep" <<'P'
import re,sys
f,pat,rep=sys.argv[1:4]
s=open(f).read()
n=len(re.findall(pat,s,flags=re.S))
s2=re.sub(pat,rep,s,count=1,flags=re.S)
assert s2!=s, "pattern did not match"
open(f,'w').write(s2)
print("mutated",f,"matches",n)
P
rc0=$?
if [ $rc0 -ne 0 ]; then git -C /repo checkout -- .; exit 9; fi
cd /verif && ./check $prop 2>&1 | tail -${TAIL:-6}; rc=$?
git -C /repo checkout -- .
