#!/usr/bin/env python3
"""tools/validate_seed.py <dir-with patch.diff+demo.py> [...]

Confirms a seeded change independently of its author, in a scratch worktree of /repo's HEAD outside /repo and
/verif (removed afterwards):
  1. demo.py passes on the unchanged tree;
  2. patch.diff applies with `git apply`;
  3. the pinned suite (command of /root/.vp/BASELINE.json) still passes every stable id with the change;
  4. demo.py fails with the change.
Prints one JSON object per directory; exit 0 iff every directory validated."""
import json, os, subprocess, sys, tempfile, shutil
import xml.etree.ElementTree as ET

BASE = json.load(open("/root/.vp/BASELINE.json"))
STABLE = set(BASE["stable_pass"])


def sh(cmd, cwd=None, env=None, timeout=1800):
    return subprocess.run(cmd, shell=True, cwd=cwd, env=env, capture_output=True, text=True, timeout=timeout)


def junit_pass(path):
    ok = set()
    for tc in ET.parse(path).getroot().iter("testcase"):
        if not any(ch.tag in ("failure", "error", "skipped") for ch in tc):
            ok.add(f"{tc.get('classname')}::{tc.get('name')}")
    return ok


def validate(d):
    d = os.path.abspath(d)
    scratch = tempfile.mkdtemp(prefix="seedval.", dir="/tmp")
    wt = os.path.join(scratch, "wt")
    res = {"dir": d}
    try:
        assert sh(f"git -C /repo worktree add --detach -f {wt} HEAD").returncode == 0
        res["base_commit"] = sh("git -C /repo rev-parse --short HEAD").stdout.strip()
        env = dict(os.environ, PYTHONPATH=wt, PYTHONDONTWRITEBYTECODE="1")
        demo = f"/venv/bin/python -m pytest -q -p no:cacheprovider -x {d}/demo.py"
        r = sh(demo, cwd=wt, env=env)
        res["demo_rc_clean"] = r.returncode
        r = sh(f"git apply {d}/patch.diff", cwd=wt)
        res["applies"] = r.returncode == 0
        if not res["applies"]:
            res["apply_err"] = r.stderr[-400:]
            return res
        imp = sh("/venv/bin/python -c 'import bellows, bellows.ash, bellows.uart, bellows.ezsp, bellows.zigbee.application; print(bellows.__file__)'", cwd=wt, env=env)
        res["imports"] = imp.returncode == 0 and wt in imp.stdout
        jx = os.path.join(scratch, "junit.xml")
        sh(f"/venv/bin/python -m pytest -ra -q -p no:cacheprovider --timeout=900 --continue-on-collection-errors --junitxml={jx}", cwd=wt, env=env)
        passed = junit_pass(jx) if os.path.exists(jx) else set()
        missing = sorted(STABLE - passed)
        if missing and len(missing) <= 10:
            # a stable id that failed once is re-run on its own (timing-sensitive thread / ASH tests flake under load)
            still = []
            for tid in missing:
                mod, name = tid.split("::", 1)
                nodeid = mod.replace(".", "/") + ".py::" + name
                ok = any(sh(f"/venv/bin/python -m pytest -q -p no:cacheprovider --timeout=900 '{nodeid}'", cwd=wt, env=env).returncode == 0
                         for _ in range(2))
                if not ok:
                    still.append(tid)
            res["stable_ids_flaky_rerun_ok"] = sorted(set(missing) - set(still))
            missing = still
        res["stable_ids_not_passing_with_change"] = missing
        r = sh(demo, cwd=wt, env=env)
        res["demo_rc_mutated"] = r.returncode
        res["demo_tail_mutated"] = (r.stdout + r.stderr)[-600:]
        res["files_touched"] = sh("git diff --name-only", cwd=wt).stdout.split()
        res["valid"] = (res["demo_rc_clean"] == 0 and res["imports"] and not res["stable_ids_not_passing_with_change"]
                        and res["demo_rc_mutated"] not in (0, 5))
    finally:
        sh(f"git -C /repo worktree remove --force {wt}")
        shutil.rmtree(scratch, ignore_errors=True)
    return res


if __name__ == "__main__":
    allok = True
    for d in sys.argv[1:]:
        r = validate(d)
        allok &= bool(r.get("valid"))
        print(json.dumps(r, indent=1), flush=True)
    sys.exit(0 if allok else 1)
