#!/usr/bin/env python3
"""tools/import_seed.py <src dir with patch.diff demo.py notes.md> <id, e.g. C15-m3>

Validates a change written by an independent sub-agent (tools/validate_seed.py: scratch worktree, demo clean /
mutated, pinned suite against the stable ids) and, only if everything is confirmed, keeps it as
/verif/seeded/<id>/ with a meta.json.  Detection by the checks is recorded afterwards by tools/seedall.py <id>."""
import json, os, shutil, sys
sys.path.insert(0, os.path.dirname(os.path.abspath(__file__)))
import validate_seed

src, sid = sys.argv[1], sys.argv[2]
ROOT = os.path.dirname(os.path.dirname(os.path.abspath(__file__)))
dst = os.path.join(ROOT, "seeded", sid)
os.makedirs(dst, exist_ok=True)
for f in ("patch.diff", "demo.py", "notes.md"):
    shutil.copy(os.path.join(src, f), os.path.join(dst, f))
res = validate_seed.validate(dst)
if not res.get("valid"):
    print(json.dumps(res, indent=1))
    shutil.rmtree(dst)
    print("NOT VALID: not kept")
    sys.exit(1)
meta = {
    "id": sid,
    "property": sid.split("-")[0],
    "base_commit": res["base_commit"],
    "author": os.environ.get("SEED_AUTHOR", "independent sub-agent given only the property record and a scratch worktree (round 5: needs something specific to manifest; two different clauses, one not in the most obvious function)"),
    "files_touched": res["files_touched"],
    "needs_to_manifest": "see notes.md (written by the author of the change)",
    "validated": {
        "how": "tools/validate_seed.py: scratch worktree of /repo at base_commit outside /repo and /verif: demo on clean tree, git apply patch.diff, "
               "import check, full pytest run compared against the 254 stable ids of /root/.vp/BASELINE.json, demo on mutated tree, worktree removed",
        "demo_cmd": f"PYTHONPATH=<worktree> /venv/bin/python -m pytest -q -p no:cacheprovider -x /verif/seeded/{sid}/demo.py",
        "demo_rc_clean": res["demo_rc_clean"],
        "demo_rc_mutated": res["demo_rc_mutated"],
        "stable_ids_not_passing_with_change": res["stable_ids_not_passing_with_change"],
    },
}
json.dump(meta, open(os.path.join(dst, "meta.json"), "w"), indent=1)
print("kept", sid, res["files_touched"])
