#!/usr/bin/env python3
"""tools/harmless_run.py [ids...] [-j N] [--import SRC ID]

Behaviour-preserving refactorings written by independent sub-agents (each given only one property record and a scratch
worktree; kept as /verif/harmless/<id>/ with patch.diff, demo.py, notes.md).  For each: a scratch worktree of /repo's
HEAD (outside /repo and /verif, removed afterwards), the patch applied, (1) the pinned suite must still pass every
stable id and the author's differential demo must pass before and after, (2) the property's check is run against the
refactored tree.  Expected: exit 0 and no VIOLATION line.  Exit 3 (a construct outside the subset: undecided, says
so) is listed separately; a VIOLATION on a refactoring that keeps the behaviour is a false alarm of the machinery."""
import concurrent.futures as cf
import json, os, re, shutil, subprocess, sys, tempfile
import xml.etree.ElementTree as ET

ROOT = os.path.dirname(os.path.dirname(os.path.abspath(__file__)))
BASE = json.load(open("/root/.vp/BASELINE.json"))
STABLE = set(BASE["stable_pass"])


def sh(cmd, cwd=None, env=None, timeout=3600):
    return subprocess.run(cmd, shell=True, cwd=cwd, env=env, capture_output=True, text=True, timeout=timeout)


def trial(d):
    p = os.path.join(ROOT, "harmless", d)
    prop = d.split("-")[0]
    scratch = tempfile.mkdtemp(prefix="harmless.", dir="/tmp")
    wt = os.path.join(scratch, "wt")
    res = {"id": d, "property": prop}
    try:
        assert sh(f"git -C /repo worktree add --detach -f {wt} HEAD").returncode == 0
        env = dict(os.environ, PYTHONPATH=wt, PYTHONDONTWRITEBYTECODE="1")
        demo = f"/venv/bin/python -m pytest -q -p no:cacheprovider -x {p}/demo.py"
        res["demo_rc_clean"] = sh(demo, cwd=wt, env=env).returncode
        r = sh(f"git apply {p}/patch.diff", cwd=wt)
        res["applies"] = r.returncode == 0
        if not res["applies"]:
            return res
        res["files_touched"] = sh("git diff --name-only", cwd=wt).stdout.split()
        res["lines_changed"] = sh("git diff --shortstat", cwd=wt).stdout.strip()
        jx = os.path.join(scratch, "junit.xml")
        sh(f"/venv/bin/python -m pytest -ra -q -p no:cacheprovider --timeout=900 --continue-on-collection-errors --junitxml={jx}", cwd=wt, env=env)
        passed = set()
        if os.path.exists(jx):
            for tc in ET.parse(jx).getroot().iter("testcase"):
                if not any(ch.tag in ("failure", "error", "skipped") for ch in tc):
                    passed.add(f"{tc.get('classname')}::{tc.get('name')}")
        missing = sorted(STABLE - passed)
        still = []
        for tid in missing[:10]:
            mod, name = tid.split("::", 1)
            nodeid = mod.replace(".", "/") + ".py::" + name
            if not any(sh(f"/venv/bin/python -m pytest -q -p no:cacheprovider --timeout=900 '{nodeid}'", cwd=wt, env=env).returncode == 0 for _ in range(2)):
                still.append(tid)
        res["stable_ids_not_passing"] = still if len(missing) <= 10 else missing
        res["demo_rc_refactored"] = sh(demo, cwd=wt, env=env).returncode
        env2 = dict(os.environ, PYTHONPATH=wt, PYVC_EVIDENCE_DIR=os.path.join(scratch, "ev"))
        chk = sh(f"cd {ROOT} && ./check {prop} --jobs {JOBS}", env=env2, timeout=7200)
        res["check_exit"] = chk.returncode
        res["violations"] = [re.sub(r"replay=\S*/replays/", "replay=", l) for l in chk.stdout.splitlines() if l.startswith("VIOLATION")]
        res["undecided"] = [l[:300] for l in (chk.stdout + chk.stderr).splitlines() if l.startswith(("UNDECIDED", "OUTSIDE-REACH", "ENGINE-ERROR", "CHECKER-ERROR"))][:6]
        if chk.returncode == 3 and not res["undecided"]:
            v = sh(f"cd {ROOT} && ./check {prop} --jobs {JOBS} -v", env=env2, timeout=7200)
            res["undecided"] = [l[:300] for l in (v.stdout + v.stderr).splitlines() if l.startswith(("UNDECIDED", "OUTSIDE-REACH", "ENGINE-ERROR", "CHECKER-ERROR"))][:6]
        res["summary"] = [l for l in chk.stdout.splitlines() if l.startswith("[")][-1:]
    finally:
        sh(f"git -C /repo worktree remove --force {wt}")
        shutil.rmtree(scratch, ignore_errors=True)
    res["valid_refactoring"] = bool(res.get("applies") and res.get("demo_rc_clean") == 0 and res.get("demo_rc_refactored") == 0 and not res.get("stable_ids_not_passing"))
    json.dump(res, open(os.path.join(p, "meta.json"), "w"), indent=1)
    return res


if __name__ == "__main__":
    args = sys.argv[1:]
    if args and args[0] == "--import":
        src, hid = args[1], args[2]
        dst = os.path.join(ROOT, "harmless", hid)
        os.makedirs(dst, exist_ok=True)
        for f in ("patch.diff", "demo.py", "notes.md"):
            shutil.copy(os.path.join(src, f), os.path.join(dst, f))
        sys.exit(0)
    par = 4
    if "-j" in args:
        i = args.index("-j")
        par = int(args[i + 1])
        del args[i:i + 2]
    JOBS = max(2, 16 // par)
    ids = [d for d in sorted(os.listdir(os.path.join(ROOT, "harmless"))) if os.path.isdir(os.path.join(ROOT, "harmless", d))
           and (not args or d in args or d.split("-")[0] in args)]
    bad = 0
    with cf.ThreadPoolExecutor(max_workers=par) as ex:
        for r in ex.map(trial, ids):
            tag = "ok" if (r.get("check_exit") == 0 and not r.get("violations")) else ("FALSE ALARM" if r.get("violations") else f"exit {r.get('check_exit')}")
            if not r.get("valid_refactoring"):
                tag += " (refactoring NOT validated: " + json.dumps({k: r.get(k) for k in ("applies", "demo_rc_clean", "demo_rc_refactored", "stable_ids_not_passing")}) + ")"
            print(r["id"], tag, "|", r.get("lines_changed"), "|", "; ".join(r.get("violations", []) + r.get("undecided", []))[:400], flush=True)
            bad += bool(r.get("violations"))
    sys.exit(1 if bad else 0)
