#!/usr/bin/env python3
"""prints the markdown table of DESIGN.md 8.5 from seeded/*/meta.json"""
import json, os
ROOT = os.path.dirname(os.path.dirname(os.path.abspath(__file__)))
rows = []
for d in sorted(os.listdir(os.path.join(ROOT, "seeded"))):
    p = os.path.join(ROOT, "seeded", d, "meta.json")
    if not os.path.exists(p):
        continue
    m = json.load(open(p))
    db = m.get("detected_by", {})
    obs = ", ".join("`" + o.split("-")[-1].replace(".json", "") + "`" for o in db.get("failed_obligations", [])[:3])
    rows.append(f"| {d} | {','.join(os.path.basename(f) for f in m.get('files_touched', []))} | {db.get('verdict', '?')} | {obs} | {'yes' if db.get('natively_replayed') else 'no'} |")
print("| change | file | verdict | obligations that failed (first three) | replayed natively |")
print("|--------|------|---------|----------------------------------------|-------------------|")
print("\n".join(rows))
