#!/bin/sh
# tools/harmless.sh : behaviour-preserving edits of zigpy/bellows, each applied in a scratch worktree (never /repo) and run
# against the check of the property it touches.  None may produce a VIOLATION line; exit 0 (held) is the goal, exit 3
# (a clause names a local that was renamed: undecided, reported as such) is tolerated and listed.
run() {  # prop file sed-expr description
  s=$(mktemp -d /tmp/harmless.XXXXXX)
  git -C /repo worktree add --detach -f $s/wt HEAD >/dev/null 2>&1
  sed -i "$3" $s/wt/$2
  changed=$(git -C $s/wt diff --stat | tail -1)
  out=$(cd /verif && PYTHONPATH=$s/wt PYVC_EVIDENCE_DIR=$s/ev ./check $1 --jobs ${JOBS:-8} 2>&1); rc=$?
  viol=$(echo "$out" | grep -c '^VIOLATION')
  echo "$1 rc=$rc violations=$viol | $4 |$changed"
  git -C /repo worktree remove --force $s/wt; rm -rf $s
  [ "$viol" = "0" ] && [ "$rc" != "1" ]
}
ok=0
run C15 bellows/multicast.py 's/        entry.endpoint = t.uint8_t(1)/        entry.networkIndex = t.uint8_t(0)\n        entry.endpoint = t.uint8_t(1)/' "subscribe: an assignment repeated earlier (same final state)" || ok=1
run C11 bellows/uart.py 's/if code is not t.NcpResetCode.RESET_SOFTWARE:/if code != t.NcpResetCode.RESET_SOFTWARE:/' "reset_received: != instead of 'is not' on an enum" || ok=1
run C06 bellows/ezsp/protocol.py 's/\bfuture\b/reply_future/g' "ProtocolHandler: local 'future' renamed" || ok=1
run C19 bellows/zigbee/application.py 's/^            if self._watchdog_failures > MAX_WATCHDOG_FAILURES:/            LOGGER.debug("watchdog failures so far: %s", self._watchdog_failures)\n            if self._watchdog_failures > MAX_WATCHDOG_FAILURES:/' "_watchdog_feed: a debug log line added" || ok=1
run C20 bellows/thread.py 's/\bcall\b/bound_call/g' "ThreadsafeProxy: local 'call' renamed" || ok=1
run C18 bellows/types/named.py 's/^        (EmberStatus.NOT_JOINED, sl_Status.NOT_JOINED),$/        (EmberStatus.NOT_JOINED, sl_Status.NOT_JOINED),  # (comment added)/' "SL_STATUS_MAP: comment added to a row" || ok=1
run C04 bellows/ash.py 's/        if frame.frm_num == self._rx_seq:/        if self._rx_seq == frame.frm_num:/' "data_frame_received: comparison operands swapped" || ok=1
run C02 bellows/ash.py '430,503s/reserved_index/ridx/g' "data_received: local renamed" || ok=1
run C16 bellows/ezsp/__init__.py '598,640s/\bcfg\b/entry/g' "write_config: loop variable renamed" || ok=1
exit $ok
