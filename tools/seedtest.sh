#!/bin/sh
# tools/seedtest.sh <prop> <patch> : apply a seeded change to /repo, run ./check <prop> (evidence and replays of
# the trial run go to a scratch directory, never into /verif/evidence), undo the change straight afterwards
prop=$1; patch=$2
git -C /repo apply "$(realpath $patch)" || { echo "patch does not apply"; exit 9; }
scratch=$(mktemp -d /tmp/seedtest.XXXXXX)
cd /verif && PYVC_EVIDENCE_DIR=$scratch ./check $prop 2>&1 | grep -v "^ENGINE\|^UNDECIDED ('" | tail -${TAIL:-8}
git -C /repo checkout -- .
rm -rf $scratch
