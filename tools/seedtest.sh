#!/bin/sh
# tools/seedtest.sh <prop> <patch> : apply a seeded change to /repo, run ./check <prop>, undo it straight afterwards
prop=$1; patch=$2
git -C /repo apply "$(realpath $patch)" || { echo "patch does not apply"; exit 9; }
cd /verif && ./check $prop 2>&1 | grep -v "^ENGINE\|^UNDECIDED ('" | tail -${TAIL:-8}
git -C /repo checkout -- .
