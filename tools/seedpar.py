#!/usr/bin/env python3
"""tools/seedpar.py [ids...] [-j N]

Runs the check of every seeded change's property against a scratch worktree of /repo's HEAD with the change
applied (PYTHONPATH points the engine's imports -- and so the sources it parses -- at the worktree; /repo itself is
never touched, so several trials run side by side), and records in seeded/<id>/meta.json which obligations raised the
alarm.  Worktrees live under /tmp and are removed as soon as a trial is done."""
import concurrent.futures as cf
import json, os, re, shutil, subprocess, sys, tempfile

ROOT = os.path.dirname(os.path.dirname(os.path.abspath(__file__)))


def trial(d):
    p = os.path.join(ROOT, "seeded", d)
    meta = json.load(open(os.path.join(p, "meta.json")))
    prop = meta["property"]
    scratch = tempfile.mkdtemp(prefix="seedpar.", dir="/tmp")
    wt = os.path.join(scratch, "wt")
    try:
        r = subprocess.run(f"git -C /repo worktree add --detach -f {wt} HEAD", shell=True, capture_output=True, text=True)
        if r.returncode != 0:
            return d, "worktree failed", None
        r = subprocess.run(f"git apply {p}/patch.diff", shell=True, cwd=wt, capture_output=True, text=True)
        if r.returncode != 0:
            return d, "patch does not apply", None
        env = dict(os.environ, PYTHONPATH=wt, PYVC_EVIDENCE_DIR=os.path.join(scratch, "ev"))
        chk = subprocess.run(f"cd {ROOT} && ./check {prop} --jobs {JOBS}", shell=True, capture_output=True, text=True, env=env, timeout=3600)
        which = subprocess.run([os.path.join(ROOT, ".venv/bin/python"), "-c", "import bellows; print(bellows.__file__)"],
                               capture_output=True, text=True, env=env).stdout.strip()
        assert which.startswith(wt), f"engine did not import the scratch tree: {which}"
    finally:
        subprocess.run(f"git -C /repo worktree remove --force {wt}", shell=True, capture_output=True)
        shutil.rmtree(scratch, ignore_errors=True)
    lines = [l for l in chk.stdout.splitlines() if l.startswith("VIOLATION")]
    obligations = sorted({re.sub(r".*replays/[^-]+-(.*?)\.json.*", r"\1", l) for l in lines})
    confirmed = [l for l in lines if "no-failing-input-found" not in l]
    verdict = "detected" if lines else ("undecided (exit 3)" if chk.returncode == 3 else "not detected")
    meta["detected_by"] = {"check": f"./check {prop}", "exit_code": chk.returncode, "verdict": verdict,
                           "failed_obligations": obligations, "natively_replayed": len(confirmed) > 0}
    json.dump(meta, open(os.path.join(p, "meta.json"), "w"), indent=1)
    tail = "" if lines else " | " + " ".join(chk.stdout.splitlines()[-2:])[:300]
    return d, f"{verdict}{' (replayed natively)' if confirmed else ''}: {', '.join(o.split('-')[-1] for o in obligations)[:160]}{tail}", meta


if __name__ == "__main__":
    args = sys.argv[1:]
    par = 4
    if "-j" in args:
        i = args.index("-j")
        par = int(args[i + 1])
        del args[i:i + 2]
    globals()["JOBS"] = max(2, 16 // par)
    ids = [d for d in sorted(os.listdir(os.path.join(ROOT, "seeded")))
           if os.path.isdir(os.path.join(ROOT, "seeded", d)) and (not args or d in args or d.split("-")[0] in args)]
    summary = {}
    with cf.ThreadPoolExecutor(max_workers=par) as ex:
        for d, line, _m in ex.map(trial, ids):
            summary[d] = line
            print(d, line, flush=True)
    n = sum(1 for v in summary.values() if v.startswith("detected"))
    print(f"{n} of {len(summary)} detected")
