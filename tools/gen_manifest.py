#!/usr/bin/env python3
"""Regenerates MANIFEST.json from the per-property claim table in contracts/claims.py (one source of
truth for level text / notes); validates against the schema."""
import json, os, sys
ROOT = os.path.dirname(os.path.dirname(os.path.abspath(__file__)))
sys.path.insert(0, ROOT)
from contracts.claims import CLAIMS, NOT_APPLICABLE

ids = [json.loads(l)["id"] for l in open(os.path.join(ROOT, "properties.jsonl"))]
checks = []
for pid in ids:
    c = CLAIMS.get(pid)
    if not c:
        continue
    checks.append({
        "property_id": pid,
        "quick_cmd": f"./check {pid} --tier quick",
        "thorough_cmd": f"./check {pid} --tier thorough",
        "evidence_file": f"evidence/{pid}.json",
        "replay_cmd_template": f"./check {pid} --replay {{path}}",
        "engine": "PyVC",
        "level_claimed": {"category": c.get("category", "proof"), "text": c["text"], "design_ref": c.get("design_ref", f"DESIGN.md 3 ({pid})")},
        "level_note": c["note"],
        "technique": c.get("technique", "contract-based deductive verification (ast->SMT verification conditions over the real source; z3, cvc5 second opinion)"),
    })
na = [{"property_id": pid, "reason": NOT_APPLICABLE.get(pid, "check not finished to the standard 'green on the unchanged tree, red on seeded breaks'; not claimed")}
      for pid in ids if pid not in CLAIMS]
m = {
    "version": 1,
    "setup_cmd": "./setup.sh",
    "hooks": {
        "guard": "BELLOWS_VERIF",
        "enable": "none needed: contracts are sidecar files, effects are captured by stub collaborators (guard reserved, unused)",
        "baseline_off_cmd": "cd /repo && /venv/bin/python -m pytest -ra -q -p no:cacheprovider --timeout=900 --continue-on-collection-errors",
        "source_commits": [],
        "add_only": True,
    },
    "engines": [{
        "name": "PyVC", "path": "pyvc/", "serves_properties": [c["property_id"] for c in checks],
        "kind_free_text": "ast -> z3/cvc5 verification-condition generator over the real source of /repo with sidecar contracts (contracts/), await rule for coroutines, native replay of counterexamples (virtual-clock loop for coroutines)",
    }],
    "checks": checks,
    "not_applicable": na,
    "notes": "Known findings: known_findings.json. Seeded changes used to test the checks: seeded/. Obligations proved on the pinned tree: baseline/obligations.json.",
}
json.dump(m, open(os.path.join(ROOT, "MANIFEST.json"), "w"), indent=1)
try:
    import jsonschema
    jsonschema.validate(m, json.load(open("/root/.vp/MANIFEST.schema.json")))
    print("MANIFEST ok:", len(checks), "claimed,", len(na), "not applicable")
except ImportError:
    print("written (jsonschema not importable here)")
