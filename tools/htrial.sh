#!/bin/sh
# tools/htrial.sh <harmless-id> [extra check args] : the property's check against a scratch worktree with the refactoring applied
id=$1; prop=$(echo $id | cut -d- -f1); shift
s=$(mktemp -d /tmp/htrial.XXXXXX)
git -C /repo worktree add --detach -f $s/wt HEAD >/dev/null 2>&1
(cd $s/wt && git apply /verif/harmless/$id/patch.diff) || echo "PATCH DID NOT APPLY"
(cd /verif && PYTHONPATH=$s/wt PYVC_EVIDENCE_DIR=$s/ev ./check $prop "$@" 2>&1 | grep -v "^  File\|^    " | tail -${TAIL:-12})
git -C /repo worktree remove --force $s/wt; rm -rf $s
