#!/bin/sh
# regenerates baseline/obligations.json for every claimed property ON PURPOSE (only on a tree where all checks are green)
cd /verif
for p in $(python3 -c "import json;print(' '.join(c['property_id'] for c in json.load(open('MANIFEST.json'))['checks']))"); do
  ./check $p --write-baseline 2>&1 | grep '^\[' | tail -1
done
