#!/usr/bin/env python3
"""Applies every seeded change under seeded/ to /repo (one at a time, undone straight afterwards), runs the
check of its property (trial evidence goes to a scratch directory) and records in seeded/<id>/meta.json which
obligations raised the alarm.  /repo must be clean."""
import json, os, re, subprocess, sys, tempfile, shutil
ROOT = os.path.dirname(os.path.dirname(os.path.abspath(__file__)))
only = sys.argv[1:]
assert subprocess.run("git -C /repo status --porcelain", shell=True, capture_output=True, text=True).stdout.strip() == "", "/repo not clean"
summary = {}
for d in sorted(os.listdir(os.path.join(ROOT, "seeded"))):
    p = os.path.join(ROOT, "seeded", d)
    if not os.path.isdir(p) or (only and d not in only and d.split("-")[0] not in only):
        continue
    meta = json.load(open(os.path.join(p, "meta.json")))
    prop = meta["property"]
    r = subprocess.run(f"git -C /repo apply {p}/patch.diff", shell=True, capture_output=True, text=True)
    if r.returncode != 0:
        summary[d] = "patch does not apply"
        continue
    scratch = tempfile.mkdtemp(prefix="seedall.")
    try:
        out = subprocess.run(f"cd {ROOT} && PYVC_EVIDENCE_DIR={scratch} ./check {prop}", shell=True, capture_output=True, text=True, timeout=1800)
    finally:
        subprocess.run("git -C /repo checkout -- .", shell=True)
        shutil.rmtree(scratch, ignore_errors=True)
    lines = [l for l in out.stdout.splitlines() if l.startswith("VIOLATION")]
    obligations = sorted({re.sub(r".*replays/[^-]+-(.*?)\.json.*", r"\1", l) for l in lines})
    confirmed = [l for l in lines if "no-failing-input-found" not in l]
    verdict = "detected" if lines else ("undecided (exit 3)" if out.returncode == 3 else "not detected")
    meta["detected_by"] = {"check": f"./check {prop}", "exit_code": out.returncode, "verdict": verdict,
                           "failed_obligations": obligations, "natively_replayed": len(confirmed) > 0}
    json.dump(meta, open(os.path.join(p, "meta.json"), "w"), indent=1)
    summary[d] = f"{verdict}{' (replayed natively)' if confirmed else ''}: {', '.join(o.split('-')[-1] for o in obligations)[:150]}"
    print(d, summary[d], flush=True)
json.dump(summary, open("/tmp/seedall_summary.json", "w"), indent=1)
