#!/bin/sh
# Builds /verif/.venv offline: python3.12 (from /venv) + z3-solver, cvc5, hypothesis, jsonschema
# from the local wheelhouse, plus a .pth exposing the repo's own dependencies (/venv site-packages,
# where bellows is an editable install of /repo).
set -e
cd "$(dirname "$0")"
if [ -x .venv/bin/python ] && .venv/bin/python -c "import z3, bellows.ash, jsonschema" 2>/dev/null; then
  echo "venv ok"; exit 0
fi
rm -rf .venv
/venv/bin/python -m venv .venv
PIP_NO_INDEX=1 .venv/bin/python -m pip install -q --no-index --find-links /opt/veriftools/wheels z3-solver cvc5 hypothesis jsonschema
echo "import site; site.addsitedir('/venv/lib/python3.12/site-packages')" > .venv/lib/python3.12/site-packages/_repo_deps.pth
.venv/bin/python -c "import z3, cvc5, bellows.ash, zigpy, jsonschema; print('venv built', z3.get_version_string())"
